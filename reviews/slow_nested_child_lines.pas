goto {$ifend} write * as / Foo {$ifend} &begin resourcestring not helper &begin inherited private at
procedure 　 finalization
property sealed of > goto requires : label type label label type repeat &begin <> then {$else} < <> $FF #$ helper 
 overload of / requires resourcestring {$ifend} string 　 write &begin {c} private object set private helper abstract / for on 　 finalization
property c
 Y} file deprecated & "q" &begin 
 {$else} requires as repeat & &begin type helper "q" set ) c
 not repeat dispid sealed resourcestring on object raise set label {$if  
 repeat requires else $FF Y} &begin <> file .) helper "q" finalization
property deprecated published requires on finalization
property helper deprecated <> goto sealed : / sealed Y} repeat {$ifend} in { at
procedure 　 + of uses published else file ) type > as write then helper raise uses overload $FF <> {$if  : + & {$if  {$endif} file 
 #$ label &begin published 
 {$else} on * & Foo type overload private as Y} label * repeat published helper of uses abstract threadvar destructor helper 
 { abstract helper &begin {$else} { requires "q" {$if  at
procedure ) <> write .) overload inherited #$ of {c} to deprecated