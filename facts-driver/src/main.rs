// pasfmt-facts: a rustc_private driver that dumps type-checked MIR facts as JSON.
//
// Used as RUSTC_WORKSPACE_WRAPPER under `cargo +nightly check`.  For every crate
// whose name is listed in PASFMT_FACTS_CRATES (comma separated) it writes
// $PASFMT_FACTS_DIR/<crate>.<lib|bin>.json after analysis: one JSON document with
// every local MIR body (blocks, statements, terminators with resolved callees),
// ADTs (fields, variants, deep interior mutability), trait impls, statics and a
// few HIR-level facts (const array literals).  All analyses are done by the
// Python rule engine over these facts; the driver only reports what rustc resolved.
#![feature(rustc_private)]
#![allow(clippy::all)]

extern crate rustc_abi;
extern crate rustc_data_structures;
extern crate rustc_driver;
extern crate rustc_hir;
extern crate rustc_interface;
extern crate rustc_middle;
extern crate rustc_span;

use rustc_driver::Compilation;
use rustc_hir::def::DefKind;
use rustc_hir::def_id::{DefId, LocalDefId};
use rustc_interface::interface::Compiler;
use rustc_middle::mir::{self, *};
use rustc_middle::ty::{self, Ty, TyCtxt, TyKind, TypingEnv};
use rustc_span::Span;
use std::collections::{BTreeMap, BTreeSet, HashSet};
use std::fmt::Write as _;

mod json;
use json::J;

struct Cb;

impl rustc_driver::Callbacks for Cb {
    fn after_analysis<'tcx>(&mut self, _c: &Compiler, tcx: TyCtxt<'tcx>) -> Compilation {
        let name = tcx.crate_name(rustc_hir::def_id::LOCAL_CRATE).to_string();
        let wanted = std::env::var("PASFMT_FACTS_CRATES").unwrap_or_default();
        if !wanted.split(',').any(|w| w == name) {
            return Compilation::Continue;
        }
        let dir = std::env::var("PASFMT_FACTS_DIR").expect("PASFMT_FACTS_DIR");
        let is_bin = tcx
            .crate_types()
            .iter()
            .any(|t| matches!(t, rustc_session_crate_type::Executable));
        let out = format!("{}/{}.{}.json", dir, name, if is_bin { "bin" } else { "lib" });
        let _g1 = ty::print::CrateNamePrefixGuard::new();
        let _g2 = ty::print::NoVisibleGuard::new();
        let _g3 = ty::print::NoTrimmedGuard::new();
        let doc = Extract::new(tcx).run(&name, is_bin);
        let mut s = String::with_capacity(1 << 24);
        doc.write(&mut s);
        let tmp = format!("{}.tmp{}", out, std::process::id());
        std::fs::write(&tmp, s).expect("write facts");
        std::fs::rename(&tmp, &out).expect("rename facts");
        Compilation::Continue
    }
}

use rustc_session::config::CrateType as rustc_session_crate_type;
extern crate rustc_session;

fn main() {
    let mut args: Vec<String> = std::env::args().collect();
    // invoked as: <driver> <path-to-rustc> <rustc args...>
    if args.len() > 1 && (args[1].ends_with("rustc") || args[1].contains("/rustc")) {
        args.remove(1);
    }
    rustc_driver::run_compiler(&args, &mut Cb);
}

struct Extract<'tcx> {
    tcx: TyCtxt<'tcx>,
    adts_seen: BTreeMap<String, DefId>,
    cur_owner: Option<DefId>,
}

trait HasParamCompat {
    fn has_non_region_param_compat(&self) -> bool;
}
impl<'tcx> HasParamCompat for mir::Const<'tcx> {
    fn has_non_region_param_compat(&self) -> bool {
        use rustc_middle::ty::TypeVisitableExt;
        match self {
            mir::Const::Unevaluated(u, t) => u.args.has_non_region_param() || t.has_non_region_param(),
            mir::Const::Ty(t, c) => t.has_non_region_param() || c.has_non_region_param(),
            mir::Const::Val(_, t) => t.has_non_region_param(),
        }
    }
}

fn s(x: impl Into<String>) -> J {
    J::Str(x.into())
}

impl<'tcx> Extract<'tcx> {
    fn new(tcx: TyCtxt<'tcx>) -> Self {
        Extract { tcx, adts_seen: BTreeMap::new(), cur_owner: None }
    }

    fn path(&self, d: DefId) -> String {
        self.tcx.def_path_str(d)
    }

    fn loc(&self, sp: Span) -> J {
        let sm = self.tcx.sess.source_map();
        let exp = sp.from_expansion();
        let sp2 = if exp { sp.source_callsite() } else { sp };
        let lo = sm.lookup_char_pos(sp2.lo());
        let file = match &lo.file.name {
            rustc_span::FileName::Real(r) => match r.local_path() {
                Some(p) => p.display().to_string(),
                None => format!("{:?}", lo.file.name),
            },
            other => format!("{:?}", other),
        };
        J::obj(vec![
            ("file", s(file)),
            ("line", J::Int(lo.line as i128)),
            ("col", J::Int(lo.col.0 as i128 + 1)),
            ("exp", J::Bool(exp)),
        ])
    }

    fn run(mut self, name: &str, is_bin: bool) -> J {
        let tcx = self.tcx;
        let mut bodies = Vec::new();
        for ldid in tcx.hir_body_owners() {
            let kind = tcx.def_kind(ldid);
            match kind {
                DefKind::Fn | DefKind::AssocFn | DefKind::Closure => {}
                _ => continue,
            }
            bodies.push(self.body(ldid, kind));
        }
        let statics = self.statics();
        let impls = self.impls();
        let consts = self.const_arrays();
        let local_adts = self.local_adts();
        // adts referenced in discriminant reads / aggregates (incl. external): variants table
        let mut adts = Vec::new();
        let seen: Vec<(String, DefId)> = self.adts_seen.iter().map(|(k, v)| (k.clone(), *v)).collect();
        for (p, d) in seen {
            adts.push(self.adt_variants(&p, d));
        }
        J::obj(vec![
            ("crate", s(name)),
            ("is_bin", J::Bool(is_bin)),
            ("bodies", J::Arr(bodies)),
            ("statics", statics),
            ("impls", impls),
            ("const_arrays", consts),
            ("local_adts", local_adts),
            ("adts", J::Arr(adts)),
        ])
    }

    fn adt_variants(&self, p: &str, d: DefId) -> J {
        let tcx = self.tcx;
        let adt = tcx.adt_def(d);
        let mut vs = Vec::new();
        if adt.is_enum() {
            for (vi, discr) in adt.discriminants(tcx) {
                let v = adt.variant(vi);
                vs.push(J::obj(vec![
                    ("name", s(v.name.to_string())),
                    ("idx", J::Int(vi.as_u32() as i128)),
                    ("discr", J::Int(discr.val as i128)),
                    ("nfields", J::Int(v.fields.len() as i128)),
                ]));
            }
        } else {
            for (i, v) in adt.variants().iter().enumerate() {
                vs.push(J::obj(vec![
                    ("name", s(v.name.to_string())),
                    ("idx", J::Int(i as i128)),
                    ("discr", J::Int(i as i128)),
                    ("nfields", J::Int(v.fields.len() as i128)),
                ]));
            }
        }
        J::obj(vec![
            ("path", s(p)),
            ("is_enum", J::Bool(adt.is_enum())),
            ("local", J::Bool(d.is_local())),
            ("variants", J::Arr(vs)),
        ])
    }

    // ---------------------------------------------------------------- types

    fn ty_str(&self, t: Ty<'tcx>) -> String {
        format!("{}", t)
    }

    fn adt_of(&mut self, t: Ty<'tcx>) -> Option<String> {
        let t = t.peel_refs();
        if let TyKind::Adt(a, _) = t.kind() {
            let p = self.path(a.did());
            self.adts_seen.entry(p.clone()).or_insert(a.did());
            Some(p)
        } else {
            None
        }
    }

    /// Deep walk of a type looking for UnsafeCell; records dyn traits, type params and
    /// opaque leaves it could not see through.
    fn deep_walk(
        &self,
        t: Ty<'tcx>,
        visited: &mut HashSet<Ty<'tcx>>,
        cells: &mut BTreeSet<String>,
        dyns: &mut BTreeSet<String>,
        leaves: &mut BTreeSet<String>,
        reached: &mut BTreeSet<String>,
        depth: usize,
    ) {
        if !visited.insert(t) || depth > 64 {
            return;
        }
        let tcx = self.tcx;
        match t.kind() {
            TyKind::Bool
            | TyKind::Char
            | TyKind::Int(_)
            | TyKind::Uint(_)
            | TyKind::Float(_)
            | TyKind::Str
            | TyKind::Never => {}
            TyKind::Adt(a, args) => {
                let p = self.path(a.did());
                reached.insert(p.clone());
                if a.is_unsafe_cell() {
                    cells.insert(format!("{}", t));
                }
                for v in a.variants().iter() {
                    for f in v.fields.iter() {
                        let ft = f.ty(tcx, args);
                        self.deep_walk(ft, visited, cells, dyns, leaves, reached, depth + 1);
                    }
                }
                for ga in args.iter() {
                    if let Some(gt) = ga.as_type() {
                        self.deep_walk(gt, visited, cells, dyns, leaves, reached, depth + 1);
                    }
                }
            }
            TyKind::Ref(_, inner, _) | TyKind::RawPtr(inner, _) | TyKind::Slice(inner) => {
                self.deep_walk(*inner, visited, cells, dyns, leaves, reached, depth + 1)
            }
            TyKind::Array(inner, _) => self.deep_walk(*inner, visited, cells, dyns, leaves, reached, depth + 1),
            TyKind::Tuple(ts) => {
                for x in ts.iter() {
                    self.deep_walk(x, visited, cells, dyns, leaves, reached, depth + 1);
                }
            }
            TyKind::Dynamic(preds, _) => {
                for p in preds.iter() {
                    if let ty::ExistentialPredicate::Trait(tr) = p.skip_binder() {
                        dyns.insert(self.path(tr.def_id));
                    } else if let ty::ExistentialPredicate::AutoTrait(d) = p.skip_binder() {
                        let _ = d;
                    }
                }
            }
            TyKind::Closure(_, args) => {
                let up = args.as_closure().tupled_upvars_ty();
                self.deep_walk(up, visited, cells, dyns, leaves, reached, depth + 1);
            }
            TyKind::FnDef(..) | TyKind::FnPtr(..) => {}
            TyKind::Param(p) => {
                leaves.insert(format!("param:{}", p.name));
            }
            other => {
                leaves.insert(format!("opaque:{:?}", other));
            }
        }
    }

    fn deep_facts(&self, t: Ty<'tcx>) -> Vec<(&'static str, J)> {
        let mut visited = HashSet::new();
        let mut cells = BTreeSet::new();
        let mut dyns = BTreeSet::new();
        let mut leaves = BTreeSet::new();
        let mut reached = BTreeSet::new();
        self.deep_walk(t, &mut visited, &mut cells, &mut dyns, &mut leaves, &mut reached, 0);
        vec![
            ("cells", J::Arr(cells.into_iter().map(s).collect())),
            ("dyn_traits", J::Arr(dyns.into_iter().map(s).collect())),
            ("leaves", J::Arr(leaves.into_iter().map(s).collect())),
            ("reached_adts", J::Arr(reached.into_iter().map(s).collect())),
        ]
    }

    fn local_adts(&mut self) -> J {
        let tcx = self.tcx;
        let mut out = Vec::new();
        for ldid in tcx.hir_crate_items(()).definitions() {
            let kind = tcx.def_kind(ldid);
            if !matches!(kind, DefKind::Struct | DefKind::Enum | DefKind::Union) {
                continue;
            }
            let did = ldid.to_def_id();
            let adt = tcx.adt_def(did);
            let ty = tcx.type_of(did).instantiate_identity().skip_norm_wip();
            let mut variants = Vec::new();
            for v in adt.variants().iter() {
                let mut fields = Vec::new();
                for f in v.fields.iter() {
                    let fty = tcx.type_of(f.did).instantiate_identity().skip_norm_wip();
                    let vis = tcx.visibility(f.did);
                    fields.push(J::obj(vec![
                        ("name", s(f.name.to_string())),
                        ("ty", s(self.ty_str(fty))),
                        ("public", J::Bool(vis.is_public())),
                    ]));
                }
                variants.push(J::obj(vec![("name", s(v.name.to_string())), ("fields", J::Arr(fields))]));
            }
            let mut o = vec![
                ("path", s(self.path(did))),
                ("kind", s(format!("{:?}", kind))),
                ("loc", self.loc(tcx.def_span(did))),
                ("variants", J::Arr(variants)),
            ];
            o.extend(self.deep_facts(ty));
            out.push(J::obj(o));
        }
        J::Arr(out)
    }

    fn statics(&mut self) -> J {
        let tcx = self.tcx;
        let mut out = Vec::new();
        for ldid in tcx.hir_crate_items(()).definitions() {
            let kind = tcx.def_kind(ldid);
            if let DefKind::Static { mutability, nested, .. } = kind {
                let did = ldid.to_def_id();
                let ty = tcx.type_of(did).instantiate_identity().skip_norm_wip();
                let env = TypingEnv::post_analysis(tcx, did);
                let freeze = ty.is_freeze(tcx, env);
                let mut o = vec![
                    ("path", s(self.path(did))),
                    ("ty", s(self.ty_str(ty))),
                    ("mutable", J::Bool(mutability.is_mut())),
                    ("nested", J::Bool(nested)),
                    ("freeze", J::Bool(freeze)),
                    ("thread_local", J::Bool(tcx.is_thread_local_static(did))),
                    ("loc", self.loc(tcx.def_span(did))),
                ];
                o.extend(self.deep_facts(ty));
                out.push(J::obj(o));
            }
        }
        J::Arr(out)
    }

    fn impls(&mut self) -> J {
        let tcx = self.tcx;
        let mut out = Vec::new();
        for ldid in tcx.hir_crate_items(()).definitions() {
            if let DefKind::Impl { of_trait } = tcx.def_kind(ldid) {
                let did = ldid.to_def_id();
                let self_ty = tcx.type_of(did).instantiate_identity().skip_norm_wip();
                let mut o = vec![
                    ("self_ty", s(self.ty_str(self_ty))),
                    ("self_adt", match self_ty.kind() { TyKind::Adt(a, _) => s(self.path(a.did())), _ => J::Null }),
                    ("loc", self.loc(tcx.def_span(did))),
                ];
                if of_trait {
                    let tr = tcx.impl_trait_ref(did).instantiate_identity().skip_norm_wip();
                    o.push(("trait", s(self.path(tr.def_id))));
                    o.push(("trait_ref", s(format!("{}", tr))));
                } else {
                    o.push(("trait", J::Null));
                }
                let mut items = Vec::new();
                for it in tcx.associated_items(did).in_definition_order() {
                    if let ty::AssocKind::Fn { .. } = it.kind {
                        let ti = it.trait_item_def_id();
                        items.push(J::obj(vec![
                            ("impl_item", s(self.path(it.def_id))),
                            ("trait_item", match ti { Some(t) => s(self.path(t)), None => J::Null }),
                        ]));
                    }
                }
                o.push(("items", J::Arr(items)));
                out.push(J::obj(o));
            }
        }
        J::Arr(out)
    }

    /// const/static items whose initialiser is an array literal of tuples/paths/literals (HIR).
    fn const_arrays(&mut self) -> J {
        use rustc_hir as hir;
        let tcx = self.tcx;
        let mut out = Vec::new();
        for ldid in tcx.hir_crate_items(()).definitions() {
            let kind = tcx.def_kind(ldid);
            if !matches!(kind, DefKind::Const { .. } | DefKind::Static { .. }) {
                continue;
            }
            let Some(body_id) = tcx.hir_maybe_body_owned_by(ldid) else { continue };
            let mut e = body_id.value;
            // peel & and blocks
            loop {
                match e.kind {
                    hir::ExprKind::AddrOf(_, _, inner) => e = inner,
                    hir::ExprKind::Block(b, _) if b.stmts.is_empty() && b.expr.is_some() => e = b.expr.unwrap(),
                    _ => break,
                }
            }
            if let hir::ExprKind::Call(..) = e.kind {
                out.push(J::obj(vec![
                    ("path", s(self.path(ldid.to_def_id()))),
                    ("loc", self.loc(tcx.def_span(ldid.to_def_id()))),
                    ("expr", self.hir_expr(e, 0)),
                ]));
            }
            if let hir::ExprKind::Array(elems) = e.kind {
                let mut rows = Vec::new();
                for el in elems.iter() {
                    rows.push(self.hir_expr(el, 0));
                }
                out.push(J::obj(vec![
                    ("path", s(self.path(ldid.to_def_id()))),
                    ("loc", self.loc(tcx.def_span(ldid.to_def_id()))),
                    ("elems", J::Arr(rows)),
                ]));
            }
        }
        J::Arr(out)
    }

    fn hir_expr(&self, e: &rustc_hir::Expr<'tcx>, depth: usize) -> J {
        use rustc_hir as hir;
        if depth > 12 {
            return J::Null;
        }
        match e.kind {
            hir::ExprKind::Tup(xs) => J::Arr(xs.iter().map(|x| self.hir_expr(x, depth + 1)).collect()),
            hir::ExprKind::Array(xs) => J::Arr(xs.iter().map(|x| self.hir_expr(x, depth + 1)).collect()),
            hir::ExprKind::Lit(l) => match l.node {
                rustc_ast::LitKind::Str(sym, _) => J::obj(vec![("str", s(sym.to_string()))]),
                rustc_ast::LitKind::Int(v, _) => J::obj(vec![("int", J::Int(v.get() as i128))]),
                rustc_ast::LitKind::Char(c) => J::obj(vec![("char", s(c.to_string()))]),
                rustc_ast::LitKind::Byte(b) => J::obj(vec![("byte", J::Int(b as i128))]),
                rustc_ast::LitKind::Bool(b) => J::Bool(b),
                rustc_ast::LitKind::ByteStr(ref sym, _) => J::obj(vec![("bytes", J::Arr(sym.as_byte_str().iter().map(|b| J::Int(*b as i128)).collect()))]),
                _ => J::obj(vec![("lit", s(format!("{:?}", l.node)))]),
            },
            hir::ExprKind::Path(ref qp) => {
                let hid = e.hir_id;
                let owner = hid.owner.def_id;
                let tr = self.tcx.typeck(owner);
                let res = tr.qpath_res(qp, hid);
                match res.opt_def_id() {
                    Some(d) => J::obj(vec![("path", s(self.path(d)))]),
                    None => J::obj(vec![("path", s(format!("{:?}", res)))]),
                }
            }
            hir::ExprKind::Call(f, args) => J::obj(vec![
                ("call", self.hir_expr(f, depth + 1)),
                ("args", J::Arr(args.iter().map(|x| self.hir_expr(x, depth + 1)).collect())),
            ]),
            hir::ExprKind::AddrOf(_, _, inner) => self.hir_expr(inner, depth + 1),
            hir::ExprKind::Cast(inner, _) => self.hir_expr(inner, depth + 1),
            hir::ExprKind::DropTemps(inner) => self.hir_expr(inner, depth + 1),
            hir::ExprKind::Block(b, _) if b.stmts.is_empty() && b.expr.is_some() => self.hir_expr(b.expr.unwrap(), depth + 1),
            hir::ExprKind::Struct(qp, fields, _) => {
                let hid = e.hir_id;
                let tr = self.tcx.typeck(hid.owner.def_id);
                let res = tr.qpath_res(qp, hid);
                let mut fs = Vec::new();
                for f in fields.iter() {
                    fs.push(J::obj(vec![("field", s(f.ident.name.to_string())), ("value", self.hir_expr(f.expr, depth + 1))]));
                }
                J::obj(vec![
                    ("struct", s(res.opt_def_id().map(|d| self.path(d)).unwrap_or_default())),
                    ("fields", J::Arr(fs)),
                ])
            }
            _ => J::obj(vec![("other", s(format!("{:?}", std::mem::discriminant(&e.kind))))]),
        }
    }

    // ---------------------------------------------------------------- bodies

    fn body(&mut self, ldid: LocalDefId, kind: DefKind) -> J {
        let tcx = self.tcx;
        let did = ldid.to_def_id();
        self.cur_owner = Some(did);
        let body: &Body<'tcx> = tcx.optimized_mir(did);
        let mut o: Vec<(&'static str, J)> = Vec::new();
        o.push(("path", s(self.path(did))));
        o.push(("kind", s(format!("{:?}", kind))));
        o.push(("loc", self.loc(tcx.def_span(did))));
        o.push(("end_line", {
            let sm = tcx.sess.source_map();
            J::Int(sm.lookup_char_pos(body.span.hi()).line as i128)
        }));
        if kind == DefKind::Closure {
            let parent = tcx.typeck_root_def_id(did);
            o.push(("root", s(self.path(parent))));
            o.push(("parent", s(self.path(tcx.parent(did)))));
            let mut ups = Vec::new();
            for cap in tcx.closure_captures(ldid) {
                ups.push(J::obj(vec![
                    ("name", s(cap.to_string(tcx))),
                    ("by_ref", J::Bool(matches!(cap.info.capture_kind, ty::UpvarCapture::ByRef(_)))),
                    ("mutable", J::Bool(matches!(cap.info.capture_kind, ty::UpvarCapture::ByRef(ty::BorrowKind::Mutable | ty::BorrowKind::UniqueImmutable)))),
                    ("ty", s(self.ty_str(cap.place.ty()))),
                ]));
            }
            o.push(("upvars", J::Arr(ups)));
        } else {
            let is_const = tcx.is_const_fn(did);
            o.push(("const_fn", J::Bool(is_const)));
            let sig = tcx.fn_sig(did).instantiate_identity().skip_binder();
            o.push(("unsafe_fn", J::Bool(!sig.safety().is_safe())));
            o.push(("public", J::Bool(tcx.visibility(did).is_public())));
            let cfa = tcx.codegen_fn_attrs(did);
            o.push(("target_features", J::Arr(cfa.target_features.iter().map(|f| s(f.name.to_string())).collect())));
            if let Some(impl_did) = tcx.impl_of_assoc(did) {
                let self_ty = tcx.type_of(impl_did).instantiate_identity().skip_norm_wip();
                o.push(("impl_self", s(self.ty_str(self_ty))));
                if let Some(ti) = tcx.associated_item(did).trait_item_def_id() {
                    o.push(("trait_item", s(self.path(ti))));
                }
            }
        }
        // does the HIR body contain an unsafe block?
        o.push(("has_unsafe_block", J::Bool(self.has_unsafe_block(ldid))));
        o.push(("arg_count", J::Int(body.arg_count as i128)));

        // locals
        let mut names: BTreeMap<usize, String> = BTreeMap::new();
        for vdi in body.var_debug_info.iter() {
            if let VarDebugInfoContents::Place(p) = vdi.value {
                if p.projection.is_empty() {
                    names.entry(p.local.as_usize()).or_insert(vdi.name.to_string());
                }
            }
        }
        let mut locals = Vec::new();
        for (l, decl) in body.local_decls.iter_enumerated() {
            let mut lo = vec![("ty", s(self.ty_str(decl.ty)))];
            if let Some(a) = self.adt_of(decl.ty) {
                lo.push(("adt", s(a)));
            }
            if let Some(n) = names.get(&l.as_usize()) {
                lo.push(("name", s(n.clone())));
            }
            if let TyKind::Closure(cd, _) = decl.ty.peel_refs().kind() {
                lo.push(("closure", s(self.path(*cd))));
            }
            if let TyKind::FnDef(fd, _) = decl.ty.peel_refs().kind() {
                lo.push(("fndef", s(self.path(*fd))));
            }
            locals.push(J::obj(lo));
        }
        o.push(("locals", J::Arr(locals)));

        // blocks
        let mut blocks = Vec::new();
        for (_bb, data) in body.basic_blocks.iter_enumerated() {
            let mut stmts = Vec::new();
            for st in data.statements.iter() {
                match &st.kind {
                    StatementKind::Assign(bx) => {
                        let (place, rv) = &**bx;
                        stmts.push(J::obj(vec![
                            ("k", s("assign")),
                            ("dst", self.place(body, place)),
                            ("rv", self.rvalue(body, did, rv)),
                            ("line", self.line(st.source_info.span)),
                        ]));
                    }
                    StatementKind::SetDiscriminant { place, variant_index } => {
                        stmts.push(J::obj(vec![
                            ("k", s("setdiscr")),
                            ("dst", self.place(body, place)),
                            ("variant", J::Int(variant_index.as_u32() as i128)),
                            ("line", self.line(st.source_info.span)),
                        ]));
                    }
                    StatementKind::Intrinsic(bx) => {
                        stmts.push(J::obj(vec![("k", s("intrinsic")), ("text", s(format!("{:?}", bx)))]));
                    }
                    _ => {}
                }
            }
            let term = data.terminator();
            let t = self.terminator(body, did, term);
            blocks.push(J::obj(vec![
                ("cleanup", J::Bool(data.is_cleanup)),
                ("stmts", J::Arr(stmts)),
                ("term", t),
            ]));
        }
        o.push(("blocks", J::Arr(blocks)));
        J::obj(o)
    }

    fn has_unsafe_block(&self, ldid: LocalDefId) -> bool {
        use rustc_hir::intravisit::{self, Visitor};
        struct V {
            found: bool,
        }
        impl<'v> Visitor<'v> for V {
            fn visit_block(&mut self, b: &'v rustc_hir::Block<'v>) {
                if let rustc_hir::BlockCheckMode::UnsafeBlock(src) = b.rules {
                    if matches!(src, rustc_hir::UnsafeSource::UserProvided) {
                        self.found = true;
                    }
                }
                intravisit::walk_block(self, b);
            }
        }
        let Some(body) = self.tcx.hir_maybe_body_owned_by(ldid) else { return false };
        let mut v = V { found: false };
        v.visit_expr(body.value);
        v.found
    }

    fn line(&self, sp: Span) -> J {
        let sm = self.tcx.sess.source_map();
        let exp = sp.from_expansion();
        let sp2 = if exp { sp.source_callsite() } else { sp };
        let lo = sm.lookup_char_pos(sp2.lo());
        // negative line = from macro expansion (call-site line)
        J::Int(if exp { -(lo.line as i128) } else { lo.line as i128 })
    }

    fn place(&mut self, body: &Body<'tcx>, p: &Place<'tcx>) -> J {
        let tcx = self.tcx;
        let mut proj = Vec::new();
        let mut pty = mir::PlaceTy::from_ty(body.local_decls[p.local].ty);
        for elem in p.projection.iter() {
            match elem {
                ProjectionElem::Deref => proj.push(J::obj(vec![("k", s("deref"))])),
                ProjectionElem::Field(f, fty) => {
                    let mut o = vec![("k", s("field")), ("idx", J::Int(f.as_u32() as i128)), ("ty", s(self.ty_str(fty)))];
                    match pty.ty.kind() {
                        TyKind::Adt(a, _) => {
                            let v = match pty.variant_index {
                                Some(vi) => a.variant(vi),
                                None => a.non_enum_variant(),
                            };
                            o.push(("adt", s(self.path(a.did()))));
                            if a.is_enum() {
                                o.push(("variant", s(v.name.to_string())));
                            }
                            o.push(("name", s(v.fields[f].name.to_string())));
                        }
                        TyKind::Closure(cd, _) => {
                            o.push(("closure", s(self.path(*cd))));
                        }
                        TyKind::Tuple(_) => {
                            o.push(("tuple", J::Bool(true)));
                        }
                        _ => {}
                    }
                    proj.push(J::obj(o));
                }
                ProjectionElem::Index(l) => proj.push(J::obj(vec![("k", s("index")), ("local", J::Int(l.as_usize() as i128))])),
                ProjectionElem::ConstantIndex { offset, min_length, from_end } => proj.push(J::obj(vec![
                    ("k", s("constindex")),
                    ("offset", J::Int(offset as i128)),
                    ("min_length", J::Int(min_length as i128)),
                    ("from_end", J::Bool(from_end)),
                ])),
                ProjectionElem::Subslice { from, to, from_end } => proj.push(J::obj(vec![
                    ("k", s("subslice")),
                    ("from", J::Int(from as i128)),
                    ("to", J::Int(to as i128)),
                    ("from_end", J::Bool(from_end)),
                ])),
                ProjectionElem::Downcast(name, vi) => {
                    let mut o = vec![("k", s("downcast")), ("idx", J::Int(vi.as_u32() as i128))];
                    if let Some(n) = name {
                        o.push(("variant", s(n.to_string())));
                    }
                    if let TyKind::Adt(a, _) = pty.ty.kind() {
                        o.push(("adt", s(self.path(a.did()))));
                        self.adts_seen.entry(self.path(a.did())).or_insert(a.did());
                    }
                    proj.push(J::obj(o));
                }
                ProjectionElem::OpaqueCast(_) => proj.push(J::obj(vec![("k", s("opaquecast"))])),
                ProjectionElem::UnwrapUnsafeBinder(_) => proj.push(J::obj(vec![("k", s("unwrapbinder"))])),
            }
            pty = pty.projection_ty(tcx, elem);
        }
        J::obj(vec![("l", J::Int(p.local.as_usize() as i128)), ("p", J::Arr(proj))])
    }

    fn operand(&mut self, body: &Body<'tcx>, op: &Operand<'tcx>) -> J {
        match op {
            Operand::Copy(p) => J::obj(vec![("k", s("copy")), ("place", self.place(body, p))]),
            Operand::Move(p) => J::obj(vec![("k", s("move")), ("place", self.place(body, p))]),
            Operand::Constant(c) => self.constant(c),
            #[allow(unreachable_patterns)]
            _ => J::obj(vec![("k", s("otherop")), ("text", s(format!("{:?}", op)))]),
        }
    }

    fn constant(&mut self, c: &ConstOperand<'tcx>) -> J {
        let tcx = self.tcx;
        let ty = c.const_.ty();
        let mut o = vec![("k", s("const")), ("ty", s(self.ty_str(ty)))];
        match ty.kind() {
            TyKind::FnDef(d, args) => {
                o.push(("fn", s(self.path(*d))));
                o.push(("args", J::Arr(args.iter().map(|a| s(format!("{}", a))).collect())));
            }
            TyKind::Closure(d, _) => {
                o.push(("closure", s(self.path(*d))));
            }
            _ => {}
        }
        if let Some(a) = self.adt_of(ty) {
            o.push(("adt", s(a)));
        }
        // value rendering
        let env = TypingEnv::fully_monomorphized();
        let mut rendered = false;
        if ty.is_integral() || ty.is_bool() || ty.is_char() {
            if let Some(sc) = c.const_.try_eval_scalar_int(tcx, env) {
                let size = sc.size();
                let bits = sc.to_bits(size);
                if ty.is_bool() {
                    o.push(("bool", J::Bool(bits != 0)));
                } else if ty.is_char() {
                    o.push(("char", J::Int(bits as i128)));
                } else if ty.is_signed() {
                    let v = size.sign_extend(bits) as i128;
                    o.push(("int", J::Int(v)));
                } else {
                    o.push(("int", J::Int(bits as i128)));
                }
                rendered = true;
            }
        }
        if !rendered {
            if let TyKind::Ref(_, inner, _) = ty.kind() {
                let val_opt: Option<mir::ConstValue> = match c.const_ {
                    mir::Const::Val(v, _) => Some(v),
                    mir::Const::Ty(..) if !c.const_.has_non_region_param_compat() => {
                        c.const_.eval(tcx, TypingEnv::fully_monomorphized(), rustc_span::DUMMY_SP).ok()
                    }
                    _ => None,
                };
                if let Some(val) = val_opt {
                    let is_slice_val = matches!(val, mir::ConstValue::Slice { .. } | mir::ConstValue::Indirect { .. });
                    if inner.is_str() && is_slice_val {
                        if let Some(bytes) = val.try_get_slice_bytes_for_diagnostics(tcx) {
                            o.push(("str", s(String::from_utf8_lossy(bytes).to_string())));
                            rendered = true;
                        }
                    } else if let TyKind::Slice(el) = inner.kind() {
                        if *el == tcx.types.u8 && is_slice_val {
                            if let Some(bytes) = val.try_get_slice_bytes_for_diagnostics(tcx) {
                                o.push(("bytes", J::Arr(bytes.iter().map(|b| J::Int(*b as i128)).collect())));
                                rendered = true;
                            }
                        }
                    } else if let TyKind::Array(el, _) = inner.kind() {
                        if *el == tcx.types.u8 {
                            if let mir::ConstValue::Scalar(rustc_middle::mir::interpret::Scalar::Ptr(ptr, _)) = val {
                                let (prov, off) = ptr.prov_and_relative_offset();
                                if let rustc_middle::mir::interpret::GlobalAlloc::Memory(a) = tcx.global_alloc(prov.alloc_id()) {
                                    let a = a.inner();
                                    let start = off.bytes() as usize;
                                    let all = a.inspect_with_uninit_and_ptr_outside_interpreter(start..a.len());
                                    o.push(("bytes", J::Arr(all.iter().map(|b| J::Int(*b as i128)).collect())));
                                    rendered = true;
                                }
                            }
                        }
                    }
                }
            }
        }
        // promoted constants: look into the promoted body for the enum variant / scalar it materialises,
        // e.g. `&LogicalLineType::AsmInstruction` (works in generic bodies and closures, no evaluation needed)
        if let mir::Const::Unevaluated(uv, _) = c.const_ {
            if let Some(pidx) = uv.promoted {
                if uv.def.is_local() {
                    let proms = tcx.promoted_mir(uv.def);
                    if let Some(pb) = proms.get(pidx) {
                        for bbdata in pb.basic_blocks.iter() {
                            for st in bbdata.statements.iter() {
                                if let StatementKind::Assign(bx) = &st.kind {
                                    if let Rvalue::Use(Operand::Constant(c2), _) = &bx.1 {
                                        let t2 = c2.const_.ty();
                                        if let TyKind::Ref(_, inner2, _) = t2.kind() {
                                            if inner2.is_str() {
                                                if let mir::Const::Val(val2, _) = c2.const_ {
                                                    if matches!(val2, mir::ConstValue::Slice { .. } | mir::ConstValue::Indirect { .. }) {
                                                        if let Some(bytes) = val2.try_get_slice_bytes_for_diagnostics(tcx) {
                                                            o.push(("str", s(String::from_utf8_lossy(bytes).to_string())));
                                                        }
                                                    }
                                                }
                                            }
                                        }
                                        if t2.is_char() || t2.is_integral() {
                                            if let Some(sc) = c2.const_.try_eval_scalar_int(tcx, TypingEnv::fully_monomorphized()) {
                                                let bits = sc.to_bits(sc.size());
                                                o.push((if t2.is_char() { "char" } else { "int" }, J::Int(bits as i128)));
                                            }
                                        }
                                    }
                                    if let Rvalue::Aggregate(kind, ops) = &bx.1 {
                                        if let AggregateKind::Adt(d, vi, _, _, _) = &**kind {
                                            let adt = tcx.adt_def(*d);
                                            if adt.is_enum() && ops.is_empty() {
                                                o.push(("enum_variant", s(adt.variant(*vi).name.to_string())));
                                                o.push(("enum_adt", s(self.path(*d))));
                                            }
                                        }
                                    }
                                }
                            }
                        }
                    }
                }
            }
        }
        // pointers to statics (possibly through one promoted allocation): `&STATIC` / `&&STATIC`
        if let mir::Const::Val(mir::ConstValue::Scalar(rustc_middle::mir::interpret::Scalar::Ptr(ptr, _)), _) = c.const_ {
            let (prov, _off) = ptr.prov_and_relative_offset();
            let mut aid = prov.alloc_id();
            for _ in 0..3 {
                match tcx.global_alloc(aid) {
                    rustc_middle::mir::interpret::GlobalAlloc::Static(did) => {
                        o.push(("static", s(self.path(did))));
                        break;
                    }
                    rustc_middle::mir::interpret::GlobalAlloc::Memory(a) => {
                        let a = a.inner();
                        let ptrs = a.provenance().ptrs();
                        if ptrs.len() == 1 {
                            let (_, p2) = ptrs.iter().next().unwrap();
                            aid = p2.alloc_id();
                        } else {
                            break;
                        }
                    }
                    _ => break,
                }
            }
        }
        if !rendered {
            let mut t = String::new();
            let _ = write!(t, "{}", c.const_);
            if t.len() > 200 {
                t.truncate(200);
            }
            o.push(("text", s(t)));
        }
        J::obj(o)
    }

    fn rvalue(&mut self, body: &Body<'tcx>, owner: DefId, rv: &Rvalue<'tcx>) -> J {
        let tcx = self.tcx;
        match rv {
            Rvalue::Use(op, _) => J::obj(vec![("k", s("use")), ("op", self.operand(body, op))]),
            Rvalue::Repeat(op, n) => J::obj(vec![("k", s("repeat")), ("op", self.operand(body, op)), ("n", s(format!("{}", n)))]),
            Rvalue::Ref(_, bk, p) => J::obj(vec![
                ("k", s("ref")),
                ("mut", J::Bool(matches!(bk, BorrowKind::Mut { .. }))),
                ("place", self.place(body, p)),
            ]),
            Rvalue::RawPtr(k, p) => J::obj(vec![
                ("k", s("rawptr")),
                ("mut", J::Bool(matches!(k, RawPtrKind::Mut))),
                ("place", self.place(body, p)),
            ]),
            Rvalue::Cast(kind, op, ty) => J::obj(vec![
                ("k", s("cast")),
                ("cast", s(format!("{:?}", kind))),
                ("op", self.operand(body, op)),
                ("ty", s(self.ty_str(*ty))),
            ]),
            Rvalue::BinaryOp(bop, bx) => {
                let (a, b) = &**bx;
                J::obj(vec![
                    ("k", s("binop")),
                    ("op", s(format!("{:?}", bop))),
                    ("a", self.operand(body, a)),
                    ("b", self.operand(body, b)),
                ])
            }
            Rvalue::UnaryOp(uop, a) => J::obj(vec![("k", s("unop")), ("op", s(format!("{:?}", uop))), ("a", self.operand(body, a))]),
            Rvalue::Discriminant(p) => {
                let pty = p.ty(&body.local_decls, tcx).ty;
                let mut o = vec![("k", s("discr")), ("place", self.place(body, p))];
                if let Some(a) = self.adt_of(pty) {
                    o.push(("adt", s(a)));
                }
                J::obj(o)
            }
            Rvalue::Aggregate(kind, ops) => {
                let mut o = vec![("k", s("aggregate"))];
                match &**kind {
                    AggregateKind::Array(_) => o.push(("agg", s("array"))),
                    AggregateKind::Tuple => o.push(("agg", s("tuple"))),
                    AggregateKind::Adt(d, vi, _, _, _) => {
                        o.push(("agg", s("adt")));
                        let p = self.path(*d);
                        self.adts_seen.entry(p.clone()).or_insert(*d);
                        o.push(("adt", s(p)));
                        let adt = tcx.adt_def(*d);
                        let v = adt.variant(*vi);
                        o.push(("variant", s(v.name.to_string())));
                        o.push(("fields", J::Arr(v.fields.iter().map(|f| s(f.name.to_string())).collect())));
                    }
                    AggregateKind::Closure(d, _) => {
                        o.push(("agg", s("closure")));
                        o.push(("closure", s(self.path(*d))));
                    }
                    other => {
                        o.push(("agg", s(format!("{:?}", other))));
                    }
                }
                o.push(("ops", J::Arr(ops.iter().map(|x| self.operand(body, x)).collect())));
                J::obj(o)
            }
            Rvalue::CopyForDeref(p) => J::obj(vec![("k", s("use")), ("op", J::obj(vec![("k", s("copy")), ("place", self.place(body, p))]))]),
            Rvalue::ThreadLocalRef(d) => J::obj(vec![("k", s("tlsref")), ("static", s(self.path(*d)))]),
            other => {
                let _ = owner;
                J::obj(vec![("k", s("other")), ("text", s(format!("{:?}", other)))])
            }
        }
    }

    fn terminator(&mut self, body: &Body<'tcx>, owner: DefId, term: &Terminator<'tcx>) -> J {
        let tcx = self.tcx;
        let line = self.line(term.source_info.span);
        let bbj = |b: BasicBlock| J::Int(b.as_usize() as i128);
        match &term.kind {
            TerminatorKind::Goto { target } => J::obj(vec![("k", s("goto")), ("target", bbj(*target))]),
            TerminatorKind::SwitchInt { discr, targets } => {
                let mut ts = Vec::new();
                for (v, t) in targets.iter() {
                    ts.push(J::Arr(vec![J::Int(v as i128), bbj(t)]));
                }
                J::obj(vec![
                    ("k", s("switch")),
                    ("discr", self.operand(body, discr)),
                    ("targets", J::Arr(ts)),
                    ("otherwise", bbj(targets.otherwise())),
                    ("line", line),
                ])
            }
            TerminatorKind::Return => J::obj(vec![("k", s("return"))]),
            TerminatorKind::Unreachable => J::obj(vec![("k", s("unreachable"))]),
            TerminatorKind::UnwindResume | TerminatorKind::UnwindTerminate(_) => J::obj(vec![("k", s("unwind"))]),
            TerminatorKind::Drop { place, target, .. } => J::obj(vec![
                ("k", s("drop")),
                ("place", self.place(body, place)),
                ("target", bbj(*target)),
            ]),
            TerminatorKind::Call { func, args, destination, target, fn_span, .. } => {
                let mut o = vec![("k", s("call")), ("line", self.line(*fn_span))];
                o.push(("func", self.operand(body, func)));
                let fty = func.ty(&body.local_decls, tcx);
                if let TyKind::FnDef(d, gargs) = fty.kind() {
                    o.push(("callee", s(self.path(*d))));
                    o.push(("callee_args", J::Arr(gargs.iter().map(|a| s(format!("{}", a))).collect())));
                    o.push(("callee_local", J::Bool(d.is_local())));
                    // self type of method calls (first generic arg for trait methods)
                    if let Some(tr) = tcx.trait_of_assoc(*d) {
                        o.push(("callee_trait", s(self.path(tr))));
                    }
                    let env = TypingEnv::post_analysis(tcx, owner);
                    match ty::Instance::try_resolve(tcx, env, *d, gargs) {
                        Ok(Some(inst)) => {
                            let rd = inst.def_id();
                            o.push(("resolved", s(self.path(rd))));
                            o.push(("resolved_local", J::Bool(rd.is_local())));
                            let ik = match inst.def {
                                ty::InstanceKind::Item(_) => "item",
                                ty::InstanceKind::Virtual(..) => "virtual",
                                ty::InstanceKind::ClosureOnceShim { .. } => "closure_once_shim",
                                ty::InstanceKind::FnPtrShim(..) => "fnptr_shim",
                                ty::InstanceKind::Intrinsic(_) => "intrinsic",
                                ty::InstanceKind::DropGlue(..) => "drop_glue",
                                ty::InstanceKind::CloneShim(..) => "clone_shim",
                                ty::InstanceKind::ReifyShim(..) => "reify_shim",
                                _ => "other",
                            };
                            o.push(("inst", s(ik)));
                            if let ty::InstanceKind::FnPtrShim(_, fty2) = inst.def {
                                if let TyKind::FnDef(fd, _) = fty2.kind() {
                                    o.push(("shim_target", s(self.path(*fd))));
                                }
                            }
                        }
                        _ => {
                            o.push(("resolved", J::Null));
                        }
                    }
                } else {
                    o.push(("callee", J::Null));
                    o.push(("fnptr_ty", s(self.ty_str(fty))));
                }
                o.push(("args", J::Arr(args.iter().map(|a| self.operand(body, &a.node)).collect())));
                o.push(("dst", self.place(body, destination)));
                let dty = destination.ty(&body.local_decls, tcx).ty;
                o.push(("dst_ty", s(self.ty_str(dty))));
                o.push(("target", match target { Some(t) => bbj(*t), None => J::Null }));
                J::obj(o)
            }
            TerminatorKind::Assert { cond, expected, msg, target, .. } => {
                let mut o = vec![("k", s("assert")), ("line", line)];
                o.push(("cond", self.operand(body, cond)));
                o.push(("expected", J::Bool(*expected)));
                let (mk, ops): (String, Vec<&Operand<'tcx>>) = match &**msg {
                    AssertKind::BoundsCheck { len, index } => ("bounds".into(), vec![len, index]),
                    AssertKind::Overflow(op, a, b) => (format!("overflow:{:?}", op), vec![a, b]),
                    AssertKind::OverflowNeg(a) => ("overflow:Neg".into(), vec![a]),
                    AssertKind::DivisionByZero(a) => ("divzero".into(), vec![a]),
                    AssertKind::RemainderByZero(a) => ("remzero".into(), vec![a]),
                    AssertKind::MisalignedPointerDereference { .. } => ("misaligned".into(), vec![]),
                    AssertKind::NullPointerDereference => ("nullptr".into(), vec![]),
                    other => (format!("other:{:?}", std::mem::discriminant(other)), vec![]),
                };
                o.push(("msg", s(mk)));
                o.push(("ops", J::Arr(ops.into_iter().map(|x| self.operand(body, x)).collect())));
                o.push(("target", bbj(*target)));
                J::obj(o)
            }
            TerminatorKind::FalseEdge { real_target, .. } => J::obj(vec![("k", s("goto")), ("target", bbj(*real_target))]),
            TerminatorKind::FalseUnwind { real_target, .. } => J::obj(vec![("k", s("goto")), ("target", bbj(*real_target))]),
            other => J::obj(vec![("k", s("otherterm")), ("text", s(format!("{:?}", other)))]),
        }
    }
}

extern crate rustc_ast;
