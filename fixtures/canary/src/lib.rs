//! Positive fixtures for the zero-count rules of /verif (E4): every construct that a rule expects NOT to
//! find in pasfmt is present here once, so that each run proves the extractor and the predicate can see it.
//! Nothing here is part of pasfmt; the crate is only type-checked by the fact extractor.
#![allow(dead_code, static_mut_refs, clippy::all)]
use std::cell::RefCell;
use std::io::Write;
use std::sync::Mutex;

pub static mut COUNTER: u32 = 0;
pub static LOCKED: Mutex<u32> = Mutex::new(0);
pub static PLAIN: u32 = 7;
thread_local! {
    static TL: RefCell<u32> = const { RefCell::new(0) };
}

pub trait Stage {
    fn run(&self);
}
pub struct Hidden {
    pub inner: Box<dyn Stage>,
}
pub struct WithCell {
    pub deep: Option<Box<Vec<RefCell<u8>>>>,
}
pub struct Clean {
    pub a: u32,
    pub b: Vec<String>,
}
impl Stage for WithCell {
    fn run(&self) {}
}

pub fn raw(p: *const u8) -> u8 {
    unsafe { *p }
}

pub fn effects(p: &std::path::Path) -> std::io::Result<()> {
    let mut f = std::fs::OpenOptions::new().write(true).open(p)?;
    f.write_all(b"x")?;
    f.set_len(1)?;
    std::fs::write(p, b"y")?;
    std::fs::remove_file(p)
}

/// A partial write (`Write::write` may accept only part of the buffer) and an unlocked handle to stdout.
pub fn short_write(out: &mut impl Write, data: &[u8]) -> std::io::Result<usize> {
    let mut unlocked = std::io::BufWriter::new(std::io::stdout());
    unlocked.write_all(data)?;
    out.write(data)
}

pub fn spin(n: u32) -> u32 {
    let mut k = 0u32;
    loop {
        if n == 7 {
            break;
        }
        k = k.wrapping_mul(1);
    }
    k
}

pub fn counted(v: &[u8]) -> usize {
    let mut it = v.iter();
    let mut n = 0usize;
    while let Some(_) = it.next() {
        n += 1;
    }
    n
}

pub fn idx(v: &[u8], i: usize) -> u8 {
    v[i]
}
pub fn sub(a: u32, b: u32) -> u32 {
    a - b
}
pub fn guarded_sub(a: u32, b: u32) -> u32 {
    if a > b {
        a - b
    } else {
        0
    }
}
pub fn unwrap(o: Option<u8>) -> u8 {
    o.unwrap()
}
pub fn bump() {
    unsafe {
        COUNTER += 1;
    }
    TL.with(|c| *c.borrow_mut() += 1);
    *LOCKED.lock().unwrap() += 1;
}

/// A closure with an effect (it rewrites an element through `set_content`) driven by a short-circuiting adapter: the elements after
/// the first `true` are never visited.  `visit_all` is the clean twin (the adapter visits every element).
pub struct Tok(pub String);
impl Tok {
    pub fn set_content(&mut self, s: String) {
        self.0 = s;
    }
}
fn rewrite(t: &mut Tok) -> bool {
    if t.0.is_empty() {
        return false;
    }
    t.set_content(String::new());
    true
}
pub fn visit_until_first(v: &mut [Tok]) -> bool {
    v.iter_mut().any(|t| rewrite(t))
}
pub fn visit_all(v: &mut [Tok]) -> bool {
    v.iter_mut().fold(false, |c, t| rewrite(t) | c)
}
pub fn pure_any(v: &[Tok]) -> bool {
    v.iter().any(|t| t.0.is_empty())
}
/// The operator form of the same slip (`flag = flag || step(x)`), its clean twin (`|=`), and a fixpoint loop that is not meant.
pub fn visit_or_flag(v: &mut [Tok]) -> bool {
    let mut changed = false;
    for t in v.iter_mut() {
        changed = changed || rewrite(t);
    }
    changed
}
pub fn visit_bitor_flag(v: &mut [Tok]) -> bool {
    let mut changed = false;
    for t in v.iter_mut() {
        changed |= rewrite(t);
    }
    changed
}
pub fn rewrite_until_stable(t: &mut Tok) {
    let mut again = true;
    while again {
        again = rewrite(t);
    }
}

/// Counters that are saturated at their maximum when they are filled in, combined with a plain `+` (overflows when both are at the
/// maximum) and, as the clean twin, with `max` / `saturating_add`.
pub struct Counters {
    pub blanks: u16,
    pub breaks: u16,
}
pub fn gap_plain(c: &Counters) -> u16 {
    c.blanks + c.breaks
}
pub fn gap_saturating(c: &Counters) -> u16 {
    c.blanks.max(c.breaks).saturating_add(c.breaks).min(1)
}

/// A word-at-a-time digit scan with a nibble trick that also accepts `* + , - . /`, and its clean twin that tests both nibbles.
pub fn digits_swar_loose(input: &[u8]) -> usize {
    let mut end = 0;
    while let Some(word) = input.get(end..).and_then(|rest| rest.first_chunk::<8>()) {
        let word = u64::from_ne_bytes(*word);
        if word & 0x8080_8080_8080_8080 != 0 || (word + 0x0606_0606_0606_0606) & 0xF0F0_F0F0_F0F0_F0F0 != 0x3030_3030_3030_3030 {
            break;
        }
        end += 8;
    }
    end + input[end..].iter().take_while(|b| matches!(**b, b'0'..=b'9')).count()
}
pub fn digits_swar_exact(input: &[u8]) -> usize {
    let mut end = 0;
    while let Some(word) = input.get(end..).and_then(|rest| rest.first_chunk::<8>()) {
        let word = u64::from_ne_bytes(*word);
        if word & 0xF0F0_F0F0_F0F0_F0F0 != 0x3030_3030_3030_3030 || (word + 0x0606_0606_0606_0606) & 0xF0F0_F0F0_F0F0_F0F0 != 0x3030_3030_3030_3030 {
            break;
        }
        end += 8;
    }
    end + input[end..].iter().take_while(|b| matches!(**b, b'0'..=b'9')).count()
}
