"""E4 — positive fixtures for zero-count rules.

Several rules pass when they find *nothing* (no mutable static, no interior mutability in a pipeline type, no unsafe code on the
path, no TokenRemover implementation, no file-mutating call outside format_files, no unguarded panic site, no loop without a
progress witness).  A matcher that silently stopped matching would make such a rule pass for ever.  The crate fixtures/canary
contains each of those constructs once; on every run the very predicates used by the rules are evaluated on its facts and must
find them (and must not flag the clean twins next to them).  The fixture is not part of pasfmt and no verdict about pasfmt is
derived from it."""
import extract
from facts import Program, norm

_PROG = None


def prog():
    global _PROG
    if _PROG is None:
        _PROG = Program(extract.extract_canary())
    return _PROG


def statics_and_types(rep, R):
    p = prog()
    st = {norm(s["path"]).split("::")[1]: s for s in p.statics}
    rep.check("COUNTER" in st and st["COUNTER"]["mutable"], R, "fixture:static-mut", "the extractor no longer reports `static mut` as mutable (fixture COUNTER)", instance={"fixture": "static mut COUNTER"})
    rep.check("LOCKED" in st and (st["LOCKED"]["cells"] or not st["LOCKED"]["freeze"]), R, "fixture:static-Mutex", "interior mutability of `static LOCKED: Mutex<u32>` is not detected", instance={"fixture": "static LOCKED: Mutex<u32>"})
    rep.check(any(s["thread_local"] for s in p.statics), R, "fixture:thread_local", "thread_local! statics are not detected", instance={"fixture": "thread_local! TL"})
    rep.check("PLAIN" in st and not (st["PLAIN"]["cells"] or not st["PLAIN"]["freeze"] or st["PLAIN"]["mutable"] or st["PLAIN"]["thread_local"]), R, "fixture:plain-static-clean", "a plain `static PLAIN: u32` is reported as mutable state",
              instance={"fixture": "static PLAIN: u32 (clean twin)"})
    a = p.local_adts
    rep.check(bool(a.get("pasfmt_canary::WithCell", {}).get("cells")), R, "fixture:deep-cell", "the deep interior-mutability walk misses Option<Box<Vec<RefCell<u8>>>>", instance={"fixture": "WithCell.deep"})
    rep.check(a.get("pasfmt_canary::Clean") is not None and not a["pasfmt_canary::Clean"]["cells"], R, "fixture:clean-adt", "a struct of u32 and Vec<String> is reported to contain cells", instance={"fixture": "Clean (clean twin)"})
    rep.check("pasfmt_canary::Stage" in (a.get("pasfmt_canary::Hidden", {}).get("dyn_traits") or []), R, "fixture:dyn-trait", "Box<dyn Stage> inside a struct is not reported as a dyn trait edge", instance={"fixture": "Hidden.inner"})
    uns = {k for k, b in p.bodies.items() if b.j.get("has_unsafe_block") or b.j.get("unsafe_fn")}
    rep.check("pasfmt_canary::raw" in uns and "pasfmt_canary::idx" not in uns, R, "fixture:unsafe", "unsafe blocks are not detected (fixture raw) or safe code is (fixture idx)", instance={"fixture": "raw / idx"})


def trait_impls(rep, R):
    p = prog()
    found = [im for im in p.impls if im.get("trait") and norm(im["trait"]) == "pasfmt_canary::Stage"]
    rep.check(len(found) == 1, R, "fixture:trait-impl", "implementations of a local trait are not found through prog.impls (fixture `impl Stage for WithCell`)", instance={"fixture": "impl Stage for WithCell"})


def file_effects(rep, R):
    import orch
    p = prog()
    whys = {why for c, why in orch.effect_sites(p) if c.body.npath == "pasfmt_canary::effects"}
    need = {"std::fs::OpenOptions::write", "std::fs::File::set_len", "std::fs::write", "std::fs::remove_file"}
    rep.check(need <= whys and any("write_all" in w for w in whys), R, "fixture:file-effects", "effect_sites misses file-mutating calls of the fixture: found %s" % sorted(whys), instance={"fixture": "effects()", "found": sorted(whys)})


def output_discipline(rep, R):
    import orch
    p = prog()
    pw = [c for c in orch.partial_writes(p, crates=("pasfmt_canary",))]
    rep.check(len(pw) == 1, R, "fixture:partial-write", "partial_writes misses the `Write::write` call of the fixture (found %d)" % len(pw), instance={"fixture": "short_write()"})
    ul = [c for c in orch.unlocked_stdout_handles(p, crates=("pasfmt_canary",))]
    rep.check(len(ul) == 1, R, "fixture:unlocked-stdout", "unlocked_stdout_handles misses the `BufWriter::new(stdout())` of the fixture (found %d)" % len(ul), instance={"fixture": "short_write()"})


def panic_and_progress(rep, R_panic, R_loop):
    import panic
    from progress import Progress
    p = prog()
    sites = panic.enumerate_sites(p)
    by = {}
    for s in sites:
        by.setdefault(s.body.npath.split("::")[-1], []).append(s)
    rep.check({"idx", "sub", "unwrap", "guarded_sub"} <= set(by), R_panic, "fixture:panic-sites", "panic-site enumeration misses index / subtraction / unwrap sites of the fixture: found in %s" % sorted(by),
              instance={"fixture": "idx, sub, unwrap, guarded_sub", "sites": len(sites)})
    ok_g = all(panic.guard_sub(p, s) for s in by.get("guarded_sub", []) if s.kind == "sub") and bool([s for s in by.get("guarded_sub", []) if s.kind == "sub"])
    bad_u = [s for s in by.get("sub", []) if s.kind == "sub" and panic.guard_sub(p, s)]
    rep.check(ok_g and not bad_u, R_panic, "fixture:sub-guard", "the subtraction guard accepts an unguarded `a - b` or rejects `if a > b { a - b }` (fixture)", instance={"fixture": "sub / guarded_sub"})
    pg = Progress(p, {"src/lib.rs"})
    res = {}
    for name in ("spin", "counted"):
        b = p.body("pasfmt_canary::" + name)
        loops = b.loops() if b is not None else {}
        out = []
        for h, L in loops.items():
            cyc, _ = pg.check_loop(b, h, L, frozenset())
            out.append(cyc is None)
        res[name] = out
    rep.check(res.get("spin") == [False] and res.get("counted") == [True], R_loop, "fixture:loop-progress",
              "the loop-progress rule does not separate `loop { if n == 7 { break } }` (no witness) from `while let Some(_) = it.next()` (witness): %s" % res, instance={"fixture": "spin / counted", "witnessed": res})


def counter_arith(rep, R):
    import panic
    p = prog()
    sites = panic.unsaturated_counter_arith(p, "pasfmt_canary::Counters", ("blanks", "breaks"), crates=("pasfmt_canary",))
    where = sorted({b.npath.split("::")[-1] for b, _, _, _ in sites})
    rep.check(where == ["gap_plain"], R, "fixture:counter-plus-counter", "the counter-arithmetic rule misses `c.blanks + c.breaks` of the fixture or flags its saturating twin: %s" % where,
              instance={"fixture": "gap_plain / gap_saturating", "flagged": where})


def short_circuit(rep, R):
    import layout
    p = prog()
    sites, n = layout.effectful_short_circuits(p, crates=("pasfmt_canary",), effects=("pasfmt_canary::Tok::set_content",), field_writes=())
    where = sorted({c.body.npath.split("::")[-1] for c, _ in sites})
    rep.check(where == ["visit_until_first"] and n >= 2, R, "fixture:effect-behind-any", "the short-circuit rule misses `iter_mut().any(|t| rewrite(t))` of the fixture or flags its clean twins: %s" % where,
              instance={"fixture": "visit_until_first / visit_all / pure_any", "flagged": where})
    sk, m = layout.effects_skipped_by_own_flag(p, crates=("pasfmt_canary",), effects=("pasfmt_canary::Tok::set_content",), field_writes=())
    where = sorted({c.body.npath.split("::")[-1] for c, _ in sk})
    rep.check(where == ["visit_or_flag"] and m >= 3, R, "fixture:effect-behind-or", "the short-circuit rule misses `changed = changed || rewrite(t)` of the fixture or flags its clean twins (`|=`, a fixpoint loop): %s (%d sites)" % (where, m),
              instance={"fixture": "visit_or_flag / visit_bitor_flag / rewrite_until_stable", "flagged": where})


def swar(rep, R):
    import lexer_rules
    found = {b.npath.split("::")[-1]: (bad, err) for b, bad, err in lexer_rules.swar_scanners(prog(), "pasfmt_canary::")}
    loose, exact = found.get("digits_swar_loose"), found.get("digits_swar_exact")
    ok = loose is not None and exact is not None and loose[1] is None and exact[1] is None and loose[0] == [0x2A, 0x2B, 0x2C, 0x2D, 0x2E, 0x2F] and exact[0] == []
    rep.check(ok, R, "fixture:word-at-a-time-digit-scan", "the word-at-a-time rule does not find the loose nibble trick of the fixture (or flags the exact one): %s" % {k: v for k, v in found.items()},
              instance={"fixture": "digits_swar_loose / digits_swar_exact", "loose_accepts_also": [chr(v) for v in (loose[0] if loose else [])]})


CANARIES = {
    "C01": lambda rep: trait_impls(rep, "C01.c"),
    "C04": lambda rep: (panic_and_progress(rep, "C04.b", "C04.a"), counter_arith(rep, "C04.g")),
    "C09": lambda rep: short_circuit(rep, "C09.j"),
    "C15": lambda rep: statics_and_types(rep, "C15.c"),
    "C16": lambda rep: (file_effects(rep, "C16.a"), output_discipline(rep, "C16.i")),
    "C18": lambda rep: statics_and_types(rep, "C18.a"),
}


def run(prop, rep):
    fn = CANARIES.get(prop)
    if fn is None:
        return
    try:
        fn(rep)
    except extract.ExtractError as e:
        rep.fail(prop + ".infra", "fixture-extraction", "the positive-fixture crate could not be analysed: %s" % str(e)[-800:])
