"""C04.a — loop progress analysis.

Vocabulary
  cursor store     a store to InternalDelphiLogicalLineParser.pass_index
  MA(body | S)     'must advance': every entry->return path of body passes an *advance block*
                   (cursor store, call to an MA body, call of a callable in the assumption set S,
                   call to a higher-order body whose requirements are met at this site)
  callable ref     ('param', i) / ('upvar', k): a value of generic Fn type that the body calls
  witness          a block on a cycle that makes progress (P1 advance block, P2/P5 consuming call
                   on an iterator/collection created outside the loop, P3 store to a loop-carried
                   local / &mut scalar an exit condition depends on, P4 context pop)
The check per natural loop (header h, blocks L): after deleting witness blocks from L there must be
no path h ->+ h inside L.
"""
from collections import defaultdict
from itertools import combinations

from facts import norm, Origins, _rv_operands, _term_operands, place_str

LLP = "pasfmt_core::defaults::parser::InternalDelphiLogicalLineParser"
CURSOR_FIELD = (LLP, "pass_index")
FN_CALLS = {"core::ops::function::Fn::call", "core::ops::function::FnMut::call_mut", "core::ops::function::FnOnce::call_once"}
OPRESULT = "pasfmt_core::defaults::parser::OpResult"
GUARD_TOKEN = LLP + "::get_current_token_type"
GUARD_CTX = "pasfmt_core::defaults::parser::ParserContexts::get_ending_context_idx"

CONSUMING = {
    "core::iter::traits::iterator::Iterator::next",
    "core::iter::traits::double_ended::DoubleEndedIterator::next_back",
    "alloc::vec::Vec::pop",
    "alloc::collections::binary_heap::BinaryHeap::pop",
    "alloc::collections::vec_deque::VecDeque::pop_front",
    "alloc::collections::vec_deque::VecDeque::pop_back",
    "core::iter::adapters::peekable::Peekable::next_if",
    "core::iter::traits::iterator::Iterator::nth",
}


def block_has_cursor_store(body, bb):
    for s in body.blocks[bb]["stmts"]:
        if s["k"] == "assign":
            for pe in s["dst"]["p"]:
                if pe["k"] == "field" and pe.get("name") == CURSOR_FIELD[1] and norm(pe.get("adt", "")) == CURSOR_FIELD[0]:
                    return True
    return False


class Progress:
    def __init__(self, prog, scope_files):
        self.prog = prog
        self.scope_files = set(scope_files)
        self.bodies = {k: b for k, b in prog.bodies.items() if b.crate in ("pasfmt_core.lib", "pasfmt_canary.lib")}
        self.orig = {}
        self.callrefs = {}        # body -> {bb: ref} for Fn::call on own param/upvar
        self.ma = {}              # body -> list of frozenset(assumptions) (minimal); [] = not MA
        self._memo = {}
        self.ma_ready = True
        self._adv_cache = {}
        self._compute_callrefs()
        self._fixpoint()

    # ------------------------------------------------------------------ helpers
    def origins(self, body):
        o = self.orig.get(body.npath)
        if o is None:
            o = self.orig[body.npath] = Origins(body)
        return o

    def _ref_of_operand(self, body, op):
        """If the operand denotes one of the body's own callable params / upvars, return the ref."""
        if op["k"] not in ("copy", "move"):
            return None
        og = self.origins(body).of_operand(op)
        refs = set()
        for o in og:
            if o[0] == "param":
                refs.add(("param", o[1]))
            elif o[0] == "upvar":
                refs.add(("upvar", o[1]))
            else:
                return None
        if len(refs) == 1:
            return next(iter(refs))
        return None

    def _compute_callrefs(self):
        """Fn::call sites on the body's own generic callables.  Only callables that receive a `&mut`
        argument can advance the cursor (predicates take `&LLP`)."""
        for k, b in self.bodies.items():
            m = {}
            for c in b.calls():
                if c.callee in FN_CALLS and c.t.get("resolved") is None:
                    r = self._ref_of_operand(b, c.args[0])
                    if r is None or len(c.args) < 2:
                        continue
                    a1 = c.args[1]
                    ty = b.locals[a1["place"]["l"]]["ty"] if a1["k"] in ("copy", "move") else ""
                    if "&mut " in ty:
                        m[c.bb] = r
            self.callrefs[k] = m

    def bind(self, body, op):
        """What callable does this argument operand denote in `body`?
        ('body', name) | ('ref', ref) | None"""
        if op["k"] == "const":
            if "fn" in op:
                return ("body", norm(op["fn"]))
            if "closure" in op:
                return ("body", norm(op["closure"]))
            return None
        if op["k"] in ("copy", "move"):
            l = op["place"]["l"]
            lc = body.locals[l]
            if not op["place"]["p"]:
                if "closure" in lc:
                    return ("body", norm(lc["closure"]))
                if "fndef" in lc:
                    return ("body", norm(lc["fndef"]))
            r = self._ref_of_operand(body, op)
            if r is not None:
                return ("ref", r)
            # through references: `&closure_local`
            og = self.origins(body).of_operand(op)
            for o in og:
                if o[0] == "agg" and o[3].startswith("closure:"):
                    return ("body", o[3][len("closure:"):])
        return None

    def closure_upvar_operand(self, parent, closure_name, k):
        """Operand bound to upvar k where `closure_name` is constructed in `parent`."""
        for _, _, s in parent.stmts():
            if s["k"] == "assign" and s["rv"]["k"] == "aggregate" and s["rv"].get("agg") == "closure" \
                    and norm(s["rv"]["closure"]) == closure_name:
                ops = s["rv"]["ops"]
                if k < len(ops):
                    return ops[k]
        return None

    def satisfied(self, body, S, op, depth=0):
        """Is the callable denoted by operand `op` (in `body`) must-advance, given assumption set S
        on body's own refs?"""
        if depth > 6:
            return False
        b = self.bind(body, op)
        if b is None:
            return False
        if b[0] == "ref":
            return b[1] in S
        name = b[1]
        conds = self.ma.get(name, [])
        for Q in conds:
            if not Q:
                return True
            cb = self.bodies.get(name)
            if cb is None or cb.kind != "Closure" or cb.parent != body.npath:
                continue
            good = True
            for q in Q:
                if q[0] != "upvar":
                    good = False
                    break
                uop = self.closure_upvar_operand(body, name, q[1])
                if uop is None or not self.satisfied(body, S, uop, depth + 1):
                    good = False
                    break
            if good:
                return True
        return False

    def site_advances(self, body, site, S, guarded=True):
        """Does this call site advance the cursor on every return, given assumptions S?"""
        bb = site.bb
        ref = self.callrefs[body.npath].get(bb)
        if ref is not None:
            return ref in S
        targets = self.prog.callees_of_site(site)
        targets = {t for t in targets if t in self.bodies}
        if not targets:
            # call of a concrete local closure through Fn::call resolves to the closure body (handled above
            # through `resolved`); anything else is an external function: no cursor access
            return False
        for t in targets:
            if not self._callee_advances(body, site, t, S) and not (guarded and self._guarded_advance(body, site, t)):
                return False
        return True

    def _guarded_advance(self, body, site, t):
        """P1g: the callee advances on every path that is feasible given the parser guards established
        at the call site (current token = Some / no ending context), which the callee re-evaluates
        before any mutation (guard idempotence)."""
        tb = self.bodies[t]
        if tb.kind == "Closure" or not self.ma_ready:
            return False
        facts = self.site_guard_facts(body, site.bb)
        if not facts:
            return False
        adv = self.advance_blocks(tb, frozenset(), guarded=False)
        return guarded_nonadvancing_path(self.prog, tb, adv, facts) is None

    def site_guard_facts(self, body, bb):
        key = ("gf", body.npath, bb)
        if key in self._memo:
            return self._memo[key]
        gf = guard_facts_at(self.prog, body, bb)
        facts = {}
        if gf.get("token") == "Some":
            facts[GUARD_TOKEN] = "Some"
        if gf.get("ctx") == "None":
            facts[GUARD_CTX] = "None"
        if facts:
            # no impure call on any path from the guard call to the site
            for c in body.calls():
                if c.target in facts and body.dominates(c.bb, bb):
                    mid = body.reach_from(c.bb) & body.reach_to(bb)
                    for x in mid:
                        tx = body.blocks[x]["term"]
                        if x not in (c.bb, bb) and tx["k"] == "call" and is_impure_call(body, tx) \
                                and body.can_reach_avoiding(c.bb, {x}, {bb}) and body.can_reach_avoiding(x, {bb}, {c.bb}):
                            facts.pop(c.target, None)
                            break
        self._memo[key] = facts
        return facts

    def _callee_advances(self, body, site, t, S):
        conds = self.ma.get(t, [])
        tb = self.bodies[t]
        for Q in conds:
            if not Q:
                return True
            ok = True
            for q in Q:
                if q[0] == "param":
                    idx = q[1] - 1
                    # closures called through Fn::call receive (closure, (args,)): not a direct call with params
                    if idx >= len(site.args) or not self.satisfied(body, S, site.args[idx]):
                        ok = False
                        break
                elif q[0] == "upvar":
                    # t is a closure with upvar assumptions, called directly in its parent
                    if tb.kind == "Closure" and tb.parent == body.npath:
                        uop = self.closure_upvar_operand(body, t, q[1])
                        if uop is None or not self.satisfied(body, S, uop):
                            ok = False
                            break
                    else:
                        ok = False
                        break
            if ok:
                return True
        return False

    def advance_blocks(self, body, S, guarded=True):
        key = (body.npath, S, guarded)
        hit = self._adv_cache.get(key)
        if hit is not None:
            return hit
        adv = set()
        for bb in body.reachable():
            if block_has_cursor_store(body, bb):
                adv.add(bb)
        for c in body.calls():
            if self.site_advances(body, c, S, guarded):
                adv.add(c.bb)
        self._adv_cache[key] = adv
        return adv

    def conditioned_variants(self, body):
        """Bodies returning OpResult are judged on the paths that return Continue."""
        ty = body.locals[0]["ty"]
        if norm(ty) == OPRESULT or ty.endswith("::OpResult"):
            return {"Continue"}
        return None

    def nonadvancing_path(self, body, S):
        """Return a block path entry->return that passes no advance block (None if body is MA | S)."""
        adv = self.advance_blocks(body, S)
        variants = self.conditioned_variants(body)
        rets = set(body.return_blocks())
        if 0 in adv:
            return None
        if variants is None:
            return bfs_path(body, 0, rets, adv)
        # variant conditioned: find blocks assigning _0 := one of `variants` (or non-constant)
        assigns = []
        for bb, i, s in body.stmts():
            if s["k"] == "assign" and s["dst"]["l"] == 0 and not s["dst"]["p"]:
                rv = s["rv"]
                if rv["k"] == "aggregate" and rv.get("agg") == "adt":
                    if rv["variant"] in variants:
                        assigns.append(bb)
                else:
                    assigns.append(bb)
        for c in body.calls():
            if c.t["dst"]["l"] == 0:
                assigns.append(c.bb)
        for a in assigns:
            if a in adv:
                continue
            p1 = bfs_path(body, 0, {a}, adv)
            if p1 is None:
                continue
            p2 = bfs_path(body, a, rets, adv)
            if p2 is None:
                continue
            return p1 + p2[1:]
        return None

    def _fixpoint(self):
        for k in self.bodies:
            self.ma[k] = []
        changed = True
        rounds = 0
        while changed:
            changed = False
            rounds += 1
            self._adv_cache = {}
            for k, b in self.bodies.items():
                if self.ma[k] and frozenset() in self.ma[k]:
                    continue
                refs = sorted(set(self.callrefs[k].values()))
                found = []
                for n in range(0, min(len(refs), 3) + 1):
                    for comb in combinations(refs, n):
                        S = frozenset(comb)
                        if any(q <= S for q in found):
                            continue
                        if self.nonadvancing_path(b, S) is None:
                            found.append(S)
                    if found and n == 0:
                        break
                if found != self.ma[k]:
                    self.ma[k] = found
                    changed = True
        self.rounds = rounds
        self._adv_cache = {}

    def is_ma(self, name):
        return frozenset() in self.ma.get(name, [])

    # ------------------------------------------------------------------ loops
    def loop_witnesses(self, body, h, L, S):
        """(witness_blocks, info) for the natural loop (h, L) under assumptions S."""
        W = {}
        adv = self.advance_blocks(body, S)
        for b in L:
            if b in adv:
                W[b] = "P1 advance"
        og = self.origins(body)
        # exit conditions
        exits = []
        for b in L:
            t = body.blocks[b]["term"]
            if any(s not in L for s in body.succ[b]):
                exits.append(b)
        dep_locals = set()
        for b in exits:
            t = body.blocks[b]["term"]
            for op in _term_operands(t):
                if op["k"] in ("copy", "move"):
                    dep_locals |= self.dep_closure(body, op["place"]["l"])
        # P2/P5 consuming calls on something created outside the loop (directly or through a local
        # body that must-consume its parameter)
        for b in L:
            t = body.blocks[b]["term"]
            if t["k"] != "call":
                continue
            for ai in self.consumed_args(body, t):
                recv = t["args"][ai]
                if recv["k"] in ("copy", "move"):
                    roots = self.root_locals(body, recv["place"]["l"])
                    if roots and all(self.defined_outside(body, r, L) for r in roots):
                        if t["dst"]["l"] in dep_locals:
                            W.setdefault(b, "P2 consuming call %s" % norm(t.get("resolved") or t.get("callee")).split("::")[-1])
        # P3 stores to loop-carried state the exit depends on
        for b in L:
            for s in body.blocks[b]["stmts"]:
                if s["k"] != "assign":
                    continue
                dst = s["dst"]
                l = dst["l"]
                if dst["p"]:
                    # store through a &mut scalar parameter: (*param) = ..
                    if len(dst["p"]) == 1 and dst["p"][0]["k"] == "deref" and 1 <= l <= body.arg_count \
                            and body.locals[l]["ty"].startswith("&mut ") and body.locals[l]["ty"][5:] in SCALARS:
                        W.setdefault(b, "P3 store through &mut %s" % body.local_name(l))
                    # store to a scalar field of a by-value struct local: args.offset = ..
                    elif all(pe["k"] == "field" for pe in dst["p"]) and dst["p"][-1].get("ty") in SCALARS \
                            and l in dep_locals and (1 <= l <= body.arg_count or self.defined_outside_any(body, l, L)):
                        W.setdefault(b, "P3 store to %s" % place_str(body, dst))
                    continue
                if l in dep_locals and self.loop_carried(body, l, L, h) and not self.is_self_copy(s):
                    W.setdefault(b, "P3 store to loop-carried %s" % body.local_name(l))
            t = body.blocks[b]["term"]
            if t["k"] == "call":
                if not t["dst"]["p"]:
                    l = t["dst"]["l"]
                    if l in dep_locals and self.loop_carried(body, l, L, h):
                        W.setdefault(b, "P3 call result stored to loop-carried %s" % body.local_name(l))
                # call that must-store through a `&mut scalar` argument pointing at loop-carried state
                variants = self.continuing_variants(body, b, h, L)
                for ai, a in enumerate(t["args"]):
                    if a["k"] not in ("copy", "move"):
                        continue
                    al = a["place"]["l"]
                    if not body.locals[al]["ty"].startswith("&mut ") or body.locals[al]["ty"][5:] not in SCALARS:
                        continue
                    roots = self.root_locals(body, al)
                    if not roots or not all(r in dep_locals and (self.defined_outside_any(body, r, L) or 1 <= r <= body.arg_count) for r in roots):
                        continue
                    tg = norm(t.get("resolved") or t.get("callee"))
                    if tg in self.bodies and self.must_store(tg, ai + 1, variants):
                        W.setdefault(b, "P3 %s must-stores through &mut %s%s" % (
                            tg.split("::")[-1], "/".join(body.local_name(r) for r in roots),
                            (" when returning " + "/".join(sorted(variants))) if variants else ""))
        return W

    def defined_outside_any(self, body, l, L):
        defs = [d for d in body.defs.get(l, []) if d[0] in ("assign", "call")]
        return any(d[1] not in L for d in defs) or (1 <= l <= body.arg_count)

    def continuing_variants(self, body, cb, h, L):
        """For a call block cb inside loop (h, L) whose result is an enum that is switched on inside the
        loop: the variant names for which control can come back to the header.  None = unconditioned."""
        t = body.blocks[cb]["term"]
        r = t["dst"]["l"]
        if t["dst"]["p"]:
            return None
        for b in L:
            for s in body.blocks[b]["stmts"]:
                if s["k"] == "assign" and s["rv"]["k"] == "discr" and s["rv"]["place"]["l"] == r and not s["rv"]["place"]["p"]:
                    d = s["dst"]["l"]
                    tt = body.blocks[b]["term"]
                    if tt["k"] == "switch" and tt["discr"]["k"] in ("copy", "move") and tt["discr"]["place"]["l"] == d:
                        adt = norm(s["rv"].get("adt", ""))
                        info = self.prog.adts.get(adt)
                        if not info:
                            return None
                        cont = set()
                        seen_vals = set()
                        for v, tgt in tt["targets"]:
                            seen_vals.add(v)
                            if tgt in L and (tgt == h or body.can_reach_avoiding(tgt, {h}, set(range(len(body.blocks))) - L)):
                                cont.add(self.prog.variant_of(adt, v))
                        ot = tt["otherwise"]
                        if ot in L and (ot == h or body.can_reach_avoiding(ot, {h}, set(range(len(body.blocks))) - L)):
                            for vv in info["variants"]:
                                if vv["discr"] not in seen_vals:
                                    cont.add(vv["name"])
                        if len(cont) < len(info["variants"]):
                            return frozenset(cont)
                        return None
        return None

    def consumed_args(self, body, t):
        """argument positions of call terminator t that are consumed (Iterator::next-like) on every return"""
        cal = norm(t.get("callee"))
        if cal in CONSUMING and t["args"]:
            return [0]
        tg = norm(t.get("resolved") or t.get("callee"))
        out = []
        if tg in self.bodies:
            for ai in range(len(t["args"])):
                if self.must_consume(tg, ai + 1):
                    out.append(ai)
        return out

    def must_consume(self, name, param, stack=()):
        key = ("mc", name, param)
        if key in self._memo:
            return self._memo[key]
        if key in stack or len(stack) > 8:
            return False
        b = self.bodies[name]
        if param > b.arg_count or not b.locals[param]["ty"].startswith("&mut "):
            self._memo[key] = False
            return False
        wit = set()
        for c in b.calls():
            t = c.t
            cal = norm(t.get("callee"))
            cand = []
            if cal in CONSUMING and t["args"]:
                cand = [0]
            else:
                tg = norm(t.get("resolved") or t.get("callee"))
                if tg in self.bodies and tg != name:
                    cand = [ai for ai in range(len(t["args"])) if self.must_consume(tg, ai + 1, stack + (key,))]
            for ai in cand:
                a = t["args"][ai]
                if a["k"] in ("copy", "move") and self.root_locals(b, a["place"]["l"]) == {param}:
                    wit.add(c.bb)
        res = 0 in wit or bfs_path(b, 0, set(b.return_blocks()), wit) is None
        self._memo[key] = res
        return res

    def must_store(self, name, param, variants, stack=()):
        """every entry->return path of `name` (returning one of `variants`, if given) stores through
        its `&mut scalar` parameter `param`."""
        key = ("ms", name, param, variants)
        if key in self._memo:
            return self._memo[key]
        if key in stack or len(stack) > 8:
            return False
        b = self.bodies[name]
        if param > b.arg_count or not b.locals[param]["ty"].startswith("&mut "):
            self._memo[key] = False
            return False
        wit = set()
        for bb, i, s in b.stmts():
            if s["k"] == "assign" and s["dst"]["l"] == param and len(s["dst"]["p"]) == 1 and s["dst"]["p"][0]["k"] == "deref":
                wit.add(bb)
        for c in b.calls():
            tg = norm(c.t.get("resolved") or c.t.get("callee"))
            if tg in self.bodies and tg != name:
                for ai, a in enumerate(c.args):
                    if a["k"] in ("copy", "move") and self.root_locals(b, a["place"]["l"]) == {param} \
                            and self.must_store(tg, ai + 1, None, stack + (key,)):
                        wit.add(c.bb)
        rets = set(b.return_blocks())
        if 0 in wit:
            res = True
        elif not variants:
            res = bfs_path(b, 0, rets, wit) is None
        else:
            res = True
            for a in self.return_assign_blocks(b, variants):
                if a in wit:
                    continue
                if bfs_path(b, 0, {a}, wit) is not None and bfs_path(b, a, rets, wit) is not None:
                    res = False
                    break
        self._memo[key] = res
        return res

    def return_assign_blocks(self, body, variants):
        out = []
        for bb, i, s in body.stmts():
            if s["k"] == "assign" and s["dst"]["l"] == 0 and not s["dst"]["p"]:
                rv = s["rv"]
                if rv["k"] == "aggregate" and rv.get("agg") == "adt":
                    if rv["variant"] in variants:
                        out.append(bb)
                else:
                    out.append(bb)
        for c in body.calls():
            if c.t["dst"]["l"] == 0:
                out.append(c.bb)
        return out

    def is_self_copy(self, s):
        rv = s["rv"]
        return rv["k"] == "use" and rv["op"]["k"] in ("copy", "move") and rv["op"]["place"]["l"] == s["dst"]["l"] and not rv["op"]["place"]["p"]

    def dep_closure(self, body, l, seen=None):
        """Locals the value of `l` may depend on (through all rvalue operands and call arguments)."""
        if seen is None:
            seen = set()
        if l in seen:
            return seen
        seen.add(l)
        for d in body.defs.get(l, []):
            if d[0] in ("assign", "partial"):
                s = d[3]
                if s["k"] != "assign":
                    continue
                rv = s["rv"]
                for op in _rv_operands(rv):
                    if op["k"] in ("copy", "move"):
                        self.dep_closure(body, op["place"]["l"], seen)
                        for pe in op["place"]["p"]:
                            if pe["k"] == "index":
                                self.dep_closure(body, pe["local"], seen)
                if rv["k"] in ("ref", "rawptr", "discr"):
                    self.dep_closure(body, rv["place"]["l"], seen)
                    for pe in rv["place"]["p"]:
                        if pe["k"] == "index":
                            self.dep_closure(body, pe["local"], seen)
            else:
                t = d[2]
                for op in t["args"]:
                    if op["k"] in ("copy", "move"):
                        self.dep_closure(body, op["place"]["l"], seen)
        return seen

    def root_locals(self, body, l, seen=None):
        """Follow refs/copies back to the storage local(s)."""
        if seen is None:
            seen = set()
        if l in seen:
            return set()
        seen.add(l)
        if 1 <= l <= body.arg_count:
            return {l}
        roots = set()
        defs = body.defs.get(l, [])
        followed = False
        for d in defs:
            if d[0] == "assign" and d[3]["k"] == "assign":
                rv = d[3]["rv"]
                if rv["k"] in ("ref", "rawptr"):
                    roots |= self.root_locals(body, rv["place"]["l"], seen) if not rv["place"]["p"] or True else set()
                    followed = True
                elif rv["k"] == "use" and rv["op"]["k"] in ("copy", "move"):
                    roots |= self.root_locals(body, rv["op"]["place"]["l"], seen)
                    followed = True
                else:
                    roots.add(l)
            elif d[0] == "call" and norm(d[2].get("callee")) in ROOT_IDENTITY and d[2]["args"] \
                    and d[2]["args"][0]["k"] in ("copy", "move"):
                roots |= self.root_locals(body, d[2]["args"][0]["place"]["l"], seen)
            else:
                roots.add(l)
        if not defs:
            roots.add(l)
        return roots

    def defined_outside(self, body, l, L):
        if 1 <= l <= body.arg_count:
            return True
        if body.kind == "Closure" and l == 1:
            return True
        defs = body.defs.get(l, [])
        full = [d for d in defs if d[0] in ("assign", "call")]
        return bool(full) and all(d[1] not in L for d in full)

    def loop_carried(self, body, l, L, h=None):
        """l is defined inside L and its value from before the loop / a previous iteration is read
        inside L (upward-exposed use from the header)."""
        defs = [d for d in body.defs.get(l, []) if d[0] in ("assign", "call")]
        inside = any(d[1] in L for d in defs)
        outside = any(d[1] not in L for d in defs) or (1 <= l <= body.arg_count)
        if not (inside and outside):
            return False
        if h is None:
            return True
        # upward exposed use
        seen = set()
        st = [h]
        while st:
            b = st.pop()
            if b in seen:
                continue
            seen.add(b)
            r = self._block_use_def(body, b, l)
            if r == "use":
                return True
            if r == "def":
                continue
            for s in body.succ[b]:
                if s in L and s not in seen:
                    st.append(s)
        return False

    def _block_use_def(self, body, b, l):
        """'use' if l is read in block b before any full definition, 'def' if fully defined first, None otherwise."""
        def reads(op):
            if op["k"] in ("copy", "move"):
                if op["place"]["l"] == l:
                    return True
                return any(pe["k"] == "index" and pe["local"] == l for pe in op["place"]["p"])
            return False
        for s in body.blocks[b]["stmts"]:
            if s["k"] != "assign":
                continue
            rv = s["rv"]
            if any(reads(o) for o in _rv_operands(rv)):
                return "use"
            if rv["k"] in ("ref", "rawptr", "discr") and rv["place"]["l"] == l:
                return "use"
            if s["dst"]["l"] == l:
                if s["dst"]["p"]:
                    return "use"
                return "def"
        t = body.blocks[b]["term"]
        if any(reads(o) for o in _term_operands(t)):
            return "use"
        if t["k"] == "call" and t["dst"]["l"] == l and not t["dst"]["p"]:
            return "def"
        return None

    def feeds(self, body, l, dep_locals):
        return l in dep_locals

    def check_loop(self, body, h, L, S):
        """None if every cycle through h has a witness; else an offending cycle (list of blocks)."""
        W = self.loop_witnesses(body, h, L, S)
        if h in W:
            return None, W
        # path h -> ... -> h within L avoiding W
        cyc = bfs_cycle(body, h, L, set(W))
        return cyc, W

    def loop_requirements(self, body):
        """Minimal assumption set under which all loops of the body are witnessed (None if impossible)."""
        refs = sorted(set(self.callrefs[body.npath].values()))
        loops = body.loops()
        if not loops:
            return frozenset(), {}
        best = None
        for n in range(0, min(len(refs), 3) + 1):
            for comb in combinations(refs, n):
                S = frozenset(comb)
                bad = {}
                for h, L in loops.items():
                    cyc, W = self.check_loop(body, h, L, S)
                    if cyc is not None:
                        bad[h] = (cyc, W)
                if not bad:
                    return S, {}
                if best is None or len(bad) < len(best[1]):
                    best = (S, bad)
        return None, best[1]


ROOT_IDENTITY = {
    "core::iter::traits::collect::IntoIterator::into_iter",
    "core::ops::deref::DerefMut::deref_mut",
    "core::ops::deref::Deref::deref",
}

SCALARS = {"usize", "u8", "u16", "u32", "u64", "isize", "i8", "i16", "i32", "i64", "bool", "char"}


def bfs_path(body, start, goals, avoid):
    """Shortest block path start ->* goal avoiding `avoid` (start not tested; goals tested before avoid)."""
    goals = set(goals)
    if start in goals:
        return [start]
    prev = {start: None}
    q = [start]
    while q:
        nq = []
        for b in q:
            for s in body.succ[b]:
                if s in prev:
                    continue
                if s in avoid:
                    continue
                prev[s] = b
                if s in goals:
                    path = [s]
                    while prev[path[-1]] is not None:
                        path.append(prev[path[-1]])
                    return path[::-1]
                nq.append(s)
        q = nq
    return None


def bfs_cycle(body, h, L, avoid):
    prev = {}
    q = [h]
    seen = set()
    while q:
        nq = []
        for b in q:
            for s in body.succ[b]:
                if s not in L or s in avoid:
                    continue
                if s == h:
                    path = [b]
                    while path[-1] != h:
                        path.append(prev[path[-1]])
                    return path[::-1] + [h]
                if s in seen:
                    continue
                seen.add(s)
                prev[s] = b
                nq.append(s)
        q = nq
    return None


def describe_path(body, path):
    """Human readable trail: the calls and line numbers along a block path."""
    out = []
    lines = []
    for b in path:
        t = body.blocks[b]["term"]
        if t["k"] == "call":
            nm = norm(t.get("resolved") or t.get("callee") or "<fnptr>")
            out.append(nm.split("::")[-1] if "{closure" not in nm else "::".join(nm.split("::")[-2:]))
            lines.append(abs(t.get("line", 0)))
        elif t["k"] in ("switch", "assert"):
            lines.append(abs(t.get("line", 0)))
    return out, [l for l in lines if l]


def is_impure_call(body, t):
    """A call that receives any `&mut` argument (could change parser state)."""
    for a in t["args"]:
        if a["k"] in ("copy", "move"):
            ty = body.locals[a["place"]["l"]]["ty"]
            if ty.startswith("&mut ") or "&mut " in ty:
                return True
    return False


def discr_source(body, bb):
    """canonical name of the place whose discriminant the switch ending block bb tests (None if it is not a discriminant switch)"""
    from table import canon_place
    t = body.blocks[bb]["term"]
    if t["k"] != "switch" or t["discr"]["k"] not in ("copy", "move"):
        return None
    d = t["discr"]["place"]["l"]
    for st in body.blocks[bb]["stmts"]:
        if st["k"] == "assign" and st["dst"]["l"] == d and not st["dst"]["p"] and st["rv"]["k"] == "discr":
            return canon_place(body, st["rv"]["place"], {})
    return None


def variant_arms(prog, body):
    """[(switch block, canonical name of the tested place, {variant name: target block}, otherwise target)] for every discriminant switch"""
    from table import canon_place
    out = []
    for s in sorted(body.reachable()):
        t = body.blocks[s]["term"]
        if t["k"] != "switch" or t["discr"]["k"] not in ("copy", "move"):
            continue
        d = t["discr"]["place"]["l"]
        drv = None
        for st in body.blocks[s]["stmts"]:
            if st["k"] == "assign" and st["dst"]["l"] == d and not st["dst"]["p"] and st["rv"]["k"] == "discr":
                drv = st["rv"]
        if drv is None:
            continue
        adt = norm(drv.get("adt", ""))
        arms = {prog.variant_of(adt, v): tgt for v, tgt in t["targets"]}
        info = prog.adts.get(adt)
        rest = [x["name"] for x in info["variants"] if x["name"] not in arms] if info else []
        if len(rest) == 1:
            arms[rest[0]] = t["otherwise"]
        out.append((s, canon_place(body, drv["place"], {}), arms, t["otherwise"]))
    return out


def dominating_variant_facts(prog, body, bb):
    """[(canonical place, 'is'|'not', variants)] established by discriminant-switch edges dominating bb."""
    from table import canon_place
    facts = []
    for s in sorted(body.dom.get(bb, ())):
        if s == bb:
            continue
        t = body.blocks[s]["term"]
        if t["k"] != "switch" or t["discr"]["k"] not in ("copy", "move"):
            continue
        d = t["discr"]["place"]["l"]
        # discr local defined in this block by discriminant(place)
        drv = None
        for st in body.blocks[s]["stmts"]:
            if st["k"] == "assign" and st["dst"]["l"] == d and not st["dst"]["p"] and st["rv"]["k"] == "discr":
                drv = st["rv"]
        if drv is None:
            continue
        adt = norm(drv.get("adt", ""))
        reaching = []
        for v, tgt in t["targets"]:
            if tgt == bb or bb in body.reach_from(tgt, avoid={s}, include_start=True):
                reaching.append(("v", v, tgt))
        ot = t["otherwise"]
        if ot == bb or bb in body.reach_from(ot, avoid={s}, include_start=True):
            reaching.append(("o", None, ot))
        key = canon_place(body, drv["place"], {})
        if len(reaching) == 1:
            kind, v, _ = reaching[0]
            if kind == "v":
                facts.append((key, "is", (prog.variant_of(adt, v),)))
            else:
                listed = tuple(prog.variant_of(adt, v) for v, _ in t["targets"])
                info = prog.adts.get(adt)
                rest = [x["name"] for x in info["variants"] if x["name"] not in listed] if info else []
                if len(rest) == 1:
                    facts.append((key, "is", (rest[0],)))
                else:
                    facts.append((key, "not", listed))
        elif reaching and all(r[0] == "v" for r in reaching):
            facts.append((key, "in", tuple(prog.variant_of(adt, r[1]) for r in reaching)))
    return facts



def guard_facts_at(prog, body, bb):
    """Which of the two parser guards are established on every path to bb, with no impure call since?"""
    facts = dominating_variant_facts(prog, body, bb)
    out = {}
    for key, kind, vs in facts:
        if kind != "is":
            continue
        if key.startswith("get_current_token_type(") and key.endswith(")") and "@" not in key:
            out["token"] = vs[0]
        if key.startswith("get_ending_context_idx(") and key.endswith(")") and "@" not in key:
            out["ctx"] = vs[0]
    return out



def guarded_nonadvancing_path(prog, body, avoid, facts):
    """BFS over (block, clean) looking for an entry->return path that avoids `avoid`;
    while clean (no impure call passed yet) discriminant tests on results of the guard callees are
    resolved by `facts` (guard idempotence)."""
    rets = set(body.return_blocks())
    start = (0, True)
    prev = {start: None}
    q = [start]
    if 0 in avoid:
        return None
    while q:
        nq = []
        for (bb, clean) in q:
            if bb in rets:
                path = []
                x = (bb, clean)
                while x is not None:
                    path.append(x[0])
                    x = prev[x]
                return path[::-1]
            t = body.blocks[bb]["term"]
            nclean = clean
            if t["k"] == "call" and is_impure_call(body, t):
                nclean = False
            succs = list(body.succ[bb])
            if clean and t["k"] == "switch" and body._thread(bb) is None:
                forced = forced_target(prog, body, bb, facts)
                if forced is not None:
                    succs = [forced]
            for s in succs:
                if s in avoid:
                    continue
                st = (s, nclean)
                if st in prev:
                    continue
                prev[st] = (bb, clean)
                nq.append(st)
        q = nq
    return None


def forced_target(prog, body, bb, facts):
    """If block bb switches on discriminant(result of a guard callee called with self-derived args),
    return the only target compatible with `facts`."""
    t = body.blocks[bb]["term"]
    if t["discr"]["k"] not in ("copy", "move"):
        return None
    d = t["discr"]["place"]["l"]
    drv = None
    for st in body.blocks[bb]["stmts"]:
        if st["k"] == "assign" and st["dst"]["l"] == d and st["rv"]["k"] == "discr":
            drv = st["rv"]
    if drv is None or drv["place"]["p"]:
        return None
    r = drv["place"]["l"]
    defs = [x for x in body.defs.get(r, []) if x[0] == "call"]
    if len(defs) != 1:
        return None
    ct = defs[0][2]
    cname = norm(ct.get("resolved") or ct.get("callee"))
    if cname not in facts:
        return None
    og = Origins(body)
    for a in ct["args"]:
        o = og.of_operand(a)
        if not o or not all(x[0] == "param" and x[1] == 1 for x in o):
            return None
    adt = norm(drv.get("adt", ""))
    want = facts[cname]
    for v, tgt in t["targets"]:
        if prog.variant_of(adt, v) == want:
            return tgt
    info = prog.adts.get(adt)
    listed = {prog.variant_of(adt, v) for v, _ in t["targets"]}
    if info and want in {x["name"] for x in info["variants"]} - listed:
        return t["otherwise"]
    return None


