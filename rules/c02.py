"""C02 — well-formed code re-scans to the same tokens (structural clauses)."""
import itertools
import re

from facts import norm, Origins
from progress import dominating_variant_facts, bfs_path
from table import Table, TooComplex, render
from util import canon, short, enum_variants_mentioned

OLF = "pasfmt_core::rules::optimising_line_formatter::"
IOLF = OLF + "InternalOptimisingLineFormatter::"
REQ = OLF + "requirements::"
LANG = "pasfmt_core::lang::"
TS = "pasfmt_core::rules::token_spacing::"


def eval_row(cons, roots):
    """Does a table row apply to a concrete assignment?  `roots`: list of (root-suffix, value) where value is a
    nested tuple ('Variant', payload...) e.g. ('Some', ('Comment', ('InlineLine',))).  Returns True / False /
    None (row has an opaque condition)."""
    opaque = False
    for c in cons:
        if c[0] == "cond":
            opaque = True
            continue
        key = c[1]
        val = None
        for suffix, v in roots:
            i = key.find(suffix)
            if i >= 0 and (len(key) == i + len(suffix) or key[i + len(suffix)] == "@"):
                rest = key[i + len(suffix):]
                val = v
                # walk @Variant.0 steps
                steps = [s for s in rest.split("@") if s]
                ok = True
                for s in steps:
                    vname, _, fidx = s.partition(".")
                    if val is None or val[0] != vname:
                        ok = False
                        break
                    fidx = int(fidx) if fidx else 0
                    val = val[1 + fidx] if len(val) > 1 + fidx else None
                if not ok:
                    return False
                break
        else:
            opaque = True
            continue
        if val is None:
            return False
        if c[0] == "is" and val[0] != c[2]:
            return False
        if c[0] == "not" and val[0] in c[2]:
            return False
    return None if opaque else True


def table_results(table, roots):
    out = set()
    for cons, res in table.rows:
        m = eval_row(cons, roots)
        if m is False:
            continue
        out.add(render(res))
    return out


def emission_table(prog, cl):
    """Decision table of reconstruct's per-token closure.  The decision may be delegated to a loop-free bool method of the reconstructor
    (`self.lacks_required_line_break(flag, token)`): such helpers are expanded into the table, everything else stays an opaque observation."""
    REC_ = "pasfmt_core::defaults::reconstructor::"
    helpers = set()
    for c in cl.calls():
        hb = prog.body(norm(c.t.get("resolved") or c.callee or ""))
        if hb is not None and hb.npath.startswith(REC_) and not hb.loops() and str(c.t.get("dst_ty", "")) == "bool":
            helpers.add(hb.npath.split("::")[-1])
    return Table(prog, cl, inline=1, only=tuple(sorted(helpers))) if helpers else Table(prog, cl)


def line_break_test_of_safety_net(prog, rep, R):
    """The `is there already a line break in the kept whitespace` test of the ignored arm of reconstruct looks for CR as well as LF
    (a lone CR ends a line comment in the lexer; testing LF only inserted a line ending inside verbatim regions of CR files)."""
    import text
    cl = prog.body(text.RCL if hasattr(text, "RCL") else text.RECON + "::{closure#0}")
    if not rep.check(cl is not None, R, "anchor:reconstruct-closure", "reconstruct closure not found"):
        return
    tests = []
    fam = [cl]
    for c in cl.calls():
        hb = prog.body(norm(c.t.get("resolved") or c.callee or ""))
        if hb is not None and hb.npath.startswith("pasfmt_core::defaults::reconstructor::") and hb not in fam:
            fam.append(hb)
    for c in [c for x in fam for c in x.calls()]:
        cl = c.body
        if (c.callee or "") == "core::str::contains" and "get_leading_whitespace(" in canon(cl, c.args[0]):
            chars = set()
            a = c.args[1]
            if a["k"] == "const":
                chars.add(a.get("char"))
            else:
                for d in cl.defs.get(a["place"]["l"], []):
                    if d[0] == "assign" and d[3]["k"] == "assign":
                        rv = d[3]["rv"]
                        for o in ([rv.get("op")] if rv.get("op") else []) + list(rv.get("ops", [])):
                            if isinstance(o, dict) and o.get("k") == "const" and "char" in o:
                                chars.add(o["char"])
            tests.append((c, chars))
    rep.check(len(tests) == 1 and {10, 13} <= tests[0][1], R, "safety-net-tests-CR-and-LF",
              "the ignored arm decides `the kept whitespace already has a line break` by looking for %s (expected both LF and CR)" % [sorted(t[1]) for t in tests],
              where=tests[0][0].where() if tests else None, instance={"pattern": sorted(tests[0][1]) if tests else []})


P_PARSER = "pasfmt_core::defaults::parser::InternalDelphiLogicalLineParser::"


def check_c02(prog, rep, tier, cfg):
    # ---------------------------------------------------------------- C02.a hard-break decision table
    R = "C02.a"
    b = prog.body(REQ + "get_formatting_invariant")
    tt = prog.adts.get(LANG + "TokenType")
    ck = prog.adts.get(LANG + "CommentKind")
    tl = prog.adts.get(LANG + "TextLiteralKind")
    if rep.check(b is not None and tt and ck and tl, R, "anchor:get_formatting_invariant", "get_formatting_invariant / token type enums not found"):
        try:
            t = Table(prog, b, inline=2, opaque=("get_prev_token_type_for_line_index", "get_token_type_for_line_index"))
        except TooComplex as e:
            t = None
            rep.fail(R, "table", "get_formatting_invariant is no longer a loop-free classifier: %s" % e)
        if t is not None:
            rep.floor(R, "decision-table rows", len(t.rows), 20)
            # the two classified values, however the function names them: the accessor results themselves or the fields of a tuple built from them
            acc = {}
            for c in b.calls():
                nm = (c.callee or "").split("::")[-1]
                if nm in ("get_prev_token_type_for_line_index", "get_token_type_for_line_index"):
                    acc[nm] = canon(b, {"k": "copy", "place": c.t["dst"]}) if not c.t["dst"]["p"] else None
            extra_roots = lambda pv, cv: ([(acc["get_prev_token_type_for_line_index"], pv)] if acc.get("get_prev_token_type_for_line_index") else []) + \
                ([(acc["get_token_type_for_line_index"], cv)] if acc.get("get_token_type_for_line_index") else [])

            def kinds():
                out = [None]
                for v in tt["variants"]:
                    n = v["name"]
                    if n == "Comment":
                        out += [("Some", ("Comment", (k["name"],))) for k in ck["variants"]]
                    elif n == "TextLiteral":
                        out += [("Some", ("TextLiteral", (k["name"],))) for k in tl["variants"]]
                    elif v["nfields"] == 0:
                        out.append(("Some", (n,)))
                    else:
                        out.append(("Some", (n, ("?",))))
                return out
            K = kinds()
            inline = {"InlineLine", "InlineBlock"}
            own_line = {"IndividualLine", "IndividualBlock", "MultilineBlock"}
            n = 0
            for prev, cur in itertools.product(K, K):
                pv = ("None",) if prev is None else prev
                cv = ("None",) if cur is None else cur
                res = table_results(t, [("}.0", pv), ("}.1", cv)] + extra_roots(pv, cv))
                pk = prev[1] if prev else None
                cu = cur[1] if cur else None
                want = None
                why = None
                if prev is None:
                    want, why = {"Some(MustNotBreak)"}, "first token of a line"
                elif cu and cu[0] == "Comment" and cu[1][0] in inline:
                    want, why = {"Some(MustNotBreak)"}, "inline comments are never broken off"
                elif cu and ((cu[0] == "Comment" and cu[1][0] in own_line) or (cu[0] == "TextLiteral" and cu[1][0] == "MultiLine")):
                    want, why = {"Some(MustBreak)"}, "break before own-line comments and multi-line strings"
                elif pk and ((pk[0] == "Comment" and pk[1][0] in ("IndividualLine", "InlineLine", "MultilineBlock")) or (pk[0] == "TextLiteral" and pk[1][0] == "Unterminated")):
                    want, why = {"Some(MustBreak)"}, "break after line comments, multi-line block comments and unterminated literals"
                if want is None:
                    continue
                n += 1
                pd = "None" if prev is None else (pk[0] + ("(%s)" % pk[1][0] if len(pk) > 1 and pk[1][0] != "?" else ""))
                cd = "None" if cur is None else (cu[0] + ("(%s)" % cu[1][0] if len(cu) > 1 and cu[1][0] != "?" else ""))
                rep.check(res == want, R, "cube:%s|%s" % (pd, cd), "hard-break table: prev=%s cur=%s yields %s, required %s (%s)" % (pd, cd, sorted(res), sorted(want), why),
                          where="%s:%d" % (b.file, b.line), instance={"prev": pd, "cur": cd, "result": sorted(res)})
            rep.floor(R, "obliged (prev,cur) cubes evaluated", n, 150)
    # ---------------------------------------------------------------- C02.b the invariant is consulted first and cannot be weakened
    R = "C02.b"
    g = prog.body(REQ + "get_formatting_requirement")
    if rep.check(g is not None, R, "anchor:get_formatting_requirement", "get_formatting_requirement not found"):
        # Path-wise, up to the point where the soft rules start (the token-type window is fetched) or the function returns: a path that
        # knows the invariant is Some(v) answers map_can_break(v, ..) and nothing else; the soft rules are reached (or a fallback closure
        # is evaluated) only where the invariant is None; a path that has not asked the invariant answers Invalid (no context at all).
        # Forms accepted: `if let Some(v) = invariant { return v.map_can_break(..) }`, `match`, `invariant.unwrap_or_else(|| soft(..))
        # .map_can_break(..)`, the soft rules in this function or in a helper.
        inv = g.calls_to(REQ + "get_formatting_invariant")
        win = g.calls_to(REQ + "get_token_type_window")
        ok = len(inv) == 1
        bad = []
        nrows = 0
        if ok:
            try:
                tb = Table(prog, g, inline=1, only=(), stop={c.bb for c in win})
            except TooComplex as e:
                tb = None
                bad.append("get_formatting_requirement is not a decision table up to the soft rules: %s" % e)
            for cons, res in (tb.rows if tb is not None else []):
                nrows += 1
                r = render(res)
                known = [c for c in cons if c[0] == "is" and str(c[1]).startswith("get_formatting_invariant(") and "@" not in str(c[1])]
                state = [c[2] for c in known]
                is_stop = res.kind == "agg" and res.a[0] == "state"
                if is_stop:
                    if state != ["None"]:
                        bad.append("the soft rules are reached on a path where the invariant is %s" % (state or "not consulted"))
                    continue
                if r == "Invalid" and not state:
                    continue
                if state == ["Some"]:
                    if not re.match(r"^call:map_can_break\(get_formatting_invariant\([^@]*\)@Some\.0,", r):
                        bad.append("the invariant is Some(v) but the answer is %s" % r[:90])
                elif state == ["None"]:
                    if not r.startswith("call:map_can_break("):
                        bad.append("a soft answer is returned without map_can_break: %s" % r[:90])
                else:
                    bad.append("%s is answered on a path that has not consulted get_formatting_invariant" % r[:60])
        rep.check(ok and not bad and nrows >= 3, R, "invariant-first", "get_formatting_requirement no longer returns map_can_break(invariant) before consulting the soft rules: %s" % (bad[:2] or "anchors"),
                  where="%s:%d" % (g.file, g.line), instance={"order": "invariant -> map_can_break | soft rules only on None", "paths": nrows})
        # .. and no answer other than `Invalid` (no context at all) is given without having asked the invariant: an early
        # `return MustNotBreak` for some kind of line overrides the hard breaks (before a multi-line literal, after a line comment)
        early = []
        for bb, i, st in g.stmts():
            if st["k"] == "assign" and st["dst"]["l"] == 0 and not st["dst"]["p"]:
                v = st["rv"].get("variant") if st["rv"]["k"] == "aggregate" else (st["rv"].get("op", {}).get("enum_variant") if st["rv"]["k"] == "use" else None)
                if v == "Invalid":
                    continue
                if inv and not g.dominates(inv[0].bb, bb):
                    early.append("%s at line %s" % (v or "a value", abs(st.get("line", 0))))
        for c in g.calls():
            if c.t["dst"]["l"] == 0 and not c.t["dst"]["p"] and inv and not g.dominates(inv[0].bb, c.bb) and c.bb != inv[0].bb:
                early.append("result of %s" % (c.callee or "?").split("::")[-1])
        rep.check(not early, R, "no-answer-before-the-invariant", "get_formatting_requirement answers (%s) on a path that has not consulted get_formatting_invariant: the hard break rules are overridden there"
                  % early[:2], where="%s:%d" % (g.file, g.line), instance={"early_answers": early[:3]})
    m = prog.body(OLF + "types::DecisionRequirement::map_can_break")
    if rep.check(m is not None, R, "anchor:map_can_break", "map_can_break not found"):
        t = Table(prog, m)
        outs = {}
        for cons, res in t.rows:
            src = [c for c in cons if c[0] in ("is", "not")]
            r = render(res)
            for v in ("MustBreak", "MustNotBreak", "Indifferent", "Invalid"):
                if eval_row([c for c in cons if c[0] != "cond"], [("}.0", (v,))]) is not False:
                    outs.setdefault(v, set()).add(v if r == "place:arg1" else r)
        rep.check(outs.get("MustBreak") == {"MustBreak", "Invalid"} and outs.get("MustNotBreak") == {"MustNotBreak"}, R, "map_can_break:table",
                  "map_can_break can turn a hard requirement into something weaker: %s" % {k: sorted(v) for k, v in outs.items()}, instance={k: sorted(v) for k, v in outs.items()})
    # ---------------------------------------------------------------- C02.c the search honours requirements
    R = "C02.c"
    f = prog.body(IOLF + "find_optimal_solution")
    if rep.check(f is not None, R, "anchor:find_optimal_solution", "find_optimal_solution not found"):
        og = Origins(f)
        # calls of the successor generator closure: Fn::call(&get_solutions, (NL::x, node, &contexts))
        by_req = {}
        nsites = 0
        for c in f.calls():
            if c.callee not in ("core::ops::function::Fn::call",):
                continue
            tup = c.args[1]
            nl = None
            for x in og.of_operand(tup):
                if x[0] == "agg" and x[3] == "tuple":
                    ops = f.blocks[x[1]]["stmts"][x[2]]["rv"]["ops"]
                    for y in og.of_operand(ops[0]):
                        if y[0] == "agg" and y[3].startswith("adt:") and y[3].split("::")[-2] == "RawDecision":
                            nl = y[3].split("::")[-1]
            if nl is None:
                continue
            nsites += 1
            facts = [fx[2][0] for fx in dominating_variant_facts(prog, f, c.bb) if fx[1] == "is" and fx[2][0] in ("MustBreak", "MustNotBreak", "Indifferent", "Invalid") and "get_formatting_requirement(" in fx[0]]
            req = facts[-1] if facts else None
            # which node are successors generated for?  the current one, or the saved first-Indifferent node (back-tracking)
            node_desc = ""
            for x in og.of_operand(tup):
                if x[0] == "agg" and x[3] == "tuple":
                    ops = f.blocks[x[1]]["stmts"][x[2]]["rv"]["ops"]
                    node_desc = canon(f, ops[1])
            backtrack = "indifference_line" in node_desc or "indiff" in node_desc
            by_req.setdefault((req, "saved-indifferent-node" if backtrack else "current-node"), set()).add(nl)
        cur = lambda r: by_req.get((r, "current-node"), set())
        rep.check(cur("MustBreak") == {"Break"}, R, "MustBreak=>only-Break", "under a MustBreak requirement the search explores %s for the current node" % sorted(cur("MustBreak")), instance={"MustBreak": sorted(cur("MustBreak"))})
        rep.check(cur("MustNotBreak") == {"Continue"}, R, "MustNotBreak=>only-Continue", "under a MustNotBreak requirement the search explores %s for the current node" % sorted(cur("MustNotBreak")), instance={"MustNotBreak": sorted(cur("MustNotBreak"))})
        rep.check(not cur("Invalid"), R, "Invalid=>no-successor-of-current-node", "under an Invalid requirement the search still creates successors of the current node: %s" % sorted(cur("Invalid")),
                  instance={"Invalid": sorted(cur("Invalid")), "backtracking_sites": sorted(str(k) for k in by_req if k[1] != "current-node")})
        rep.floor(R, "successor-generation sites classified", nsites, 5)
        # first token: (Some(MustBreak), Continue) and (Some(MustNotBreak), Break) are rejected
        errs = [s for _, _, s in f.stmts() if s["k"] == "assign" and s["rv"]["k"] == "aggregate" and s["rv"].get("variant") == "NoSolutionFound"]
        rep.check(len(errs) >= 1, R, "first-token-conflict=>NoSolutionFound", "find_optimal_solution no longer reports NoSolutionFound for a first-token decision that contradicts the invariant")
    # ---------------------------------------------------------------- C02.d breaks are real line breaks
    R = "C02.d"
    import layout as _layout0
    rs = prog.inlined(IOLF + "reconstruct_solution", keep=_layout0.RS_KEEP)
    if rep.check(rs is not None, R, "anchor:reconstruct_solution", "reconstruct_solution not found"):
        vals = {}
        for a in prog.field_accesses(LANG + "FormattingData", "newlines_before", bodies=[rs]):
            if not a[3].startswith("write"):
                continue
            bb, s = a[1], a[4]
            arm = [fx[2][0] for fx in dominating_variant_facts(prog, rs, bb) if fx[1] == "is" and fx[2][0] in ("Break", "Continue")]
            rv = s["rv"]
            from util import small_value_class, within
            for v in small_value_class(prog, rs, rv):
                vals.setdefault(arm[-1] if arm else None, set()).add(v)
        ok = within(vals.get("Break", set()), 1, 2) and vals.get("Continue") == {0} and None not in vals
        rep.check(ok, R, "Break=>>=1-newline,Continue=>0", "reconstruct_solution realises decisions as %s" % {k: sorted(map(str, v)) for k, v in vals.items()}, instance={str(k): sorted(map(str, v)) for k, v in vals.items()})
    # ---------------------------------------------------------------- C02.e last-resort safety net
    R = "C02.e"
    import text
    cl = prog.body(text.RCL if hasattr(text, "RCL") else text.RECON + "::{closure#0}")
    if rep.check(cl is not None, R, "anchor:reconstruct-closure", "reconstruct closure not found"):
        # the flag is a captured &mut bool, written on every path at the end with is_singleline() under a Comment test
        stores = []
        for bb, i, s in cl.stmts():
            if s["k"] == "assign" and ((s["dst"]["p"] and s["dst"]["p"][-1]["k"] == "deref") or (not s["dst"]["p"] and s["dst"]["l"] in cl.origin_alias)):
                o = Origins(cl).of_place({"l": s["dst"]["l"], "p": []})
                if any(x[0] == "upvar" and "must_break" in x[2] for x in o):
                    stores.append((bb, s))
        from panic import dominating_conditions
        good = bool(stores)
        srcs = set()
        expanded = []
        for bb, s in stores:
            rv = s["rv"]
            if rv["k"] == "use" and rv["op"]["k"] == "const":
                expanded.append((bb, rv["op"].get("bool")))
            elif rv["k"] == "use" and rv["op"]["k"] in ("copy", "move") and not rv["op"]["place"]["p"]:
                for d in cl.defs.get(rv["op"]["place"]["l"], []):
                    if d[0] == "assign" and d[3]["rv"]["k"] == "use" and d[3]["rv"]["op"]["k"] == "const":
                        expanded.append((d[1], d[3]["rv"]["op"].get("bool")))
                    else:
                        expanded.append((d[1], None))
            else:
                expanded.append((bb, None))
        for bb, v in expanded:
            conds = dominating_conditions(cl, bb)
            single = [c[3] for c in conds if c[0] == "call" and c[1].endswith("is_singleline")]
            comment = [fx[2][0] for fx in dominating_variant_facts(prog, cl, bb) if fx[1] == "is" and "get_token_type(" in fx[0]]
            srcs.add((v, tuple(single), tuple(comment)))
            if v is True:
                good &= single == [True] and comment == ["Comment"]
            elif v is False:
                good &= single != [True]
            else:
                good = False
        every = bool(stores) and bfs_path(cl, 0, set(cl.return_blocks()), {bb for bb, _ in stores}) is None
        rep.check(every and good and any(v is True for v, _, _ in srcs), R, "flag-updated-on-every-path",
                  "the `previous token was a single-line comment` flag is not set on every path to (token is a Comment whose kind is_singleline()): %s" % sorted(map(str, srcs)),
                  instance={"stores": sorted(map(str, srcs)), "every_path": every})
        # reads of the flag control the newline push (ignored arm) and nls = 1 (normal arm)
        reads = []
        for bb, i, s in cl.stmts():
            if s["k"] == "assign" and s["rv"]["k"] == "use" and s["rv"]["op"]["k"] in ("copy", "move") and \
                    ((s["rv"]["op"]["place"]["p"] and s["rv"]["op"]["place"]["p"][-1]["k"] == "deref") or (not s["rv"]["op"]["place"]["p"] and s["rv"]["op"]["place"]["l"] in cl.origin_alias)):
                o = Origins(cl).of_place({"l": s["rv"]["op"]["place"]["l"], "p": []})
                if any(x[0] == "upvar" and "must_break" in x[2] for x in o):
                    reads.append(bb)
        # a flag held in a plain local can also be tested directly (`switch must_break`)
        for bb in sorted(cl.reachable()):
            tt = cl.blocks[bb]["term"]
            if tt["k"] == "switch" and tt["discr"]["k"] in ("copy", "move") and not tt["discr"]["place"]["p"] and cl.origin_alias.get(tt["discr"]["place"]["l"], ("",))[0] == "upvar" \
                    and "must_break" in cl.origin_alias[tt["discr"]["place"]["l"]][2]:
                reads.append(bb)
        from panic import dominating_conditions
        arms = set()
        for bb in reads:
            conds = dominating_conditions(cl, bb)
            for c in conds:
                if c[0] == "call" and c[1].endswith("is_ignored"):
                    arms.add("ignored" if c[3] else "normal")
        # (where the flag is read is a matter of style — it may be combined with the Eof test before the arms split; what the reads must
        #  achieve is decided by the safety-net table below)
        rep.check(bool(reads), R, "flag-is-read", "the safety-net flag is never read in the emission step", instance={"reads": len(reads), "arms": sorted(arms)})
        # decision table of the whole emission step: on every path on which the flag may be set and the token may be something
        # other than end-of-file, a line break is emitted before the token's text (unless the kept whitespace has one already)
        ups = cl.j.get("upvars", [])
        fk = [i for i, u in enumerate(ups) if "must_break" in str(u)]
        if rep.check(len(fk) == 1, R, "anchor:flag-upvar", "captured flag not found among the closure's captures %s" % ups):
            flag = "arg1.%d" % fk[0]
            try:
                tb = emission_table(prog, cl)
            except Exception as e:  # loops or too many paths: fail closed
                tb = None
                rep.fail(R, "safety-net-table", "emission closure is not a loop-free classifier any more: %s" % e)
            nrows = 0
            badrows = []
            for (cons, _res), calls in zip(tb.rows if tb else [], tb.calls if tb else []):
                tt_is = {c[2] for c in cons if c[0] == "is" and c[1].startswith("get_token_type(")}
                if tt_is == {"Eof"}:
                    continue            # the only permitted exemption: nothing follows the end-of-file token
                cd = {}
                for c in cons:
                    if c[0] == "cond":
                        cd.setdefault(c[1], c[2])
                if cd.get(flag) == 0:
                    continue
                ign = [v for k, v in cd.items() if k.startswith("is_ignored(")]
                import layout as _ly
                pushes = []
                for n, a in calls:
                    sn = n.split("::")[-1]
                    if sn in ("push_str", "push", "for_each"):
                        pushes.append((sn, a))
                    elif _ly.is_repeat_push_helper(prog, n) and len(a) == 3:
                        # helper form of `(0..count).for_each(|_| buf.push_str(unit))`
                        cnt = a[2][6:] if a[2].startswith("place:") else a[2]
                        pushes.append(("for_each", ("Range(0, %s)" % (cnt if cnt.isdigit() else "place:" + cnt), "unit:" + a[1])))
                def first_break_before_text():
                    for n, a in pushes:
                        if n == "push_str" and "get_newline_str(" in a[-1]:
                            return True
                        if n == "for_each" and a and re.match(r"Range\(0, [1-9]\d*\)$", a[0]):
                            return True
                        if n == "for_each" and a and a[0].startswith("Range(0, place:") and a[0].endswith(".newlines_before)"):
                            continue      # decided below from the counter test
                        return False
                    return False
                nrows += 1
                if ign and ign[0] != 0:
                    has_nl = [v for k, v in cd.items() if k.startswith("contains(get_leading_whitespace(")]
                    if has_nl and has_nl[0] != 0:
                        continue        # the kept whitespace already has a line break
                    if not first_break_before_text():
                        badrows.append(("ignored-arm", sorted(map(str, cons)), pushes[:2]))
                else:
                    zero = [v for k, v in cd.items() if re.match(r"Eq\(arg2\.1\.newlines_before,0\)", k)]
                    if not zero:
                        # `newlines_before > 0` / `newlines_before != 0`: the same test, the other way round
                        gt = [v for k, v in cd.items() if re.match(r"(Gt|Ne)\(arg2\.1\.newlines_before,0\)", k)]
                        if gt:
                            zero = [0 if gt[0] != 0 else ("not", 0)]
                    if not zero:
                        # `match newlines_before { 0 => .., n => .. }`: the counter itself is the tested value
                        direct = [v for k, v in cd.items() if k == "arg2.1.newlines_before"]
                        if direct:
                            zero = [("not", 0) if direct[0] == 0 else 0]
                    if zero and zero[0] == 0:
                        # counter is known to be non-zero: the counter's own line breaks are emitted
                        if not (pushes and pushes[0][0] == "for_each" and pushes[0][1][0].endswith(".newlines_before)")):
                            badrows.append(("normal-arm/non-zero-counter", sorted(map(str, cons)), pushes[:2]))
                        continue
                    if not first_break_before_text():
                        badrows.append(("normal-arm", sorted(map(str, cons)), pushes[:2]))
            rep.check(nrows >= 6 and not badrows, R, "safety-net-table",
                      "on %d of %d emission paths with (flag possibly set, token possibly not Eof) no line break precedes the token text; first: %s" % (len(badrows), nrows, badrows[:1]),
                      instance={"paths_with_obligation": nrows, "violating": [b[0] + ": " + "; ".join(b[1]) for b in badrows[:4]]})
        isb = prog.body(LANG + "CommentKind::is_singleline")
        if rep.check(isb is not None, R, "anchor:is_singleline", "CommentKind::is_singleline not found"):
            import parse_cov
            tv = parse_cov.variant_truth(prog, LANG + "CommentKind::is_singleline")
            rep.check(tv is not None and tv.get("InlineLine") is True and tv.get("IndividualLine") is True and sum(1 for v in tv.values() if v) == 2, R, "is_singleline={IndividualLine,InlineLine}",
                      "CommentKind::is_singleline is true for %s" % sorted(k for k, v in (tv or {}).items() if v), instance={"true_for": sorted(k for k, v in (tv or {}).items() if v)})
    line_break_test_of_safety_net(prog, rep, "C02.e")
    # ---------------------------------------------------------------- C02.g separating spaces survive until all wrapping is done
    import layout
    layout.zeroing_after_wrapping(prog, rep, "C02.g")
    # ---------------------------------------------------------------- C02.h same text except the documented normalisations
    text.documented_normalisations(prog, rep, "C02.h")
    text.characters_compared_as_characters(prog, rep, "C02.j")
    # C02.k — the scanner's sibling routines (AVX2 / scalar / dispatch map) accept the same characters (shared with C13.b): where they
    # disagree, the same text is cut into other tokens depending on length, alignment and CPU
    import lexer_rules as _lx
    from engine import AliasReport as _Alias
    _lx.check_c13(prog, _Alias(rep, [("C13.b", r".", "C02.k")]), tier, cfg)
    # C02.l — the value of a multi-line literal: its interior lines are cut exactly where the lexer's terminators are (CR, LF, CRLF as one),
    # otherwise two lines are re-indented as one and the second keeps its old indentation (shared with C12.e)
    import strings as _strings
    _strings.check_c12(prog, _Alias(rep, [("C12.e", r".", "C02.l")]), tier, cfg)
    # C02.n — a conditional directive ends where its expression ends (shared with C13.f): cut at the first `}` of a nested comment or literal,
    # its tail is scanned and formatted as code (breaks and blanks inside the directive, `AND` lower-cased, a stray quote absorbing code)
    _lx.c13f(prog, _Alias(rep, [("C13.f", r".", "C02.n")]))
    # C02.p — a look-ahead of the parser that decides what a word IS (a directive of the routine in front, or the name of the next
    # declaration) skips comments and compiler directives (`get_token_type::<N>()`): the raw neighbour by index is looked at only in
    # reviewed places.  With a comment behind the name, a raw peek sees the comment, the word is taken for the directive and lower-cased.
    RAW_PEEK = P_PARSER + "get_token_type_for_index"
    REVIEWED_RAW_PEEKS = {"fix_next_eq": "re-types the `=` that follows a parameter's type; `=` is recognised by its own kind, a comment in between only leaves it untouched"}
    peeks = [c for c in prog.who_calls(RAW_PEEK) if c.body.crate.startswith("pasfmt_core") and "::tests::" not in c.body.npath and c.body.npath != RAW_PEEK]
    unrev = sorted({short(c.body.npath) for c in peeks if not any(k in c.body.npath for k in REVIEWED_RAW_PEEKS) and "get_token_type" not in c.body.npath.split("::")[-1]})
    rep.check(not unrev, "C02.p", "raw-index-look-ahead-only-where-reviewed",
              "%s looks at a neighbouring token by raw index (get_token_type_for_index) instead of through the comment-skipping look-ahead: with a comment in between it decides about the "
              "word on the comment, a name spelled like a directive is re-typed as a keyword and lower-cased" % unrev, instance={"raw_peeks": sorted({short(c.body.npath) for c in peeks}), "reviewed": sorted(REVIEWED_RAW_PEEKS)})
    rep.floor("C02.p", "raw-index look-aheads in the parser", len(peeks), 1)
    # C02.q — what is lexed is the file's own text: the per-worker read buffer is empty on every path on which a file's bytes are appended
    # to it.  Bytes of a rejected predecessor left in the buffer (a UTF-16 BOM, say) make a well-formed file decode as something else,
    # and what is written back does not scan to the tokens of what was in the file (shared with C18.c)
    import orch as _orch2
    _orch2.c18c(prog, rep, "C02.q")
    # C02.o — a character string is one token: a run of `#` character codes ends only where no `#` follows (shared with C13.k)
    _lx.c13k(prog, rep, "C02.o")
    # C02.m — what the user re-scans is the file pasfmt wrote: the formatted text reaches it through the encoder of the file's encoding
    # only (one byte per character after a UTF-16 BOM re-scans to other tokens altogether).  Shared with C17.c.
    import orch as _orch
    _orch.c17c(prog, _Alias(rep, [("C17.c", r".", "C02.m")]))
    # ---------------------------------------------------------------- C02.i who may change a token's kind, and which tokens
    R = "C02.i"
    writers = {}
    for b2 in prog.bodies.values():
        if not b2.crate.startswith("pasfmt"):
            continue
        for c in b2.calls():
            if (c.callee or "").endswith("TokenData::set_token_type") or (c.target or "").endswith("::set_token_type"):
                writers.setdefault(b2.npath, []).append(c)
    P = "pasfmt_core::defaults::parser::"
    IP = P + "InternalDelphiLogicalLineParser::"
    allowed = {P + "parse_file": "cementing of undecided contextual keywords of the pass just parsed",
               IP + "consolidate_class_op_in": "parser", IP + "parse_statement": "parser", IP + "parse_parameter_list::fix_next_eq": "parser",
               IP + "consolidate_portability_directives": "parser", IP + "consolidate_prev_keyword": "parser", IP + "consolidate_current_ident": "parser",
               IP + "consolidate_current_keyword": "parser", IP + "set_current_token_type": "parser", IP + "set_current_decl_kind": "parser",
               IP + "consolidate_current_caret_to_type": "parser",
               "<pasfmt_core::rules::generics_consolidator::DistinguishGenericTypeParamsConsolidator as pasfmt_core::traits::TokenConsolidator>::consolidate": "generic brackets"}
    extra = sorted(set(writers) - set(allowed))
    rep.check(not extra, R, "who-calls:set_token_type", "a token's kind is changed by unreviewed code: %s" % [short(x) for x in extra], instance={"writers": sorted(short(x) for x in writers)})
    rep.floor(R, "set_token_type call sites", sum(len(v) for v in writers.values()), 12)
    pf = prog.body(P + "parse_file")
    if rep.check(pf is not None and len(writers.get(P + "parse_file", [])) == 1, R, "anchor:parse_file-cementing", "parse_file no longer has exactly one set_token_type call"):
        c = writers[P + "parse_file"][0]
        recv = canon(pf, c.args[0])
        m = re.match(r"^arg1\[next\(into_iter\((.+)\)\)@Some\.0\]$", recv)
        inner = m.group(1) if m else ""
        facts = [f for f in dominating_variant_facts(prog, pf, c.bb) if "get_token_type(" in f[0] and f[1] == "is"]
        only_undecided = any(f[2] == ("IdentifierOrKeyword",) for f in facts)
        val = canon(pf, c.args[1])
        rep.check(bool(m) and "arg1" not in inner and "next(" in inner and only_undecided and val.startswith("RawTokenType::Identifier"), R, "cementing-confined-to-the-pass",
                  "after a pass, parse_file re-types %s to %s under %s — it must touch only tokens of the pass just parsed (an index taken from the pass's own token list) that are still IdentifierOrKeyword; "
                  "re-typing tokens of branches that were not parsed yet hides their contextual keywords from later passes" % (recv, val, [f[2] for f in facts]),
                  where=c.where(), instance={"receiver": recv, "value": val})
    # ---------------------------------------------------------------- C02.f spacing table never forces 0 between word-like tokens
    R = "C02.f"
    for fn, zero_for, root in (("spaces_before", {"None": None, "Op": {"LBrack", "LParen", ("LessThan", "Generic")}}, "before"), ("spaces_after", {"Op": {"RBrack", "RParen", ("GreaterThan", "Generic")}}, "after")):
        bdy = prog.body(TS + fn)
        if not rep.check(bdy is not None, R, "anchor:" + fn, "%s not found" % fn):
            continue
        t = Table(prog, bdy, inline=1)          # (`token_type.is_none_or(|t| matches!(t, ..))`: the closure's own table is expanded)
        bad = []
        nz = 0
        for cons, res in t.rows:
            r = render(res)
            if r == "Some(0)":
                nz += 1
                chain = [c[2] for c in cons if c[0] == "is"]
                ok = chain == ["None"] or (chain[:2] == ["Some", "Op"] and (chain[2:] in (["LBrack"], ["LParen"], ["RBrack"], ["RParen"], ["LessThan", "Generic"], ["GreaterThan", "Generic"])))
                if ok and fn == "spaces_before":
                    ok = chain == ["None"] or chain[2] in ("LBrack", "LParen", "LessThan")
                if ok and fn == "spaces_after":
                    ok = chain != ["None"] and chain[2] in ("RBrack", "RParen", "GreaterThan")
                if not ok:
                    bad.append(chain)
            elif r != "Some(place:arg2)":
                bad.append(r)
        rep.check(not bad, R, fn + ":zero-only-next-to-brackets", "%s forces 0 spaces (or another constant) for %s — a word-like token could be glued to its neighbour" % (fn, bad), instance={"fn": fn, "zero_rows": nz})
    fmt = prog.body("<pasfmt_core::rules::token_spacing::TokenSpacing as pasfmt_core::traits::LogicalLineFileFormatter>::format")
    if rep.check(fmt is not None, R, "anchor:TokenSpacing::format", "TokenSpacing::format not found"):
        # Identifier arm: (None, Some(1)); word-like kinds go through one_space_either_side
        ose = fmt.calls_to(TS + "one_space_either_side")
        ok = len(ose) == 1
        kinds = set()
        if ok:
            for fx in dominating_variant_facts(prog, fmt, ose[0].bb):
                if fx[1] in ("is", "in") and "get_token_type_for_index(" in fx[0]:
                    kinds |= set(fx[2])
        rep.check(ok and {"Comment", "CompilerDirective", "ConditionalDirective", "Keyword"} <= kinds, R, "word-like-kinds=>one_space_either_side",
                  "keywords / comments / directives are no longer spaced by one_space_either_side (kinds reaching it: %s)" % sorted(kinds), instance={"kinds": sorted(kinds)})
        ident_ok = False
        for bb, i, s in fmt.stmts():
            if s["k"] == "assign" and s["rv"]["k"] == "aggregate" and s["rv"].get("agg") == "tuple" and len(s["rv"]["ops"]) == 2:
                facts = [fx[2][0] for fx in dominating_variant_facts(prog, fmt, bb) if fx[1] == "is" and "get_token_type_for_index(" in fx[0]]
                if "Identifier" in facts:
                    o0 = Origins(fmt).of_operand(s["rv"]["ops"][0])
                    o1 = Origins(fmt).of_operand(s["rv"]["ops"][1])
                    a_none = any(x[0] == "agg" and x[3].endswith("Option::None") for x in o0)
                    a_one = False
                    for x in o1:
                        if x[0] == "agg" and x[3].endswith("Option::Some"):
                            p = fmt.blocks[x[1]]["stmts"][x[2]]["rv"]["ops"][0]
                            a_one = p["k"] == "const" and p.get("int") == 1
                    ident_ok = a_none and a_one
        rep.check(ident_ok, R, "Identifier=>(keep,1)", "an identifier is no longer followed by exactly one forced space")
        ose_b = prog.body(TS + "one_space_either_side")
        if ose_b is not None:
            # on every path the pair is (spaces_before(<previous kind>, 1), spaces_after(<next kind>, 1)), whatever helpers it is computed through
            try:
                tb_o = Table(prog, ose_b, inline=2, opaque=("spaces_before", "spaces_after"))
                pairs = []
                for cons, res in tb_o.rows:
                    if res.kind == "agg" and len(res.a[2]) == 2:
                        pairs.append((render(res.a[2][0]), render(res.a[2][1])))
                    else:
                        pairs.append((render(res), ""))
                good = bool(pairs) and all(re.match(r"^call:spaces_before\(.*,1\)$", p0) and re.match(r"^call:spaces_after\(.*,1\)$", p1) for p0, p1 in pairs)
                cs = sorted({(p0.split("(")[0], p1.split("(")[0]) for p0, p1 in pairs})
            except TooComplex as e:
                good, cs = False, [str(e)]
            rep.check(good, R, "one_space_either_side=(before 1, after 1)", "one_space_either_side computes %s" % cs, instance={"calls": [list(x) if isinstance(x, tuple) else x for x in cs]})


PROPERTIES = {
    "C02": (check_c02,
            "Structural clauses of C02: (a) the hard-break decision table get_formatting_invariant, evaluated on every (previous kind, current kind) cube: MustNotBreak before inline "
            "comments, MustBreak before own-line comments and multi-line strings, MustBreak after line comments / multi-line block comments / unterminated literals; (b) the invariant "
            "is consulted before any soft rule and map_can_break can only turn MustBreak into Invalid; (c) the search explores only Break under MustBreak, only Continue under "
            "MustNotBreak, nothing under Invalid; (d) a Break decision stores >= 1 newline, Continue stores 0; (e) the last-resort flag (previous token is a single-line comment) is "
            "updated on every path and guards both emission arms; (f) the spacing table forces 0 spaces only next to brackets/generic chevrons, identifiers force a following space, "
            "keywords/comments/directives get one space either side; (g) line-start spaces are removed only after the last wrapping pass; (h) token text changes only through the documented normalisations, each reached only for its own token kinds (set_content callers, dispatch facts, keyword lower-casing of the same token, partition / skip discipline of the re-assemblers); (e) is decided as a decision table of the emission step including the calls made on each path. Not decided: generic-bracket re-typing heuristics, the full operator-pair gluing matrix, the fallback when no "
            "wrapping is found. Added in round 6: (l) the interior lines of a multi-line literal are cut where the lexer's terminators are (shared with C12.e).", []),
}
