"""Sentences appended to the per-property explanation (evidence files) and description (MANIFEST) for the rules added in round 8."""
NOTES = {
    "C01": "Added in round 8: (i) what each normaliser hands to set_content (keyword lower-casing: the case-mapped text of that same token under a Keyword fact; comment helpers only for their own kinds); private helpers called only from a reviewed normaliser count as part of it.",
    "C02": "Added in round 8: (b) is decided as a decision table up to the soft rules (invariant Some(v) => map_can_break(v); soft rules only where it is None; no answer before it was asked), whatever the control-flow form; (m) the formatted text reaches the file only through the encoder of the file's encoding (shared with C17.c).",
    "C03": "Added in round 8: (h) every decision of a solved line overwrites all three counters, so nothing stored by the first wrapping of a line survives its second wrapping (shared with C06.b).",
    "C04": "Added in round 8: the loop-progress engine (a) covers every source file of the three crates (92 loops), not only the parser family; reviews/loop_termination_review.json holds an independent termination argument for the 35 loops that are neither iterator- nor counter-driven (cross-reference, not an input).",
    "C05": "Added in round 8: (k) the indentation / continuation runs are emitted unmodified (shared with C08.a and C10.c).",
    "C06": "Added in round 8: (c) the pair helpers of the spacing table decide both sides of a token whenever the neighbouring token exists.",
    "C08": "Added in round 8: (e) the pair helpers of the spacing table decide both sides of a token whenever the neighbouring token exists (shared with C06.c).",
    "C09": "Added in round 8: (j) no closure that replaces token text or stores layout counters is driven by a short-circuiting iterator adapter (zero-count rule with a positive fixture).",
    "C11": "Added in round 8: (i) outside the Potentials combinators no One/None is built where a Potentials value is known to be Two; (j) number of penalty-only pruning tables of the search (1, known finding: C11 clause 3 fails through it); (k) every token kind that can contain a line break is measured by its last line (known finding: compiler / conditional directives are measured whole).",
    "C12": "Added in round 8: (h) the string pass hands every logical line to the string formatter (whole line list, element-preserving adapters only, the call in every iteration); (i) = C09.j.",
    "C15": "Added in round 8: (k) one step of process_cursors' walk as a decision table: attached cursors untouched, otherwise only `remainder <= token length` decides between attaching and advancing.",
    "C16": "Added in round 8: (k) the directory walk keeps every entry that is not a directory and has a recognised extension (shared with C18.f/h); (e)/(j) follow a shared stdin driver through its callback.",
    "C17": "Added in round 8: (g) the hand-written UTF-16 encoders are exact: one encode_utf16 over the whole text, no cutting or lossy call.",
    "C18": "Added in round 8: (j) every place that opens a file lies in the per-file body of the batch; (k) the global pool is set up with a stack of at least a main thread's before every call that reaches a parallel iteration.",
    "C19": "Added in round 8: (i) the text of a -C override reaches the builder as written (vocabulary of text-identity operations).",
}
