"""Program model over the JSON facts written by facts-driver: bodies, CFG, dominators,
natural loops, origin sets, resolved call graph (dyn calls expanded over local impls)."""
import functools
import json
import os
import re
from collections import defaultdict


@functools.lru_cache(maxsize=None)
def norm(path):
    """Strip generic-argument groups from a def path so that rules can name functions independent of
    generic parameter spelling: `::<...>` groups and `Type<...>` groups (a `<` directly after an
    identifier character).  Structural brackets `<impl A for B>` and `<T as Trait>` are kept."""
    if path is None:
        return None
    out = []
    i = 0
    n = len(path)
    while i < n:
        strip = False
        if path.startswith("::<", i):
            strip = True
            j0 = i + 2
        elif path[i] == "<" and i > 0 and (path[i - 1].isalnum() or path[i - 1] == "_"):
            strip = True
            j0 = i
        if strip:
            depth = 0
            j = j0
            while j < n:
                if path[j] == "<":
                    depth += 1
                elif path[j] == ">" and path[j - 1] != "-":
                    depth -= 1
                    if depth == 0:
                        break
                j += 1
            i = j + 1
            continue
        out.append(path[i])
        i += 1
    return "".join(out)


_GEN = re.compile(r"<[^<>]*>")


def strip_ty_generics(t):
    """`a::B<'x, T>` -> `a::B` (for type strings, where generics are written without `::`)."""
    prev = None
    while prev != t:
        prev = t
        t = _GEN.sub("", t)
    return t


class Site:
    """A call site."""
    __slots__ = ("body", "bb", "t")

    def __init__(self, body, bb, t):
        self.body = body
        self.bb = bb
        self.t = t

    @property
    def callee(self):
        return norm(self.t.get("callee"))

    @property
    def resolved(self):
        r = self.t.get("resolved")
        return norm(r) if r else None

    @property
    def target(self):
        """Best name for the called function: resolved instance if any, else declared callee."""
        return self.resolved or self.callee

    @property
    def line(self):
        return abs(self.t.get("line", 0))

    @property
    def args(self):
        return self.t["args"]

    def where(self):
        return "%s:%d" % (self.body.file, self.line)

    def __repr__(self):
        return "<call %s in %s bb%d @%s>" % (self.target, self.body.npath, self.bb, self.where())


class Body:
    def __init__(self, j, crate):
        self.j = j
        self.crate = crate
        self.path = j["path"]
        self.npath = norm(j["path"])
        self.kind = j["kind"]
        self.file = j["loc"]["file"]
        self.line = j["loc"]["line"]
        self.end_line = j.get("end_line", self.line)
        self.from_expansion = j["loc"]["exp"]
        self.blocks = j["blocks"]
        self.locals = j["locals"]
        self.arg_count = j["arg_count"]
        self.root = norm(j.get("root")) if j.get("root") else None
        self.parent = norm(j.get("parent")) if j.get("parent") else None
        self._succ = None
        self._pred = None
        self._dom = None
        self._pdom = None
        self._defs = None
        self._reach = {}
        # only set on bodies synthesised by loop_as_closure(): canonical names / origin terminals of locals that play the
        # role of the closure's parameters and captures, and the block at which one iteration starts
        self.alias = {}
        self.origin_alias = {}
        self.iteration_start = 0

    def __repr__(self):
        return "<body %s>" % self.npath

    # ------------------------------------------------------------- CFG
    def term(self, bb):
        return self.blocks[bb]["term"]

    def term_succ(self, bb):
        """Successor list with edge labels: [(label, target)] (unwind edges are not in the facts)."""
        t = self.blocks[bb]["term"]
        k = t["k"]
        if k == "goto":
            return [("goto", t["target"])]
        if k == "switch":
            return [(v, tb) for v, tb in t["targets"]] + [("otherwise", t["otherwise"])]
        if k in ("drop", "assert"):
            return [(k, t["target"])]
        if k == "call":
            return [("ret", t["target"])] if t["target"] is not None else []
        if k == "otherterm":
            return []
        return []

    def _thread(self, b):
        """Jump threading: `x = const c; goto t` where t is statement-free and switches on x
        resolves to the single feasible target of that switch."""
        t = self.blocks[b]["term"]
        if t["k"] != "goto":
            return None
        tb = self.blocks[t["target"]]
        if tb["stmts"] or tb["term"]["k"] != "switch":
            return None
        d = tb["term"]["discr"]
        if d["k"] not in ("copy", "move") or d["place"]["p"]:
            return None
        x = d["place"]["l"]
        val = None
        for s in self.blocks[b]["stmts"]:
            if s["k"] == "assign" and s["dst"]["l"] == x:
                if s["dst"]["p"]:
                    return None
                rv = s["rv"]
                if rv["k"] == "use" and rv["op"]["k"] == "const" and ("bool" in rv["op"] or "int" in rv["op"]):
                    val = int(rv["op"].get("bool", rv["op"].get("int")))
                else:
                    val = None
        if val is None:
            return None
        for v, tgt in tb["term"]["targets"]:
            if v == val:
                return tgt
        return tb["term"]["otherwise"]

    @property
    def succ(self):
        if self._succ is None:
            out = []
            for b in range(len(self.blocks)):
                th = self._thread(b)
                if th is not None:
                    out.append([th])
                else:
                    out.append(sorted(set(tb for _, tb in self.term_succ(b))))
            self._succ = out
        return self._succ

    @property
    def pred(self):
        if self._pred is None:
            p = [[] for _ in self.blocks]
            for b, ss in enumerate(self.succ):
                for s in ss:
                    p[s].append(b)
            self._pred = p
        return self._pred

    def reach_to(self, goal):
        """blocks from which `goal` is reachable (including goal)"""
        hit = self._reach.get(("to", goal))
        if hit is not None:
            return hit
        seen = {goal}
        st = [goal]
        while st:
            b = st.pop()
            for q in self.pred[b]:
                if q not in seen:
                    seen.add(q)
                    st.append(q)
        self._reach[("to", goal)] = seen
        return seen

    def reachable(self):
        hit = self._reach.get("all")
        if hit is not None:
            return hit
        seen = self._reachable()
        self._reach["all"] = seen
        return seen

    def _reachable(self):
        seen = {0}
        st = [0]
        while st:
            b = st.pop()
            for s in self.succ[b]:
                if s not in seen:
                    seen.add(s)
                    st.append(s)
        return seen

    def return_blocks(self):
        r = self.reachable()
        return [b for b in r if self.blocks[b]["term"]["k"] == "return"]

    def exit_blocks(self):
        """blocks with no successor (return, unreachable, diverging call)"""
        r = self.reachable()
        return [b for b in r if not self.succ[b]]

    @staticmethod
    def _dominators(n, entries, succ, pred, nodes):
        dom = {b: None for b in nodes}
        for e in entries:
            dom[e] = {e}
        allset = set(nodes)
        for b in nodes:
            if b not in entries:
                dom[b] = set(allset)
        changed = True
        order = sorted(nodes)
        while changed:
            changed = False
            for b in order:
                if b in entries:
                    continue
                ps = [dom[p] for p in pred[b] if p in dom]
                if ps:
                    new = set.intersection(*ps) | {b}
                else:
                    new = {b}
                if new != dom[b]:
                    dom[b] = new
                    changed = True
        return dom

    @property
    def dom(self):
        """dom[b] = set of blocks dominating b (over reachable, non-unwind CFG)."""
        if self._dom is None:
            nodes = self.reachable()
            pred = {b: [p for p in self.pred[b] if p in nodes] for b in nodes}
            self._dom = self._dominators(len(self.blocks), {0}, self.succ, pred, nodes)
        return self._dom

    @property
    def pdom(self):
        """pdom[b] = blocks post-dominating b w.r.t. *return* exits (paths that end in
        unreachable/diverging calls are ignored; a virtual exit joins all returns)."""
        if self._pdom is None:
            nodes = self.reachable()
            EXIT = -1
            rets = self.return_blocks()
            # reverse graph: pred_rev[b] = successors of b (+EXIT for returns)
            rpred = {b: list(self.succ[b]) for b in nodes}
            for r in rets:
                rpred[r] = rpred[r] + [EXIT]
            rpred[EXIT] = []
            nn = set(nodes) | {EXIT}
            # only nodes that can reach a return participate
            can = {EXIT}
            st = [EXIT]
            rsucc = defaultdict(list)
            for b in nodes:
                for s2 in rpred[b]:
                    rsucc[s2].append(b)
            while st:
                x = st.pop()
                for p in rsucc[x]:
                    if p not in can:
                        can.add(p)
                        st.append(p)
            rp = {b: [x for x in rpred[b] if x in can] for b in can}
            self._pdom = self._dominators(0, {EXIT}, None, rp, can)
        return self._pdom

    def dominates(self, a, b):
        return b in self.dom and a in self.dom[b]

    def postdominates(self, a, b):
        return b in self.pdom and a in self.pdom[b]

    def reach_from(self, start, avoid=frozenset(), include_start=False):
        """Blocks reachable from `start` (following successors) without entering blocks in `avoid`."""
        seen = set()
        st = [start]
        first = True
        while st:
            b = st.pop()
            if not first or include_start:
                if b in seen or b in avoid:
                    first = False
                    continue
                seen.add(b)
            first = False
            for s2 in self.succ[b]:
                if s2 not in seen and s2 not in avoid:
                    st.append(s2)
        return seen

    def can_reach_avoiding(self, start, goals, avoid):
        """Is there a path start ->* g (g in goals) that never passes a block in `avoid`?
        `start` itself is not tested against avoid; goals are tested before avoid."""
        goals = set(goals)
        if start in goals:
            return True
        seen = {start}
        st = [start]
        while st:
            b = st.pop()
            for s2 in self.succ[b]:
                if s2 in goals:
                    return True
                if s2 in seen or s2 in avoid:
                    continue
                seen.add(s2)
                st.append(s2)
        return False

    def back_edges(self):
        return [(b, s2) for b in self.reachable() for s2 in self.succ[b] if self.dominates(s2, b)]

    def loops(self):
        """Natural loops merged per header: {header: set(blocks)}."""
        res = {}
        for (b, h) in self.back_edges():
            body = res.setdefault(h, {h})
            st = [b]
            while st:
                x = st.pop()
                if x in body:
                    continue
                body.add(x)
                st.extend(self.pred[x])
        return res

    def sccs(self):
        """Strongly connected components with a cycle (covers irreducible flow too)."""
        nodes = sorted(self.reachable())
        index = {}
        low = {}
        onst = set()
        stack = []
        out = []
        counter = [0]
        import sys
        sys.setrecursionlimit(100000)

        def sc(v):
            index[v] = low[v] = counter[0]
            counter[0] += 1
            stack.append(v)
            onst.add(v)
            for w in self.succ[v]:
                if w not in index:
                    sc(w)
                    low[v] = min(low[v], low[w])
                elif w in onst:
                    low[v] = min(low[v], index[w])
            if low[v] == index[v]:
                comp = set()
                while True:
                    w = stack.pop()
                    onst.discard(w)
                    comp.add(w)
                    if w == v:
                        break
                if len(comp) > 1 or v in self.succ[v]:
                    out.append(comp)
        for v in nodes:
            if v not in index:
                sc(v)
        return out

    # ------------------------------------------------------------- statements / calls
    def calls(self):
        r = self.reachable()
        return [Site(self, b, self.blocks[b]["term"]) for b in sorted(r) if self.blocks[b]["term"]["k"] == "call"]

    def calls_to(self, *names, suffix=False):
        out = []
        for c in self.calls():
            for nm in names:
                tgt = c.target or ""
                cal = c.callee or ""
                if (suffix and (tgt.endswith(nm) or cal.endswith(nm))) or tgt == nm or cal == nm:
                    out.append(c)
                    break
        return out

    def stmts(self):
        """yield (bb, idx, stmt) for reachable blocks"""
        r = self.reachable()
        for b in sorted(r):
            for i, s in enumerate(self.blocks[b]["stmts"]):
                yield b, i, s

    # ------------------------------------------------------------- def-use
    @property
    def defs(self):
        """local -> list of definitions: ('assign', bb, idx, stmt) for whole-local assignments,
        ('call', bb, term) for call destinations, ('partial', bb, idx, stmt) for projected stores."""
        if self._defs is None:
            d = defaultdict(list)
            for b, i, s in self.stmts():
                if s["k"] in ("assign", "setdiscr"):
                    dst = s["dst"]
                    if not dst["p"]:
                        d[dst["l"]].append(("assign", b, i, s))
                    else:
                        d[dst["l"]].append(("partial", b, i, s))
            for c in self.calls():
                dst = c.t["dst"]
                d[dst["l"]].append(("call" if not dst["p"] else "partialcall", c.bb, c.t))
            self._defs = d
        return self._defs

    def local_name(self, l):
        return self.locals[l].get("name") or "_%d" % l

    def local_ty(self, l):
        return self.locals[l]["ty"]


# identity-like adapters: result has the same origin as the first argument
IDENTITY_CALLEES = {
    "core::ops::deref::Deref::deref", "core::ops::deref::DerefMut::deref_mut",
    "core::convert::AsRef::as_ref", "core::convert::AsMut::as_mut",
    "core::borrow::Borrow::borrow", "core::borrow::BorrowMut::borrow_mut",
    "alloc::string::String::as_str", "alloc::string::String::as_mut_str",
    "alloc::vec::Vec::as_slice", "alloc::vec::Vec::as_mut_slice",
    "core::convert::Into::into", "core::convert::From::from",
    "core::clone::Clone::clone",
    "core::option::Option::as_ref", "core::option::Option::as_mut", "core::option::Option::as_deref",
    "core::option::Option::as_deref_mut",
    "core::convert::identity",
    "core::iter::traits::collect::IntoIterator::into_iter",
    "core::ops::try_trait::Try::branch", "core::ops::try_trait::FromResidual::from_residual",
    "core::option::Option::unwrap", "core::option::Option::expect", "core::result::Result::unwrap",
    "core::result::Result::expect", "core::option::Option::cloned", "core::option::Option::copied",
    "core::str::<impl str>::as_bytes",
}


class Origins:
    """Flow-insensitive backward origin closure inside one body.

    Terminals: ('call', bb, target_name), ('const', rendered), ('param', i), ('upvar', k, name),
    ('agg', bb, idx, what), ('binop', op, bb, idx), ('discr', ..), ('other', text).
    Field projections on the way are collected into the `via` trail of the query but do not
    stop the closure (origin of `x.f` includes origin of `x`)."""

    def __init__(self, body, identity=IDENTITY_CALLEES, extra_identity=()):
        self.body = body
        self.identity = set(identity) | set(extra_identity)

    def of_operand(self, op, seen=None):
        if op["k"] == "const":
            return {self._const(op)}
        if op["k"] in ("copy", "move"):
            return self.of_place(op["place"], seen)
        return {("other", op.get("text", "?"))}

    @staticmethod
    def _const(op):
        for key in ("static", "enum_variant", "int", "bool", "char", "str", "bytes", "fn", "closure"):
            if key in op:
                v = op[key]
                if isinstance(v, list):
                    v = tuple(v)
                return ("const", key, v)
        return ("const", "text", op.get("text", op.get("ty")))

    def of_place(self, place, seen=None):
        if seen is None:
            seen = set()
        l = place["l"]
        body = self.body
        out = set()
        # closure upvar: _1.field(k) in a closure body
        if body.kind == "Closure" and l == 1:
            for pe in place["p"]:
                if pe["k"] == "field" and "closure" in pe:
                    ups = body.j.get("upvars", [])
                    k = pe["idx"]
                    nm = ups[k]["name"] if k < len(ups) else "?"
                    return {("upvar", k, nm)}
        if l in body.origin_alias:
            return {body.origin_alias[l]}
        if l in seen:
            return out
        seen = seen | {l}
        if 1 <= l <= body.arg_count:
            fld = [pe.get("name", str(pe.get("idx"))) for pe in place["p"] if pe["k"] == "field"]
            out.add(("param", l, ".".join(fld)))
        defs = body.defs.get(l, [])
        # field of an aggregate built in this body: look through to the operand stored in that field
        fproj = [(i, pe) for i, pe in enumerate(place["p"]) if pe["k"] == "field"]
        for d in defs:
            if d[0] == "assign":
                s = d[3]
                if s["k"] == "setdiscr":
                    out.add(("setdiscr", d[1], s["variant"]))
                    continue
                rv = s["rv"]
                if rv["k"] == "aggregate" and rv.get("agg") in ("tuple", "adt", "closure") and fproj and fproj[0][1]["idx"] < len(rv["ops"]) \
                        and all(pe["k"] in ("downcast", "deref") for pe in place["p"][:fproj[0][0]]):
                    op = rv["ops"][fproj[0][1]["idx"]]
                    rest = place["p"][fproj[0][0] + 1:]
                    if op["k"] in ("copy", "move"):
                        out |= self.of_place({"l": op["place"]["l"], "p": list(op["place"]["p"]) + list(rest)}, seen - {op["place"]["l"]})
                    else:
                        out |= self.of_operand(op, seen)
                    continue
                # a copy / move of another place keeps the projections still to be applied (`env = closure; env.2` is `closure.2`)
                if rv["k"] == "use" and rv["op"]["k"] in ("copy", "move") and fproj:
                    src = rv["op"]["place"]
                    out |= self.of_place({"l": src["l"], "p": list(src["p"]) + list(place["p"])}, seen - {src["l"]})
                    continue
                out |= self.of_rvalue(s["rv"], d[1], d[2], seen)
            elif d[0] == "partial":
                s = d[3]
                if s["k"] == "assign":
                    out |= self.of_rvalue(s["rv"], d[1], d[2], seen)
            elif d[0] in ("call", "partialcall"):
                t = d[2]
                tgt = norm(t.get("resolved") or t.get("callee"))
                cal = norm(t.get("callee"))
                if (cal in self.identity or tgt in self.identity) and t["args"]:
                    out |= self.of_operand(t["args"][0], seen)
                else:
                    out.add(("call", d[1], tgt or cal or "<fnptr>"))
        if not defs and not (1 <= l <= body.arg_count):
            if l == 0:
                out.add(("return-slot",))
            else:
                out.add(("undef", l))
        return out

    def of_rvalue(self, rv, bb, idx, seen):
        k = rv["k"]
        if k == "use":
            return self.of_operand(rv["op"], seen)
        if k in ("ref", "rawptr"):
            return self.of_place(rv["place"], seen)
        if k == "cast":
            return self.of_operand(rv["op"], seen)
        if k == "discr":
            return {("discr", bb, idx)} | self.of_place(rv["place"], seen)
        if k == "aggregate":
            what = rv.get("agg")
            if what == "adt":
                what = "adt:%s::%s" % (norm(rv["adt"]), rv["variant"])
            elif what == "closure":
                what = "closure:%s" % norm(rv["closure"])
            return {("agg", bb, idx, what)}
        if k == "binop":
            return {("binop", rv["op"], bb, idx)}
        if k == "unop":
            return {("unop", rv["op"], bb, idx)}
        if k == "repeat":
            return self.of_operand(rv["op"], seen)
        return {("other", rv.get("text", k))}


class Program:
    def __init__(self, facts_dir, files=None):
        self._virtual = {}
        self.dir = facts_dir
        self.crates = {}
        self.bodies = {}          # normalised path -> Body (bin crate bodies prefixed uniquely by rustc)
        self.by_raw = {}
        self.impls = []
        self.statics = []
        self.local_adts = {}
        self.adts = {}
        self.const_arrays = {}
        names = files or sorted(f for f in os.listdir(facts_dir) if f.endswith(".json") and f != "STAMP.json")
        for f in names:
            j = json.load(open(os.path.join(facts_dir, f)))
            tag = j["crate"] + (".bin" if j["is_bin"] else ".lib")
            self.crates[tag] = j
            counts = defaultdict(int)
            for bj in j["bodies"]:
                counts[norm(bj["path"])] += 1
            for bj in j["bodies"]:
                b = Body(bj, tag)
                key = b.npath
                if counts[key] > 1:
                    # distinct bodies with equal normalised path (impls differing only in generic args):
                    # keep the generic arguments, drop lifetimes
                    key = re.sub(r"'[a-z_]+,? ?", "", b.path).replace("<>", "")
                    b.npath = key
                if j["is_bin"]:
                    key = "bin:" + key
                    b.npath = key
                if key in self.bodies:
                    n = 2
                    while "%s#%d" % (key, n) in self.bodies:
                        n += 1
                    key = "%s#%d" % (key, n)
                    b.npath = key
                self.bodies[key] = b
                self.by_raw[(tag, b.path)] = b
            for im in j["impls"]:
                im["crate"] = tag
                self.impls.append(im)
            for st in j["statics"]:
                st["crate"] = tag
                self.statics.append(st)
            for a in j["local_adts"]:
                a["crate"] = tag
                key = norm(a["path"])
                n = 2
                while key in self.local_adts:
                    key = "%s#%d" % (norm(a["path"]), n)
                    n += 1
                self.local_adts[key] = a
            for a in j["adts"]:
                self.adts.setdefault(norm(a["path"]), a)
            for c in j["const_arrays"]:
                self.const_arrays[norm(c["path"])] = c
        # trait item -> impl items (for dyn expansion)
        self.trait_impls = defaultdict(list)
        for im in self.impls:
            for it in im["items"]:
                if it["trait_item"]:
                    self.trait_impls[norm(it["trait_item"])].append(norm(it["impl_item"]))
        self._callgraph = None

    # ----------------------------------------------------------- lookup
    def body(self, name):
        """exact normalised path; for `F::{closure#0}` that does not exist, the body of F's single element loop viewed as that closure"""
        b = self.bodies.get(name)
        if b is None and name and name.endswith("::{closure#0}"):
            if name not in self._virtual:
                parent = self.bodies.get(name[:-len("::{closure#0}")])
                self._virtual[name] = loop_as_closure(self, parent) if parent is not None else None
            return self._virtual[name]
        return b

    def inlined(self, name, keep=()):
        """the body `name` with single-use private helpers spliced in (see inline_single_use_helpers); None if the body does not exist"""
        b = self.body(name)
        if b is None:
            return None
        key = (name, tuple(sorted(keep)))
        if key not in self._virtual:
            self._virtual[key] = inline_single_use_helpers(self, b, keep)
        return self._virtual[key]

    def find(self, pattern):
        """bodies whose normalised path matches the regex (search)"""
        rx = re.compile(pattern)
        return [b for k, b in self.bodies.items() if rx.search(k)]

    def closures_of(self, root):
        return [b for b in self.bodies.values() if b.kind == "Closure" and b.root == root]

    def variant_of(self, adt, discr):
        a = self.adts.get(adt)
        if not a:
            return None
        for v in a["variants"]:
            if v["discr"] == discr:
                return v["name"]
        return None

    # ----------------------------------------------------------- call graph
    def callees_of_site(self, site):
        """Set of local body names a call site may enter (dyn expanded over local impls;
        closure/fn-item arguments are *not* followed here, see edges())."""
        t = site.t
        res = site.resolved
        out = set()
        if t.get("inst") == "virtual":
            for impl_item in self.trait_impls.get(site.callee, []):
                out.add(impl_item)
            return out
        if res:
            out.add(res)
            if t.get("shim_target"):
                out.add(norm(t["shim_target"]))
        elif site.callee:
            # unresolved trait call on a type parameter: expand over local impls (CHA)
            for impl_item in self.trait_impls.get(site.callee, []):
                out.add(impl_item)
            out.add(site.callee)
        return out

    def edges(self, body):
        """may-call edges: resolved callees + every closure constructed in the body + every fn
        item mentioned as a constant (a conservative treatment of higher-order flow)."""
        out = set()
        for c in body.calls():
            out |= self.callees_of_site(c)
            for a in c.args:
                if a["k"] == "const" and "fn" in a:
                    out.add(norm(a["fn"]))
        for _, _, s in body.stmts():
            if s["k"] != "assign":
                continue
            rv = s["rv"]
            if rv["k"] == "aggregate" and rv.get("agg") == "closure":
                out.add(norm(rv["closure"]))
            for op in _rv_operands(rv):
                if op["k"] == "const" and "fn" in op:
                    out.add(norm(op["fn"]))
                if op["k"] == "const" and "closure" in op:
                    out.add(norm(op["closure"]))
        # zero-capture closures appear as locals of closure type without an aggregate
        for lc in body.locals:
            if "closure" in lc and norm(lc["closure"]) != body.npath:
                out.add(norm(lc["closure"]))
        return out

    @property
    def callgraph(self):
        if self._callgraph is None:
            g = {}
            for k, b in self.bodies.items():
                es = set()
                for e in self.edges(b):
                    if e in self.bodies:
                        es.add(e)
                    elif "bin:" + e in self.bodies and b.npath.startswith("bin:"):
                        es.add("bin:" + e)
                g[k] = es
            self._callgraph = g
        return self._callgraph

    def reachable_from(self, roots):
        seen = set()
        st = [r for r in roots if r in self.bodies]
        while st:
            x = st.pop()
            if x in seen:
                continue
            seen.add(x)
            st.extend(self.callgraph.get(x, ()))
        return seen

    def call_sccs(self, within=None):
        g = self.callgraph
        nodes = sorted(within if within is not None else g.keys())
        nodeset = set(nodes)
        index, low, onst, stack, out = {}, {}, set(), [], []
        counter = [0]
        # iterative tarjan
        for root in nodes:
            if root in index:
                continue
            work = [(root, iter(sorted(x for x in g[root] if x in nodeset)))]
            index[root] = low[root] = counter[0]
            counter[0] += 1
            stack.append(root)
            onst.add(root)
            while work:
                v, it = work[-1]
                advanced = False
                for w in it:
                    if w not in index:
                        index[w] = low[w] = counter[0]
                        counter[0] += 1
                        stack.append(w)
                        onst.add(w)
                        work.append((w, iter(sorted(x for x in g[w] if x in nodeset))))
                        advanced = True
                        break
                    elif w in onst:
                        low[v] = min(low[v], index[w])
                if advanced:
                    continue
                work.pop()
                if work:
                    u = work[-1][0]
                    low[u] = min(low[u], low[v])
                if low[v] == index[v]:
                    comp = set()
                    while True:
                        w = stack.pop()
                        onst.discard(w)
                        comp.add(w)
                        if w == v:
                            break
                    if len(comp) > 1 or v in g[v]:
                        out.append(comp)
        return out

    # ----------------------------------------------------------- inventories
    def who_calls(self, *names, suffix=False, within=None, mentions=True):
        """call sites whose target/callee equals one of names (dyn-expanded callees included); with `mentions`, also the call sites that
        are handed one of the names as a function item (`iter.for_each(lowercase_keyword)`: the callee will call it)."""
        out = []
        for k, b in self.bodies.items():
            if within is not None and k not in within:
                continue
            for c in b.calls():
                tg = self.callees_of_site(c) | {c.callee}
                if mentions:
                    tg = tg | {norm(a["fn"]) for a in c.args if a["k"] == "const" and a.get("fn")}
                for nm in names:
                    if nm in tg or (suffix and any(x and x.endswith(nm) for x in tg)):
                        out.append(c)
                        break
        return out

    def field_accesses(self, adt, field, within=None, bodies=None):
        """(body, bb, idx|'term', 'read'|'write'|'ref'|'refmut', stmt_or_term) for every place mentioning adt.field
        (`bodies`: scan these Body objects — e.g. virtual bodies with helpers spliced in — instead of the program's)"""
        out = []
        for k, b in (self.bodies.items() if bodies is None else [(x.npath, x) for x in bodies]):
            if within is not None and k not in within:
                continue
            for bb, i, s in b.stmts():
                if s["k"] == "assign":
                    if _place_has_field(s["dst"], adt, field):
                        last = _last_field(s["dst"])
                        out.append((b, bb, i, "write" if last == (adt, field) else "write-inner", s))
                    rv = s["rv"]
                    if rv["k"] in ("ref", "rawptr") and _place_has_field(rv["place"], adt, field):
                        out.append((b, bb, i, "refmut" if rv["mut"] else "ref", s))
                    elif rv["k"] == "discr" and _place_has_field(rv["place"], adt, field):
                        out.append((b, bb, i, "read", s))
                    else:
                        for op in _rv_operands(rv):
                            if op["k"] in ("copy", "move") and _place_has_field(op["place"], adt, field):
                                out.append((b, bb, i, "read", s))
                elif s["k"] == "setdiscr" and _place_has_field(s["dst"], adt, field):
                    out.append((b, bb, i, "write", s))
            for bb in sorted(b.reachable()):
                t = b.blocks[bb]["term"]
                for op in _term_operands(t):
                    if op["k"] in ("copy", "move") and _place_has_field(op["place"], adt, field):
                        out.append((b, bb, "term", "read", t))
                if t["k"] == "call" and _place_has_field(t["dst"], adt, field):
                    out.append((b, bb, "term", "write", t))
                if t["k"] == "drop" and _place_has_field(t["place"], adt, field):
                    pass
        return out


def _place_has_field(place, adt, field):
    for pe in place["p"]:
        if pe["k"] == "field" and pe.get("name") == field and norm(pe.get("adt", "")) == adt:
            return True
    return False


def _last_field(place):
    for pe in reversed(place["p"]):
        if pe["k"] == "field":
            return (norm(pe.get("adt", "")), pe.get("name"))
        if pe["k"] in ("deref", "index", "constindex", "subslice", "downcast"):
            return None
    return None


def _rv_operands(rv):
    k = rv["k"]
    if k in ("use", "cast", "repeat"):
        return [rv["op"]]
    if k == "binop":
        return [rv["a"], rv["b"]]
    if k == "unop":
        return [rv["a"]]
    if k == "aggregate":
        return rv["ops"]
    return []


def _term_operands(t):
    k = t["k"]
    if k == "switch":
        return [t["discr"]]
    if k == "call":
        return [t["func"]] + t["args"]
    if k == "assert":
        return [t["cond"]] + t["ops"]
    return []


def place_str(body, place):
    s = body.local_name(place["l"])
    for pe in place["p"]:
        k = pe["k"]
        if k == "deref":
            s = "(*%s)" % s
        elif k == "field":
            s += "." + str(pe.get("name", pe.get("idx")))
        elif k == "index":
            s += "[%s]" % body.local_name(pe["local"])
        elif k == "downcast":
            s += " as %s" % pe.get("variant", pe.get("idx"))
        else:
            s += "{%s}" % k
    return s


def operand_str(body, op):
    if op["k"] == "const":
        for key in ("int", "bool", "char", "str", "fn", "closure"):
            if key in op:
                return "const %r" % (op[key],)
        return "const %s" % op.get("text", op.get("ty"))
    if op["k"] in ("copy", "move"):
        return place_str(body, op["place"])
    return "?"


def loop_as_closure(prog, body):
    """`for x in ITER { BODY }` viewed as `ITER.for_each(|x| BODY)`: a synthetic closure-like body made of the function's prologue and ONE
    iteration of its single outermost element loop (back edges lead to a return, the exhausted-iterator arm is unreachable, the
    initial values of loop-carried flags are forgotten).  Locals are named like a closure's parameters and captures:
    the element -> arg2, loop-carried bool flags / `&mut` parameters / self -> captures arg1.k (reported as upvars by Origins).
    Returns None unless the function has exactly one outermost loop driven by `Iterator::next`."""
    import copy
    loops = body.loops()
    outer = [(h, L) for h, L in loops.items() if not any(h in L2 and h2 != h for h2, L2 in loops.items())]
    if len(outer) != 1:
        return None
    h, L = outer[0]
    nx = [c for c in body.calls() if c.bb == h and (c.callee or "").endswith("Iterator::next")]
    if len(nx) != 1:
        return None
    sw = nx[0].t.get("target")
    if sw is None or body.blocks[sw]["term"]["k"] != "switch":
        return None
    t = body.blocks[sw]["term"]
    some = [tb for v, tb in t["targets"] if v == 1]
    none = [tb for v, tb in t["targets"] if v == 0]
    some_tgt = some[0] if some else t["otherwise"]
    j = copy.deepcopy(body.j)
    blocks = j["blocks"]
    R, U = len(blocks), len(blocks) + 1
    blocks.append({"stmts": [], "term": {"k": "return"}})
    blocks.append({"stmts": [], "term": {"k": "unreachable"}})

    def retarget(term, frm, to):
        if term.get("target") == frm:
            term["target"] = to
        if term["k"] == "switch":
            term["targets"] = [[v, (to if tb == frm else tb)] for v, tb in term["targets"]]
            if term["otherwise"] == frm:
                term["otherwise"] = to
    for bb in L:
        if bb != h and bb != sw:
            retarget(blocks[bb]["term"], h, R)
    # exhausted iterator: not part of an iteration
    swt = blocks[sw]["term"]
    for v, tb in list(swt["targets"]):
        if v == 0:
            retarget(swt, tb, U)
    if not none and some:
        swt["otherwise"] = U
    # loop-carried bool flags: defined both outside and inside the loop
    flags = []
    for i, lc in enumerate(body.locals):
        if lc.get("ty") == "bool":
            ds = [d for d in body.defs.get(i, []) if d[0] == "assign"]
            if any(d[1] in L for d in ds) and any(d[1] not in L for d in ds):
                flags.append(i)
    for bb in range(len(body.blocks)):
        if bb not in L:
            blocks[bb]["stmts"] = [st for st in blocks[bb]["stmts"] if not (st.get("k") == "assign" and not st["dst"]["p"] and st["dst"]["l"] in flags)]
    j["path"] = body.path + "::{closure#0}"
    j["kind"] = "Closure"
    j["root"] = body.path
    j["parent"] = body.path
    ups = []
    alias, oalias = {}, {}
    for f in flags:
        nm = body.locals[f].get("name") or "flag"
        alias[f] = "arg1.%d" % len(ups)
        oalias[f] = ("upvar", len(ups), nm)
        ups.append({"name": nm, "by_ref": True, "mutable": True, "ty": "bool"})
    for p in range(1, body.arg_count + 1):
        nm = body.locals[p].get("name") or ("self" if p == 1 else "arg%d" % p)
        alias[p] = "arg1.%d" % len(ups)
        oalias[p] = ("upvar", len(ups), nm)
        ups.append({"name": nm, "by_ref": True, "mutable": body.locals[p]["ty"].startswith("&mut"), "ty": body.locals[p]["ty"]})
    j["upvars"] = ups
    j["arg_count"] = 0
    v = Body(j, body.crate)
    # the element: the local that receives the payload of `next()`'s Some
    opt = nx[0].t["dst"]["l"]
    for st in body.blocks[some_tgt]["stmts"]:
        if st.get("k") == "assign" and not st["dst"]["p"] and st["rv"]["k"] == "use" and st["rv"]["op"]["k"] in ("copy", "move"):
            pl = st["rv"]["op"]["place"]
            ks = [pe["k"] for pe in pl["p"]]
            if pl["l"] == opt and ks == ["downcast", "field"]:
                alias[st["dst"]["l"]] = "arg2"
                oalias[st["dst"]["l"]] = ("param", 2, "")
            elif pl["l"] == opt and ks == ["downcast", "field", "field"]:
                # the element tuple is destructured in place: `for (a, b) in ..`
                alias[st["dst"]["l"]] = "arg2.%s" % pl["p"][2]["idx"]
                oalias[st["dst"]["l"]] = ("param", 2, str(pl["p"][2]["idx"]))
    if not any(a == "arg2" or a.startswith("arg2.") for a in alias.values()):
        return None
    v.alias = alias
    v.origin_alias = oalias
    v.iteration_start = some_tgt
    v.virtual_of = body.npath
    return v


def _renumber(x, loff, boff, ret_local):
    """deep copy of a MIR fragment (statement / terminator / operand / place) with locals and block ids shifted"""
    if isinstance(x, list):
        return [_renumber(y, loff, boff, ret_local) for y in x]
    if not isinstance(x, dict):
        return x
    out = {}
    for k, v in x.items():
        if k == "l" and isinstance(v, int):
            out[k] = ret_local if v == 0 else v + loff
        elif k == "local" and isinstance(v, int):
            out[k] = ret_local if v == 0 else v + loff
        elif k in ("target", "otherwise", "cleanup") and isinstance(v, int):
            out[k] = v + boff
        elif k == "targets" and isinstance(v, list):
            out[k] = [[a, b + boff] for a, b in v]
        else:
            out[k] = _renumber(v, loff, boff, ret_local)
    return out


COMBINATORS = {
    # callee -> (adt, variant whose payload is handed to the closure, its discriminant, the other variant, does the other variant carry a payload)
    "core::result::Result::and_then": ("core::result::Result", "Ok", 0, "Err", True),
    "core::option::Option::and_then": ("core::option::Option", "Some", 1, "None", False),
}


def _devirtualise_and_then(prog, cur):
    """`x.and_then(closure)` where the closure is built in this body: replaced by `match x { Ok(v) => <closure body with v>, Err(e) =>
    Err(e) }` (Option alike), so that what the closure calls is visible to the rules as part of this body.  Returns a new Body or None."""
    import copy
    for c in cur.calls():
        spec = COMBINATORS.get(c.callee or "")
        if spec is None or len(c.args) != 2 or c.t.get("target") is None or c.t["dst"]["p"]:
            continue
        a0, a1 = c.args
        if a0["k"] not in ("copy", "move") or a1["k"] not in ("copy", "move") or a0["place"]["p"] or a1["place"]["p"]:
            continue
        clos = cur.locals[a1["place"]["l"]].get("closure")
        cb = prog.bodies.get(norm(clos)) if clos else None
        if cb is None or cb.kind != "Closure" or cb.arg_count != 2 or cb.loops() is None:
            continue
        adt, okv, okd, otherv, other_payload = spec
        j = copy.deepcopy(cur.j)
        loff, boff = len(j["locals"]), len(j["blocks"])
        ret_local = loff
        j["locals"] = j["locals"] + copy.deepcopy(cb.j["locals"])
        dl = len(j["locals"])
        j["locals"].append({"ty": "isize", "name": None})
        new_blocks = []
        for blk in cb.j["blocks"]:
            nb = _renumber(blk, loff, boff, ret_local)
            if nb["term"]["k"] == "return":
                nb["stmts"] = nb["stmts"] + [{"k": "assign", "dst": copy.deepcopy(c.t["dst"]), "rv": {"k": "use", "op": {"k": "move", "place": {"l": ret_local, "p": []}}}, "line": c.t.get("line", 0)}]
                nb["term"] = {"k": "goto", "target": c.t["target"]}
            new_blocks.append(nb)
        line = c.t.get("line", 0)
        payload = {"l": a0["place"]["l"], "p": [{"k": "downcast", "idx": okd, "variant": okv, "adt": adt}, {"k": "field", "idx": 0, "ty": cb.j["locals"][2].get("ty"), "adt": adt, "variant": okv, "name": "0"}]}
        bind = {"stmts": [{"k": "assign", "dst": {"l": loff + 1, "p": []}, "rv": {"k": "use", "op": copy.deepcopy(a1)}, "line": line},
                          {"k": "assign", "dst": {"l": loff + 2, "p": []}, "rv": {"k": "use", "op": {"k": "move", "place": payload}}, "line": line}],
                "term": {"k": "goto", "target": boff}}
        if other_payload:
            ops = [{"k": "move", "place": {"l": a0["place"]["l"], "p": [{"k": "downcast", "idx": 1 - okd, "variant": otherv, "adt": adt}, {"k": "field", "idx": 0, "ty": "?", "adt": adt, "variant": otherv, "name": "0"}]}}]
            fields = ["0"]
        else:
            ops, fields = [], []
        other = {"stmts": [{"k": "assign", "dst": copy.deepcopy(c.t["dst"]), "rv": {"k": "aggregate", "agg": "adt", "adt": adt, "variant": otherv, "fields": fields, "ops": ops}, "line": line}],
                 "term": {"k": "goto", "target": c.t["target"]}}
        B, E = boff + len(new_blocks), boff + len(new_blocks) + 1
        j["blocks"] = j["blocks"] + new_blocks + [bind, other]
        blk = j["blocks"][c.bb]
        blk["stmts"] = blk["stmts"] + [{"k": "assign", "dst": {"l": dl, "p": []}, "rv": {"k": "discr", "place": {"l": a0["place"]["l"], "p": []}, "adt": adt}, "line": line}]
        blk["term"] = {"k": "switch", "discr": {"k": "move", "place": {"l": dl, "p": []}}, "targets": [[okd, B]], "otherwise": E}
        nb = Body(j, cur.crate)
        nb.alias, nb.origin_alias, nb.iteration_start = dict(cur.alias), dict(cur.origin_alias), cur.iteration_start
        nb.inlined = getattr(cur, "inlined", []) + [cb.npath]
        return nb
    return None


def inline_single_use_helpers(prog, body, keep=(), max_rounds=3):
    """Body in which every direct call of a workspace function that (a) has this call as its ONLY call site in the workspace, (b) is not
    named in `keep` and (c) is not recursive is replaced by the callee's blocks (parameters bound by assignments, the return slot
    copied into the call's destination).  An extracted private helper thus reads like the code before the extraction, and dominance,
    origin and order rules apply across it.  Returns `body` itself when nothing qualifies."""
    import copy
    keep = set(keep)
    j = None
    cur = body
    for _ in range(max_rounds + 2):
        dv = _devirtualise_and_then(prog, cur)
        if dv is not None:
            cur = dv
            continue
        cand = None
        for c in cur.calls():
            tgt = c.target
            cb = prog.bodies.get(tgt) if tgt else None
            if cb is None or cb.crate != cur.crate:
                continue
            if tgt in keep or tgt.split("::")[-1] in keep or tgt == cur.npath or cb.kind == "Closure":
                continue
            if len(prog.who_calls(tgt)) != 1 or c.t.get("target") is None or c.t["dst"]["p"]:
                continue
            if any((x.target == tgt) for x in cb.calls()):
                continue
            cand = (c, cb)
            break
        if cand is None:
            break
        c, cb = cand
        j = copy.deepcopy(cur.j)
        loff, boff = len(j["locals"]), len(j["blocks"])
        ret_local = loff            # callee's _0
        j["locals"] = j["locals"] + copy.deepcopy(cb.j["locals"])
        new_blocks = []
        for blk in cb.j["blocks"]:
            nb = _renumber(blk, loff, boff, ret_local)
            if nb["term"]["k"] == "return":
                nb["stmts"] = nb["stmts"] + [{"k": "assign", "dst": copy.deepcopy(c.t["dst"]), "rv": {"k": "use", "op": {"k": "move", "place": {"l": ret_local, "p": []}}}, "line": c.t.get("line", 0)}]
                nb["term"] = {"k": "goto", "target": c.t["target"]}
            new_blocks.append(nb)
        # binding block
        bind = {"stmts": [], "term": {"k": "goto", "target": boff}}
        for i, a in enumerate(c.t["args"]):
            bind["stmts"].append({"k": "assign", "dst": {"l": loff + 1 + i, "p": []}, "rv": {"k": "use", "op": copy.deepcopy(a)}, "line": c.t.get("line", 0)})
        j["blocks"] = j["blocks"] + new_blocks + [bind]
        j["blocks"][c.bb]["term"] = {"k": "goto", "target": boff + len(new_blocks)}
        nb = Body(j, cur.crate)
        nb.alias, nb.origin_alias, nb.iteration_start = dict(cur.alias), dict(cur.origin_alias), cur.iteration_start
        nb.inlined = getattr(cur, "inlined", []) + [cb.npath]
        cur = nb
    return cur
