"""Developer aid: pretty-print extracted MIR bodies.  usage: show.py <regex> [config]"""
import sys
import os
sys.path.insert(0, os.path.dirname(os.path.abspath(__file__)))
from facts import Program, place_str, operand_str, norm
import extract


def rv_str(b, rv):
    k = rv["k"]
    if k == "use":
        return operand_str(b, rv["op"])
    if k in ("ref", "rawptr"):
        return ("&mut " if rv["mut"] else "&") + place_str(b, rv["place"])
    if k == "cast":
        return "%s as %s [%s]" % (operand_str(b, rv["op"]), rv["ty"], rv["cast"])
    if k == "binop":
        return "%s(%s, %s)" % (rv["op"], operand_str(b, rv["a"]), operand_str(b, rv["b"]))
    if k == "unop":
        return "%s(%s)" % (rv["op"], operand_str(b, rv["a"]))
    if k == "discr":
        return "discriminant(%s) [%s]" % (place_str(b, rv["place"]), norm(rv.get("adt", "?")))
    if k == "aggregate":
        what = rv.get("agg")
        if what == "adt":
            what = "%s::%s" % (norm(rv["adt"]), rv["variant"])
        elif what == "closure":
            what = "closure %s" % norm(rv["closure"])
        return "%s{%s}" % (what, ", ".join(operand_str(b, o) for o in rv["ops"]))
    return rv.get("text", k)


def show(b, prog=None):
    print("=" * 100)
    print("%s  [%s] %s:%d  args=%d" % (b.npath, b.kind, b.file, b.line, b.arg_count))
    if b.j.get("upvars"):
        print("  upvars:", [(u["name"], "ref" if u["by_ref"] else "val") for u in b.j["upvars"]])
    for i, l in enumerate(b.locals):
        if l.get("name") or i <= b.arg_count:
            print("  _%d %s: %s" % (i, l.get("name", ""), l["ty"]))
    r = b.reachable()
    for bb, blk in enumerate(b.blocks):
        if bb not in r:
            continue
        print(" bb%d:" % bb)
        for s in blk["stmts"]:
            if s["k"] == "assign":
                print("    %s = %s    // L%s" % (place_str(b, s["dst"]), rv_str(b, s["rv"]), s.get("line")))
            elif s["k"] == "setdiscr":
                print("    discriminant(%s) = %s" % (place_str(b, s["dst"]), s["variant"]))
            else:
                print("    %s" % s)
        t = blk["term"]
        k = t["k"]
        if k == "call":
            print("    %s = CALL %s(%s) -> bb%s   [decl %s, %s] // L%s" % (
                place_str(b, t["dst"]), norm(t.get("resolved") or t.get("callee") or "<ptr>"),
                ", ".join(operand_str(b, a) for a in t["args"]), t["target"], norm(t.get("callee")), t.get("inst"), t.get("line")))
        elif k == "switch":
            print("    SWITCH %s -> %s otherwise bb%d // L%s" % (operand_str(b, t["discr"]), ["%s:bb%d" % (v, x) for v, x in t["targets"]], t["otherwise"], t.get("line")))
        elif k == "assert":
            print("    ASSERT %s == %s [%s](%s) -> bb%d // L%s" % (operand_str(b, t["cond"]), t["expected"], t["msg"], ", ".join(operand_str(b, o) for o in t["ops"]), t["target"], t.get("line")))
        elif k == "drop":
            print("    DROP %s -> bb%d" % (place_str(b, t["place"]), t["target"]))
        elif k == "goto":
            print("    GOTO bb%d" % t["target"])
        else:
            print("    %s" % k.upper())


if __name__ == "__main__":
    cfg = sys.argv[2] if len(sys.argv) > 2 else "default"
    d, _ = extract.extract(cfg, quiet=True)
    p = Program(d)
    for b in p.find(sys.argv[1]):
        show(b, p)
