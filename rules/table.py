"""TABLE engine: decision table of a loop-free classifier body.

Enumerates every entry->return path of the CFG (static path enumeration, no execution), tracking
  * constants assigned to locals (so that `matches!` lowering through a temporary bool is resolved),
  * discriminant tests on canonicalised places -> constraints  place in {variants} / place not in {..},
  * opaque conditions (results of calls, comparisons of non-constants) -> constraints ('cond', desc, value).
Each path yields (constraints, result) where result is a rendered value of the return place.
Infeasible combinations of discriminant constraints on the same place are pruned.
"""
from facts import norm, place_str


class TooComplex(Exception):
    pass


class Val:
    """abstract value"""
    __slots__ = ("kind", "a")

    def __init__(self, kind, a=None):
        self.kind = kind      # const | discr | agg | sym | place
        self.a = a

    def __repr__(self):
        return "%s(%r)" % (self.kind, self.a)


class ClosureSym(str):
    """the text `closure` (what a closure value has always looked like in keys and renderings) that also knows which closure it is and
    what it captured, so that `opt.and_then(closure)` / `.filter(closure)` / `.is_some_and(closure)` can be expanded"""
    def __new__(cls, path, fields):
        o = super().__new__(cls, "closure")
        o.path = path
        o.fields = fields
        return o


def canon_place(body, place, env_alias, depth=0):
    """Canonical textual name of a place: root local replaced by what it aliases."""
    l = place["l"]
    base = canon_local(body, l, env_alias, depth)
    s = base
    proj = place["p"]
    # `(_t.0)` of `_t = AddWithOverflow(a, b)` is just `Add(a,b)`: keeps names equal between
    # builds with and without overflow checks
    if proj and proj[0]["k"] == "field" and proj[0].get("tuple") and proj[0]["idx"] == 0:
        defs = [d for d in body.defs.get(l, []) if d[0] in ("assign", "call")]
        if len(defs) == 1 and defs[0][0] == "assign" and defs[0][3]["k"] == "assign" \
                and defs[0][3]["rv"]["k"] == "binop" and defs[0][3]["rv"]["op"].endswith("WithOverflow"):
            proj = proj[1:]
    for pe in proj:
        k = pe["k"]
        if k == "deref":
            continue  # auto-deref is irrelevant for identity of the tested value
        elif k == "field":
            s += "." + str(pe.get("name", pe.get("idx")))
        elif k == "downcast":
            s += "@" + str(pe.get("variant", pe.get("idx")))
        elif k == "index":
            s += "[%s]" % canon_local(body, pe["local"], env_alias, depth + 1)
        else:
            s += "{%s}" % k
    return s


def canon_local(body, l, env_alias, depth=0):
    """Stable textual identity of a local: what it was computed from.  Never mentions MIR local
    numbers (they change with unrelated edits): multi-definition locals are named by their source
    variable name, anonymous ones by `tmp`."""
    nm = body.locals[l].get("name")
    if depth > 12:
        return "var:" + nm if nm else "tmp"
    if l in env_alias:
        return env_alias[l]
    if l in getattr(body, "alias", {}):
        return body.alias[l]
    if 1 <= l <= body.arg_count:
        return "arg%d" % l
    defs = [d for d in body.defs.get(l, []) if d[0] in ("assign", "call")]
    if len(defs) == 1:
        d = defs[0]
        if d[0] == "assign" and d[3]["k"] == "assign":
            rv = d[3]["rv"]
            k = rv["k"]
            if k == "use":
                return canon_operand(body, rv["op"], env_alias, depth + 1)
            if k in ("ref", "rawptr"):
                return canon_place(body, rv["place"], env_alias, depth + 1)
            if k == "cast":
                return canon_operand(body, rv["op"], env_alias, depth + 1)
            if k == "binop":
                op = rv["op"].replace("WithOverflow", "")
                return "%s(%s,%s)" % (op, canon_operand(body, rv["a"], env_alias, depth + 1), canon_operand(body, rv["b"], env_alias, depth + 1))
            if k == "unop":
                return "%s(%s)" % (rv["op"], canon_operand(body, rv["a"], env_alias, depth + 1))
            if k == "aggregate":
                what = rv.get("agg")
                if what == "adt":
                    what = norm(rv["adt"]).split("::")[-1]
                    if rv.get("variant") and rv["variant"] != what:
                        what += "::" + rv["variant"]
                elif what == "closure":
                    what = "closure"
                return "%s{%s}" % (what, ",".join(canon_operand(body, o, env_alias, depth + 1) for o in rv["ops"]))
            if k == "discr":
                return "discr(%s)" % canon_place(body, rv["place"], env_alias, depth + 1)
        if d[0] == "call":
            t = d[2]
            fn = norm(t.get("resolved") or t.get("callee") or "<fnptr>")
            args = [canon_operand(body, a, env_alias, depth + 1) for a in t["args"]]
            short = fn.split("::")[-1]
            return "%s(%s)" % (short, ",".join(args))
    return "var:" + nm if nm else "tmp"


def canon_operand(body, op, env_alias, depth=0):
    if op["k"] in ("copy", "move"):
        return canon_place(body, op["place"], env_alias, depth)
    return render_const(op)


def render_const(op):
    if "static" in op:
        return "static:" + norm(op["static"])
    if "enum_variant" in op:
        return "&" + op["enum_variant"]
    for key in ("int", "bool", "char", "str"):
        if key in op:
            return repr(op[key])
    if "fn" in op:
        return "fn:" + norm(op["fn"]).split("::")[-1]
    if "bytes" in op:
        return "b" + repr("".join(chr(x) for x in op["bytes"]))
    return op.get("text", "?")


class Table:
    def __init__(self, prog, body, max_paths=50000, inline=0, _stack=(), start=0, stop=(), state=(), opaque=(), only=None):
        """inline = n: calls of small loop-free functions / closures of the workspace are expanded up to n levels deep (their rows are
        multiplied into the caller's paths, with the callee's parameters replaced by the caller's arguments); `bool::then_some` and
        derived `PartialEq::eq` against an enum constant are modelled.  inline = 0 keeps every call opaque (the default)."""
        self.prog = prog
        self.body = body
        self.max_paths = max_paths
        self.inline = inline or 0
        self.opaque = tuple(opaque)      # short names of callees that are never expanded (the classified inputs of a table)
        self.only = tuple(only) if only is not None else None     # if given: the only callees (short names) that are expanded
        self._stack = _stack + (body.npath,)
        # region tables: paths begin at block `start` and end at a return or on reaching a block in `stop` (e.g. a loop header: one
        # iteration of the loop body); the result of such a path is the tuple of the values of the locals listed in `state`
        self.start = start if start else getattr(body, "iteration_start", 0)
        self.stop = set(stop)
        self.state = list(state)
        self.rows = []        # (constraints list, result)
        self.effects = []     # parallel to rows: [(canonical place, Val)] stores through references / upvars on that path
        self.calls = []       # parallel to rows: [(callee, [argument descriptions])] in path order
        self.ends = []        # parallel to rows: the block of `stop` the path ended in (None: it returned)
        self._mem = {}
        self._run()

    # ---- value rendering
    def val_of_operand(self, op, env):
        if op["k"] == "const":
            if "bool" in op:
                return Val("const", bool(op["bool"]))
            if "int" in op:
                return Val("const", int(op["int"]))
            if "char" in op:
                return Val("const", ("char", op["char"]))
            if "str" in op:
                return Val("const", ("str", op["str"]))
            if "fn" in op:
                return Val("const", ("fn", norm(op["fn"])))
            if "static" in op:
                return Val("sym", "static:" + norm(op["static"]))          # (a reference to a static: named, not by its allocation id)
            return Val("sym", op.get("text", "?"))
        pl = op["place"]
        if pl["l"] in env and all(pe["k"] == "deref" for pe in pl["p"]):
            return env[pl["l"]]
        if pl["p"]:
            key = canon_place(self.body, pl, {})
            if ("mem", key) in env:
                return env[("mem", key)]
        # `.0` of a checked arithmetic result computed on this path: the sum / difference / product itself
        if pl["l"] in env and env[pl["l"]].kind == "bin" and len(pl["p"]) == 1 and pl["p"][0]["k"] == "field" and pl["p"][0]["idx"] == 0 \
                and str(env[pl["l"]].a[0]).endswith("WithOverflow"):
            op_, a_, b_ = env[pl["l"]].a
            op_ = op_.replace("WithOverflow", "")
            ints = [x for x in (a_, b_) if x.kind == "const" and isinstance(x.a, int) and not isinstance(x.a, bool)]
            if len(ints) == 2:
                return Val("const", {"Add": a_.a + b_.a, "Sub": a_.a - b_.a, "Mul": a_.a * b_.a}.get(op_, 0)) if op_ in ("Add", "Sub", "Mul") else Val("bin", (op_, a_, b_))
            if op_ == "Add" and ints and ints[0].a == 0:
                return b_ if ints[0] is a_ else a_
            return Val("bin", (op_, a_, b_))
        # field of a known aggregate
        if pl["l"] in env and env[pl["l"]].kind == "agg":
            v = env[pl["l"]]
            for pe in pl["p"]:
                if pe["k"] == "field" and v.kind == "agg" and pe["idx"] < len(v.a[2]):
                    v = v.a[2][pe["idx"]]
                elif pe["k"] in ("downcast", "deref"):
                    continue
                else:
                    v = None
                    break
            if v is not None:
                return v
        return Val("place", canon_place(self.body, pl, self._alias(pl, env)))

    def _alias(self, pl, env):
        """name the base local by what this path knows about it (an inlined call result keeps one name whether it is tested as a whole or through a projection)"""
        ev = env.get(pl["l"])
        if ev is not None and ev.kind in ("call", "place", "discr"):
            return {pl["l"]: self._raw(ev)}
        return {}

    # ---- call models (only with inline > 0)
    @staticmethod
    def _raw(v):
        """canonical text of a value as it would appear inside a constraint key"""
        if v.kind == "place":
            return v.a
        if v.kind == "call":
            return v.a[1]
        if v.kind == "discr":
            return v.a[0]
        return vdesc(v)

    def _subst_text(self, text, args):
        import re as _re

        def rep(m):
            i = int(m.group(1))
            if not 1 <= i <= len(args):
                return m.group(0)
            v = args[i - 1]
            rest = [x for x in m.group(2).split(".") if x]
            # `argN.k` where the argument is a tuple / struct built by the caller: the k-th component itself
            while rest and v.kind == "agg" and int(rest[0]) < len(v.a[2]):
                v = v.a[2][int(rest[0])]
                rest = rest[1:]
            return self._raw(v) + "".join("." + x for x in rest)
        return _re.sub(r"\barg(\d+)\b((?:\.\d+\b)*)", rep, text)

    def _subst_val(self, v, args):
        if v.kind == "const":
            return v
        if v.kind == "place":
            m = __import__("re").match(r"^arg(\d+)$", v.a)
            if m and 1 <= int(m.group(1)) <= len(args):
                return args[int(m.group(1)) - 1]
            return Val("place", self._subst_text(v.a, args))
        if v.kind == "agg":
            return Val("agg", (v.a[0], v.a[1], [self._subst_val(x, args) for x in v.a[2]]))
        if v.kind == "call":
            return Val("call", (v.a[0], self._subst_text(v.a[1], args)))
        if v.kind == "discr":
            return Val("discr", (self._subst_text(v.a[0], args), v.a[1]))
        if v.kind == "bin":
            return Val("bin", (v.a[0], self._subst_val(v.a[1], args), self._subst_val(v.a[2], args)))
        if v.kind == "sym":
            return Val("sym", self._subst_text(str(v.a), args))
        return v

    def _model_call(self, nm, args, t):
        """[(extra constraints, result value, effects, calls)] alternatives for a call, or None to keep it opaque"""
        short = nm.split("::")[-1]
        # bool::then_some(c, v)
        if short == "then_some" and "bool" in nm and len(args) == 2:
            c, v = args
            some = Val("agg", ("core::option::Option", "Some", [v]))
            none = Val("agg", ("core::option::Option", "None", []))
            if c.kind == "const" and isinstance(c.a, bool):
                return [([], some if c.a else none, (), ())]
            d = vdesc(c)
            return [([("cond", d, ("not", 0))], some, (), ()), ([("cond", d, 0)], none, (), ())]
        # derived PartialEq::eq against a unit enum constant
        def const_variant(op, depth=0):
            if op["k"] == "const":
                return op.get("enum_variant")
            if depth > 5 or op["place"]["p"] and any(pe["k"] != "deref" for pe in op["place"]["p"]):
                return None
            ds = [d for d in self.body.defs.get(op["place"]["l"], []) if d[0] in ("assign", "call")]
            if len(ds) == 1 and ds[0][0] == "assign" and ds[0][3]["k"] == "assign":
                rv = ds[0][3]["rv"]
                if rv["k"] in ("use", "cast"):
                    return const_variant(rv["op"], depth + 1)
                if rv["k"] == "ref":
                    return const_variant({"k": "copy", "place": rv["place"]}, depth + 1)
            return None
        def const_enum_adt(op, depth=0):
            if op["k"] == "const":
                return norm(op.get("enum_adt") or op.get("adt") or "") or None
            if depth > 5 or op["place"]["p"] and any(pe["k"] != "deref" for pe in op["place"]["p"]):
                return None
            ds = [d for d in self.body.defs.get(op["place"]["l"], []) if d[0] in ("assign", "call")]
            if len(ds) == 1 and ds[0][0] == "assign" and ds[0][3]["k"] == "assign":
                rv = ds[0][3]["rv"]
                if rv["k"] in ("use", "cast"):
                    return const_enum_adt(rv["op"], depth + 1)
                if rv["k"] == "ref":
                    return const_enum_adt({"k": "copy", "place": rv["place"]}, depth + 1)
            return None
        cv = const_variant(t["args"][1]) if short in ("eq", "ne") and len(t["args"]) == 2 else None
        if cv:
            key = self._raw(args[0])
            var = cv.split("::")[-1]
            yes, no = Val("const", short == "eq"), Val("const", short != "eq")
            # the compared value is known on this path: decide now.  The constant is recorded by its innermost variant and that
            # variant's enum (`TokenType::Keyword(KeywordKind::Asm)` -> Asm of KeywordKind)
            cadt = const_enum_adt(t["args"][1])
            v0 = args[0]
            depth0 = 0
            while v0.kind == "agg" and depth0 < 4:
                if cadt and norm(str(v0.a[0])) == cadt:
                    return [([], yes if v0.a[1] == var else no, (), ())]
                if not v0.a[2]:
                    if cadt:
                        return [([], no, (), ())]          # a unit variant of an outer enum is not a value that wraps `var`
                    break
                v0 = v0.a[2][0]
                depth0 += 1
            return [([("is", key, var)], yes, (), ()), ([("not", key, (var,))], no, (), ())]
        # `?` on a value whose variant is known on this path
        if short == "branch" and "try_trait::Try" in nm and len(args) == 1 and args[0].kind == "agg" and args[0].a[1] in ("Ok", "Err", "Some", "None"):
            a0 = args[0]
            CF = "core::ops::control_flow::ControlFlow"
            if a0.a[1] in ("Ok", "Some"):
                return [([], Val("agg", (CF, "Continue", list(a0.a[2][:1]))), (), ())]
            return [([], Val("agg", (CF, "Break", [a0])), (), ())]
        # the error arm of `?`: from_residual builds the Err (None) that is returned
        if short == "from_residual" and len(args) == 1:
            dty = str(t.get("dst_ty", ""))
            if "Result<" in dty or dty.startswith("core::result::Result") or "anyhow" in dty:
                return [([], Val("agg", ("core::result::Result", "Err", [args[0]])), (), ())]
            if dty.startswith("core::option::Option"):
                return [([], Val("agg", ("core::option::Option", "None", [])), (), ())]
        if nm in ("core::option::Option::is_some", "core::option::Option::is_none") and len(args) == 1:
            a0 = args[0]
            yes = nm.endswith("is_some")
            if a0.kind == "agg" and a0.a[1] in ("Some", "None"):
                return [([], Val("const", (a0.a[1] == "Some") == yes), (), ())]
            key = self._raw(a0)
            return [([("is", key, "Some")], Val("const", yes), (), ()), ([("is", key, "None")], Val("const", not yes), (), ())]
        # Option::map(opt, f) / Option::ok_or(opt, e) / Option::ok_or_else(opt, f): by the variant of the option (split when it is not known)
        if nm.startswith("core::option::Option::") and short in ("map", "ok_or", "ok_or_else") and len(args) == 2:
            a0, f = args
            OPT, RES = "core::option::Option", "core::result::Result"

            def apply(v):
                if f.kind == "const" and isinstance(f.a, tuple) and f.a[0] == "fn":
                    path = f.a[1]
                    adt, _, var = path.rpartition("::")
                    info = self.prog.adts.get(adt)
                    if info and any(x["name"] == var for x in info["variants"]):
                        return Val("agg", (adt, var, [v]))             # a tuple-variant constructor used as a function
                    return Val("call", (path, "%s(%s)" % (path.split("::")[-1], vdesc(v))))
                return Val("call", ("closure", "closure(%s)" % vdesc(v)))

            def some_arm(v):
                if short == "map":
                    return Val("agg", (OPT, "Some", [apply(v)]))
                return Val("agg", (RES, "Ok", [v]))

            def none_arm():
                if short == "map":
                    return Val("agg", (OPT, "None", []))
                return Val("agg", (RES, "Err", [f if short == "ok_or" else Val("call", ("closure", "closure()"))]))
            if a0.kind == "agg" and a0.a[1] in ("Some", "None"):
                return [([], some_arm(a0.a[2][0]) if a0.a[1] == "Some" else none_arm(), (), ())]
            key = self._raw(a0)
            return [([("is", key, "Some")], some_arm(Val("place", key + "@Some.0")), (), ()), ([("is", key, "None")], none_arm(), (), ())]
        # Option::and_then / filter / is_some_and / is_none_or with a closure of the workspace: by the variant of the option, the Some arm
        # through the closure's own decision table (its captured values and its argument substituted)
        if nm.startswith("core::option::Option::") and short in ("and_then", "filter", "is_some_and", "is_none_or") and len(args) == 2 \
                and args[1].kind == "sym" and isinstance(args[1].a, ClosureSym):
            a0, f = args
            OPT = "core::option::Option"
            none_res = {"and_then": Val("agg", (OPT, "None", [])), "filter": Val("agg", (OPT, "None", [])), "is_some_and": Val("const", False), "is_none_or": Val("const", True)}[short]

            def some_rows(v):
                rows_f = self._closure_rows(f.a, [v])
                if rows_f is None:
                    return None
                out = []
                for cons, res, eff, calls in rows_f:
                    if short in ("and_then", "is_some_and", "is_none_or"):
                        out.append((cons, res, eff, calls))
                    else:           # filter: keep the value iff the predicate holds
                        if res.kind == "const" and isinstance(res.a, bool):
                            out.append((cons, Val("agg", (OPT, "Some", [v])) if res.a else Val("agg", (OPT, "None", [])), eff, calls))
                        else:
                            key = self._raw(res)
                            out.append((cons + [("cond", key, ("not", 0))], Val("agg", (OPT, "Some", [v])), eff, calls))
                            out.append((cons + [("cond", key, 0)], Val("agg", (OPT, "None", [])), eff, calls))
                return out
            if a0.kind == "agg" and a0.a[1] in ("Some", "None"):
                if a0.a[1] == "None":
                    return [([], none_res, (), ())]
                r = some_rows(a0.a[2][0])
                if r is not None:
                    return r
            else:
                key = self._raw(a0)
                r = some_rows(Val("place", key + "@Some.0"))
                if r is not None:
                    return [([("is", key, "None")], none_res, (), ())] + [([("is", key, "Some")] + c_, res_, e_, k_) for c_, res_, e_, k_ in r]
        # Option::unwrap_or_else(opt, f) / Option::unwrap_or(opt, d): the payload when there is one, else what the fallback gives
        if nm.startswith("core::option::Option::") and short in ("unwrap_or_else", "unwrap_or") and len(args) == 2:
            a0, f = args
            fallback = f if short == "unwrap_or" else Val("call", ("closure", "closure()"))
            if a0.kind == "agg" and a0.a[1] in ("Some", "None"):
                return [([], a0.a[2][0] if a0.a[1] == "Some" else fallback, (), ())]
            key = self._raw(a0)
            return [([("is", key, "Some")], Val("place", key + "@Some.0"), (), ()), ([("is", key, "None")], fallback, (), ())]
        # small loop-free workspace function / closure
        cb = self.prog.body(nm)
        if short in self.opaque or (self.only is not None and short not in self.only):
            return None
        if not self.inline or cb is None or cb.npath in self._stack or len(cb.loops()) or len(cb.blocks) > 80 or not cb.crate.startswith("pasfmt"):
            return None
        try:
            sub = Table(self.prog, cb, max_paths=256, inline=self.inline - 1, _stack=self._stack, opaque=self.opaque, only=self.only)
        except TooComplex:
            return None
        if not sub.rows or len(sub.rows) > 64:
            return None
        # closures called through Fn::call receive (closure, (args,)); direct calls of closure bodies do not occur in MIR: only fns reach here
        out = []
        for (cons, res), eff, calls in zip(sub.rows, sub.effects, sub.calls):
            ec = []
            for c in cons:
                if c[0] == "cond":
                    ec.append(("cond", self._subst_text(c[1], args), c[2]))
                else:
                    ec.append((c[0], self._subst_text(c[1], args), c[2]))
            out.append((ec, self._subst_val(res, args), [(self._subst_text(k2, args), self._subst_val(v2, args)) for k2, v2 in eff],
                        [(n2, tuple(self._subst_text(a2, args) for a2 in as2)) for n2, as2 in calls] + [(nm, tuple(vdesc(a) for a in args))]))
        return out

    def _closure_rows(self, clos, call_args):
        """rows of a workspace closure applied to `call_args`: [(constraints, result, effects, calls)], parameters and captured values
        substituted; None if the closure is not a small loop-free body"""
        cb = self.prog.body(clos.path)
        if cb is None or cb.npath in self._stack or len(cb.loops()) or len(cb.blocks) > 80:
            return None
        try:
            sub = Table(self.prog, cb, max_paths=256, inline=max(self.inline - 1, 1), _stack=self._stack, opaque=self.opaque, only=self.only)
        except TooComplex:
            return None
        if not sub.rows or len(sub.rows) > 64:
            return None
        args = [Val("agg", ("tuple", "", list(clos.fields)))] + list(call_args)
        out = []
        for (cons, res), eff, calls in zip(sub.rows, sub.effects, sub.calls):
            ec = [(c[0], self._subst_text(c[1], args), c[2]) for c in cons]
            out.append((ec, self._subst_val(res, args), [(self._subst_text(k2, args), self._subst_val(v2, args)) for k2, v2 in eff],
                        [(n2, tuple(self._subst_text(a2, args) for a2 in as2)) for n2, as2 in calls]))
        return out

    def _run(self):
        body = self.body
        count = [0]
        rows = self.rows

        def feasible(cons, key, variant, negset):
            """check new discriminant constraint against existing ones on same key"""
            for c in cons:
                if c[0] == "is" and c[1] == key:
                    if variant is not None:
                        return c[2] == variant
                    return c[2] not in negset
                if c[0] == "not" and c[1] == key and variant is not None:
                    if variant in c[2]:
                        return False
            return True

        def walk(bb, env, cons, onpath):
            if bb in self.stop and (onpath or bb != self.start):
                vals = [env.get(l, Val("place", canon_local(body, l, {}))) for l in self.state]
                rows.append((list(cons), Val("agg", ("state", "", vals))))
                self.effects.append(list(env.get(("eff",), ())))
                self.calls.append(list(env.get(("calls",), ())))
                self.ends.append(bb)
                return
            if bb in onpath:
                raise TooComplex("cycle at bb%d in %s" % (bb, body.npath))
            count[0] += 1
            if count[0] > self.max_paths * 50:
                raise TooComplex("too many steps in %s" % body.npath)
            env = dict(env)
            blk = body.blocks[bb]
            for s in blk["stmts"]:
                if s["k"] == "setdiscr":
                    continue
                if s["k"] != "assign":
                    continue
                dst = s["dst"]
                rv = s["rv"]
                v = None
                k = rv["k"]
                if k == "use":
                    v = self.val_of_operand(rv["op"], env)
                elif k == "unop" and rv["op"] == "Not":
                    a = self.val_of_operand(rv["a"], env)
                    if a.kind == "const" and isinstance(a.a, bool):
                        v = Val("const", not a.a)
                    else:
                        v = Val("sym", "!%s" % vdesc(a))
                elif k == "discr":
                    v = None
                    pl = rv["place"]
                    adt = norm(rv.get("adt", ""))
                    if pl["l"] in env and all(pe["k"] in ("deref",) for pe in pl["p"]):
                        ev = env[pl["l"]]
                        if ev.kind == "agg" and ev.a[1]:
                            info = self.prog.adts.get(adt)
                            dn = [vv["discr"] for vv in (info["variants"] if info else []) if vv["name"] == ev.a[1]]
                            if dn:
                                v = Val("const", int(dn[0]))
                    if v is None:
                        v = Val("discr", (canon_place(body, pl, self._alias(pl, env)), adt))
                elif k == "aggregate":
                    fields = [self.val_of_operand(o, env) for o in rv["ops"]]
                    if rv.get("agg") == "adt":
                        v = Val("agg", (norm(rv["adt"]), rv["variant"], fields))
                    elif rv.get("agg") == "tuple":
                        v = Val("agg", ("tuple", "", fields))
                    elif rv.get("agg") == "array":
                        v = Val("agg", ("array", "", fields))
                    elif rv.get("agg") == "closure" and rv.get("closure"):
                        v = Val("sym", ClosureSym(norm(rv["closure"]), fields))
                    else:
                        v = Val("sym", rv.get("agg"))
                elif k == "binop":
                    a = self.val_of_operand(rv["a"], env)
                    b = self.val_of_operand(rv["b"], env)
                    if a.kind == "const" and b.kind == "const" and not isinstance(a.a, tuple) and not isinstance(b.a, tuple):
                        op = rv["op"]
                        try:
                            r = {"Eq": a.a == b.a, "Ne": a.a != b.a, "Lt": a.a < b.a, "Le": a.a <= b.a,
                                 "Gt": a.a > b.a, "Ge": a.a >= b.a}.get(op)
                            if r is None and isinstance(a.a, bool) and isinstance(b.a, bool):
                                r = {"BitOr": a.a or b.a, "BitAnd": a.a and b.a, "BitXor": a.a != b.a}.get(op)
                        except TypeError:
                            r = None
                        v = Val("const", r) if r is not None else Val("bin", (op, a, b))
                    else:
                        op2 = rv["op"]
                        cb = lambda x: x.kind == "const" and isinstance(x.a, bool)
                        if op2 == "BitOr" and (cb(a) or cb(b)):
                            c0, o0 = (a, b) if cb(a) else (b, a)
                            v = Val("const", True) if c0.a else o0
                        elif op2 == "BitAnd" and (cb(a) or cb(b)):
                            c0, o0 = (a, b) if cb(a) else (b, a)
                            v = o0 if c0.a else Val("const", False)
                        else:
                            v = Val("bin", (rv["op"], a, b))
                elif k in ("ref", "rawptr"):
                    pl = rv["place"]
                    if pl["l"] in env and all(pe["k"] == "deref" for pe in pl["p"]):
                        v = env[pl["l"]]
                    else:
                        v = Val("place", canon_place(body, pl, {}))
                elif k == "cast":
                    v = self.val_of_operand(rv["op"], env)
                else:
                    v = Val("sym", k)
                if not dst["p"]:
                    if dst["l"] in getattr(body, "alias", {}):
                        v = Val("place", body.alias[dst["l"]])
                    env[dst["l"]] = v
                else:
                    # store through a projection: remember it as an effect of the path (and for later reads)
                    key = canon_place(body, dst, {})
                    env[("mem", key)] = v
                    env[("eff",)] = env.get(("eff",), ()) + ((key, v),)
                    if not any(pe["k"] == "deref" for pe in dst["p"]):
                        env.pop(dst["l"], None)
            t = blk["term"]
            k = t["k"]
            if k == "return":
                rows.append((list(cons), env.get(0, Val("sym", "?"))))
                self.effects.append(list(env.get(("eff",), ())))
                self.calls.append(list(env.get(("calls",), ())))
                self.ends.append(None)
                if len(rows) > self.max_paths:
                    raise TooComplex("too many paths in %s" % body.npath)
                return
            if k in ("unreachable", "unwind", "otherterm"):
                return
            if k == "goto":
                return walk(t["target"], env, cons, onpath | {bb})
            if k in ("drop", "assert"):
                return walk(t["target"], env, cons, onpath | {bb})
            if k == "call":
                nm = norm(t.get("resolved") or t.get("callee") or "<fnptr>")
                args = [self.val_of_operand(a, env) for a in t["args"]]
                desc = "%s(%s)" % (nm.split("::")[-1], ",".join(vdesc(a) for a in args))
                # a callee that receives `&mut local` may change it: forget what is known about that local
                for a in t["args"]:
                    if a["k"] in ("copy", "move") and not a["place"]["p"]:
                        for d in body.defs.get(a["place"]["l"], []):
                            if d[0] == "assign" and d[3]["k"] == "assign" and d[3]["rv"]["k"] in ("ref", "rawptr") and d[3]["rv"].get("mut"):
                                tgt_l = d[3]["rv"]["place"]["l"]
                                if tgt_l in env and not (1 <= tgt_l <= body.arg_count):
                                    env = dict(env)
                                    env.pop(tgt_l, None)
                if (self.inline or len(self._stack) > 1) and t["target"] is not None and not t["dst"]["p"]:
                    alts = self._model_call(nm, args, t)
                    if alts is not None:
                        for extra_cons, val, eff, calls in alts:
                            ok = True
                            c2 = list(cons)
                            for ec in extra_cons:
                                if ec[0] in ("is", "not"):
                                    if not feasible(c2, ec[1], ec[2] if ec[0] == "is" else None, set(ec[2]) if ec[0] == "not" else None):
                                        ok = False
                                        break
                                    if ec not in c2:
                                        c2.append(ec)
                                else:
                                    prev = [c for c in c2 if c[0] == "cond" and c[1] == ec[1]]
                                    if prev and prev[0][2] != ec[2]:
                                        ok = False
                                        break
                                    if not prev:
                                        c2.append(ec)
                            if not ok:
                                continue
                            e2 = dict(env)
                            e2[("calls",)] = e2.get(("calls",), ()) + tuple(calls)
                            if eff:
                                e2[("eff",)] = e2.get(("eff",), ()) + tuple(eff)
                            e2[t["dst"]["l"]] = val
                            walk(t["target"], e2, c2, onpath | {bb})
                        return
                env[("calls",)] = env.get(("calls",), ()) + ((nm, tuple(vdesc(a) for a in args)),)
                if not t["dst"]["p"]:
                    env[t["dst"]["l"]] = Val("call", (nm, desc))
                if t["target"] is None:
                    return
                return walk(t["target"], env, cons, onpath | {bb})
            if k == "switch":
                d = self.val_of_operand(t["discr"], env)
                if d.kind == "const":
                    val = int(d.a) if not isinstance(d.a, tuple) else None
                    for v, tgt in t["targets"]:
                        if v == val:
                            return walk(tgt, env, cons, onpath | {bb})
                    return walk(t["otherwise"], env, cons, onpath | {bb})
                if d.kind == "discr":
                    key, adt = d.a
                    info = self.prog.adts.get(adt)
                    listed = []
                    for v, tgt in t["targets"]:
                        vn = self.prog.variant_of(adt, v) if info else str(v)
                        listed.append(vn)
                        if feasible(cons, key, vn, None):
                            walk(tgt, env, cons + [("is", key, vn)], onpath | {bb})
                    if info and len(listed) >= len(info["variants"]):
                        return
                    if feasible(cons, key, None, set(listed)):
                        # collapse "not in listed" to a single variant when only one remains
                        rest = [vv["name"] for vv in info["variants"] if vv["name"] not in listed] if info else None
                        prior_not = set()
                        for c in cons:
                            if c[0] == "not" and c[1] == key:
                                prior_not |= set(c[2])
                        if rest is not None:
                            rest = [r for r in rest if r not in prior_not]
                            if not rest:
                                return
                            if len(rest) == 1:
                                walk(t["otherwise"], env, cons + [("is", key, rest[0])], onpath | {bb})
                                return
                        walk(t["otherwise"], env, cons + [("not", key, tuple(sorted(set(listed) | prior_not)))], onpath | {bb})
                    return
                # opaque condition
                desc = vdesc(d)
                for v, tgt in t["targets"]:
                    prev = [c for c in cons if c[0] == "cond" and c[1] == desc]
                    if prev and prev[0][2] != v:
                        continue
                    walk(tgt, env, cons + ([] if prev else [("cond", desc, v)]), onpath | {bb})
                prev = [c for c in cons if c[0] == "cond" and c[1] == desc]
                listed = tuple(v for v, _ in t["targets"])
                if prev and prev[0][2] in listed:
                    return
                walk(t["otherwise"], env, cons + ([] if prev else [("cond", desc, ("not",) + listed)]), onpath | {bb})
                return
            raise TooComplex("terminator %s" % k)

        import sys
        sys.setrecursionlimit(10000)
        walk(self.start, {}, [], frozenset())


def vdesc(v):
    """Readable description of an abstract value (used in condition constraints)."""
    if v.kind == "const":
        return repr(v.a) if not isinstance(v.a, tuple) else "%s:%s" % (v.a[0], v.a[1])
    if v.kind == "call":
        return v.a[1]
    if v.kind == "agg":
        return render(v)
    if v.kind == "discr":
        return "discr(%s)" % v.a[0]
    if v.kind == "bin":
        return "%s(%s,%s)" % (v.a[0], vdesc(v.a[1]), vdesc(v.a[2]))
    return str(v.a)


def render(v):
    """Render an abstract value compactly: constants, enum variants (nested)."""
    if v.kind == "call":
        return "call:" + v.a[1]
    if v.kind == "bin":
        return "sym:" + vdesc(v)
    if v.kind == "const":
        return repr(v.a)
    if v.kind == "agg":
        adt, variant, fields = v.a
        if adt == "array":
            return "array{%s}" % ",".join(vdesc(f) if f.kind != "agg" else render(f) for f in fields)
        nm = variant if adt != "tuple" else ""
        if fields:
            return "%s(%s)" % (nm, ", ".join(render(f) for f in fields))
        return nm
    return "%s:%s" % (v.kind, v.a)


def chain_of(cons, root_contains):
    """variant names of 'is' constraints on places whose canonical name contains root_contains, in order"""
    return [c[2] for c in cons if c[0] == "is" and root_contains in c[1]]


class Unknown(Exception):
    pass


def split_call(x):
    """'F(a,b)' -> ('F', ['a', 'b']) respecting nesting; None if x is not of that form"""
    i = x.find("(")
    if i <= 0 or not x.endswith(")"):
        return None
    name, body, args, depth, cur = x[:i], x[i + 1:-1], [], 0, ""
    for ch in body:
        if ch in "([{":
            depth += 1
        elif ch in ")]}":
            depth -= 1
        if ch == "," and depth == 0:
            args.append(cur)
            cur = ""
        else:
            cur += ch
    args.append(cur)
    return name, args


def eval_desc(desc, env):
    """Concrete value of a condition / value description (as produced by vdesc) under `env` (name -> int/bool).
    Supports names, integers, char:N, True/False, !x, Eq/Ne/Lt/Le/Gt/Ge, BitAnd/BitOr/BitXor.  Raises Unknown otherwise."""
    d = desc.strip()
    if d.startswith("place:"):
        d = d[6:]
    if d in env:
        return env[d]
    if d in ("True", "False"):
        return d == "True"
    if d.startswith("char:"):
        return int(d[5:])
    if d.lstrip("-").isdigit():
        return int(d)
    if d.startswith("!"):
        return not eval_desc(d[1:], env)
    sc = split_call(d)
    if sc and len(sc[1]) == 2 and sc[0] in ("Eq", "Ne", "Lt", "Le", "Gt", "Ge", "BitAnd", "BitOr", "BitXor"):
        a, b = eval_desc(sc[1][0], env), eval_desc(sc[1][1], env)
        return {"Eq": a == b, "Ne": a != b, "Lt": a < b, "Le": a <= b, "Gt": a > b, "Ge": a >= b,
                "BitAnd": bool(a) and bool(b), "BitOr": bool(a) or bool(b), "BitXor": bool(a) != bool(b)}[sc[0]]
    if sc and sc[0].split("::")[-1] in ("eq", "ne") and len(sc[1]) == 2:         # PartialEq on scalars / references to scalars
        a, b = eval_desc(sc[1][0], env), eval_desc(sc[1][1], env)
        return (a == b) if sc[0].split("::")[-1] == "eq" else (a != b)
    if sc and sc[0].split("::")[-1] in ("deref", "clone", "to_owned") and len(sc[1]) == 1:
        return eval_desc(sc[1][0], env)
    if sc and sc[0].split("::")[-1] in ("min", "max") and len(sc[1]) == 2:
        a, b = int(eval_desc(sc[1][0], env)), int(eval_desc(sc[1][1], env))
        return min(a, b) if sc[0].endswith("min") else max(a, b)
    if sc and sc[0].split("::")[-1] == "clamp" and len(sc[1]) == 3:
        a, lo, hi = (int(eval_desc(x, env)) for x in sc[1])
        return max(lo, min(a, hi))
    if sc and sc[0].split("::")[-1] in ("from", "into") and len(sc[1]) == 1:
        v = eval_desc(sc[1][0], env)
        return int(v) if isinstance(v, bool) else v                  # numeric conversions keep the value; bool -> 0 / 1
    if sc and len(sc[1]) == 1 and sc[0].split("::")[-1] in CHAR_MODELS and ("char" in sc[0] or "::" not in sc[0]):
        return CHAR_MODELS[sc[0].split("::")[-1]](int(eval_desc(sc[1][0], env)))
    raise Unknown(desc)


_UNICODE_WS = set(range(9, 14)) | {0x20, 0x85, 0xA0, 0x1680, 0x2028, 0x2029, 0x202F, 0x205F, 0x3000} | set(range(0x2000, 0x200B))
# concrete models of std's character classifiers (std's documented definitions), for probing per-character predicates
CHAR_MODELS = {
    "is_ascii_whitespace": lambda c: c in (0x20, 0x09, 0x0A, 0x0C, 0x0D),
    "is_whitespace": lambda c: c in _UNICODE_WS,
    "is_control": lambda c: c <= 0x1F or 0x7F <= c <= 0x9F,
    "is_ascii_control": lambda c: c <= 0x1F or c == 0x7F,
    "is_ascii": lambda c: c < 0x80,
}


def run_concrete(table, env):
    """The unique row of `table` whose constraints hold under env -> (result description, effects); raises Unknown if a
    constraint cannot be evaluated or the number of matching rows is not one."""
    hits = []
    for (cons, res), eff in zip(table.rows, table.effects):
        ok = True
        for c in cons:
            if c[0] != "cond":
                raise Unknown("variant constraint %s" % (c,))
            v = eval_desc(c[1], env)
            v = int(v) if isinstance(v, bool) else v
            if isinstance(c[2], tuple):
                ok &= v not in c[2][1:]
            else:
                ok &= v == c[2]
        if ok:
            hits.append((res, eff))
    if len(hits) != 1:
        raise Unknown("%d rows match %s" % (len(hits), env))
    return hits[0]
