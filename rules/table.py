"""TABLE engine: decision table of a loop-free classifier body.

Enumerates every entry->return path of the CFG (static path enumeration, no execution), tracking
  * constants assigned to locals (so that `matches!` lowering through a temporary bool is resolved),
  * discriminant tests on canonicalised places -> constraints  place in {variants} / place not in {..},
  * opaque conditions (results of calls, comparisons of non-constants) -> constraints ('cond', desc, value).
Each path yields (constraints, result) where result is a rendered value of the return place.
Infeasible combinations of discriminant constraints on the same place are pruned.
"""
from facts import norm, place_str


class TooComplex(Exception):
    pass


class Val:
    """abstract value"""
    __slots__ = ("kind", "a")

    def __init__(self, kind, a=None):
        self.kind = kind      # const | discr | agg | sym | place
        self.a = a

    def __repr__(self):
        return "%s(%r)" % (self.kind, self.a)


def canon_place(body, place, env_alias, depth=0):
    """Canonical textual name of a place: root local replaced by what it aliases."""
    l = place["l"]
    base = canon_local(body, l, env_alias, depth)
    s = base
    proj = place["p"]
    # `(_t.0)` of `_t = AddWithOverflow(a, b)` is just `Add(a,b)`: keeps names equal between
    # builds with and without overflow checks
    if proj and proj[0]["k"] == "field" and proj[0].get("tuple") and proj[0]["idx"] == 0:
        defs = [d for d in body.defs.get(l, []) if d[0] in ("assign", "call")]
        if len(defs) == 1 and defs[0][0] == "assign" and defs[0][3]["k"] == "assign" \
                and defs[0][3]["rv"]["k"] == "binop" and defs[0][3]["rv"]["op"].endswith("WithOverflow"):
            proj = proj[1:]
    for pe in proj:
        k = pe["k"]
        if k == "deref":
            continue  # auto-deref is irrelevant for identity of the tested value
        elif k == "field":
            s += "." + str(pe.get("name", pe.get("idx")))
        elif k == "downcast":
            s += "@" + str(pe.get("variant", pe.get("idx")))
        elif k == "index":
            s += "[%s]" % canon_local(body, pe["local"], env_alias, depth + 1)
        else:
            s += "{%s}" % k
    return s


def canon_local(body, l, env_alias, depth=0):
    """Stable textual identity of a local: what it was computed from.  Never mentions MIR local
    numbers (they change with unrelated edits): multi-definition locals are named by their source
    variable name, anonymous ones by `tmp`."""
    nm = body.locals[l].get("name")
    if depth > 12:
        return "var:" + nm if nm else "tmp"
    if l in env_alias:
        return env_alias[l]
    if 1 <= l <= body.arg_count:
        return "arg%d" % l
    defs = [d for d in body.defs.get(l, []) if d[0] in ("assign", "call")]
    if len(defs) == 1:
        d = defs[0]
        if d[0] == "assign" and d[3]["k"] == "assign":
            rv = d[3]["rv"]
            k = rv["k"]
            if k == "use":
                return canon_operand(body, rv["op"], env_alias, depth + 1)
            if k in ("ref", "rawptr"):
                return canon_place(body, rv["place"], env_alias, depth + 1)
            if k == "cast":
                return canon_operand(body, rv["op"], env_alias, depth + 1)
            if k == "binop":
                op = rv["op"].replace("WithOverflow", "")
                return "%s(%s,%s)" % (op, canon_operand(body, rv["a"], env_alias, depth + 1), canon_operand(body, rv["b"], env_alias, depth + 1))
            if k == "unop":
                return "%s(%s)" % (rv["op"], canon_operand(body, rv["a"], env_alias, depth + 1))
            if k == "aggregate":
                what = rv.get("agg")
                if what == "adt":
                    what = norm(rv["adt"]).split("::")[-1]
                    if rv.get("variant") and rv["variant"] != what:
                        what += "::" + rv["variant"]
                elif what == "closure":
                    what = "closure"
                return "%s{%s}" % (what, ",".join(canon_operand(body, o, env_alias, depth + 1) for o in rv["ops"]))
            if k == "discr":
                return "discr(%s)" % canon_place(body, rv["place"], env_alias, depth + 1)
        if d[0] == "call":
            t = d[2]
            fn = norm(t.get("resolved") or t.get("callee") or "<fnptr>")
            args = [canon_operand(body, a, env_alias, depth + 1) for a in t["args"]]
            short = fn.split("::")[-1]
            return "%s(%s)" % (short, ",".join(args))
    return "var:" + nm if nm else "tmp"


def canon_operand(body, op, env_alias, depth=0):
    if op["k"] in ("copy", "move"):
        return canon_place(body, op["place"], env_alias, depth)
    return render_const(op)


def render_const(op):
    if "static" in op:
        return "static:" + norm(op["static"])
    if "enum_variant" in op:
        return "&" + op["enum_variant"]
    for key in ("int", "bool", "char", "str"):
        if key in op:
            return repr(op[key])
    if "fn" in op:
        return "fn:" + norm(op["fn"]).split("::")[-1]
    if "bytes" in op:
        return "b" + repr("".join(chr(x) for x in op["bytes"]))
    return op.get("text", "?")


class Table:
    def __init__(self, prog, body, max_paths=50000, inline=None):
        self.prog = prog
        self.body = body
        self.max_paths = max_paths
        self.rows = []        # (constraints list, result)
        self.effects = []     # parallel to rows: [(canonical place, Val)] stores through references / upvars on that path
        self.calls = []       # parallel to rows: [(callee, [argument descriptions])] in path order
        self._mem = {}
        self._run()

    # ---- value rendering
    def val_of_operand(self, op, env):
        if op["k"] == "const":
            if "bool" in op:
                return Val("const", bool(op["bool"]))
            if "int" in op:
                return Val("const", int(op["int"]))
            if "char" in op:
                return Val("const", ("char", op["char"]))
            if "str" in op:
                return Val("const", ("str", op["str"]))
            if "fn" in op:
                return Val("const", ("fn", norm(op["fn"])))
            return Val("sym", op.get("text", "?"))
        pl = op["place"]
        if pl["l"] in env and all(pe["k"] == "deref" for pe in pl["p"]):
            return env[pl["l"]]
        if pl["p"]:
            key = canon_place(self.body, pl, {})
            if ("mem", key) in env:
                return env[("mem", key)]
        # field of a known aggregate
        if pl["l"] in env and env[pl["l"]].kind == "agg":
            v = env[pl["l"]]
            for pe in pl["p"]:
                if pe["k"] == "field" and v.kind == "agg" and pe["idx"] < len(v.a[2]):
                    v = v.a[2][pe["idx"]]
                elif pe["k"] in ("downcast", "deref"):
                    continue
                else:
                    v = None
                    break
            if v is not None:
                return v
        return Val("place", canon_place(self.body, pl, {}))

    def _run(self):
        body = self.body
        count = [0]
        rows = self.rows

        def feasible(cons, key, variant, negset):
            """check new discriminant constraint against existing ones on same key"""
            for c in cons:
                if c[0] == "is" and c[1] == key:
                    if variant is not None:
                        return c[2] == variant
                    return c[2] not in negset
                if c[0] == "not" and c[1] == key and variant is not None:
                    if variant in c[2]:
                        return False
            return True

        def walk(bb, env, cons, onpath):
            if bb in onpath:
                raise TooComplex("cycle at bb%d in %s" % (bb, body.npath))
            count[0] += 1
            if count[0] > self.max_paths * 50:
                raise TooComplex("too many steps in %s" % body.npath)
            env = dict(env)
            blk = body.blocks[bb]
            for s in blk["stmts"]:
                if s["k"] == "setdiscr":
                    continue
                if s["k"] != "assign":
                    continue
                dst = s["dst"]
                rv = s["rv"]
                v = None
                k = rv["k"]
                if k == "use":
                    v = self.val_of_operand(rv["op"], env)
                elif k == "unop" and rv["op"] == "Not":
                    a = self.val_of_operand(rv["a"], env)
                    if a.kind == "const" and isinstance(a.a, bool):
                        v = Val("const", not a.a)
                    else:
                        v = Val("sym", "!%s" % vdesc(a))
                elif k == "discr":
                    v = Val("discr", (canon_place(body, rv["place"], {}), norm(rv.get("adt", ""))))
                elif k == "aggregate":
                    fields = [self.val_of_operand(o, env) for o in rv["ops"]]
                    if rv.get("agg") == "adt":
                        v = Val("agg", (norm(rv["adt"]), rv["variant"], fields))
                    elif rv.get("agg") == "tuple":
                        v = Val("agg", ("tuple", "", fields))
                    else:
                        v = Val("sym", rv.get("agg"))
                elif k == "binop":
                    a = self.val_of_operand(rv["a"], env)
                    b = self.val_of_operand(rv["b"], env)
                    if a.kind == "const" and b.kind == "const" and not isinstance(a.a, tuple) and not isinstance(b.a, tuple):
                        op = rv["op"]
                        try:
                            r = {"Eq": a.a == b.a, "Ne": a.a != b.a, "Lt": a.a < b.a, "Le": a.a <= b.a,
                                 "Gt": a.a > b.a, "Ge": a.a >= b.a}.get(op)
                        except TypeError:
                            r = None
                        v = Val("const", r) if r is not None else Val("bin", (op, a, b))
                    else:
                        v = Val("bin", (rv["op"], a, b))
                elif k in ("ref", "rawptr"):
                    pl = rv["place"]
                    if pl["l"] in env and all(pe["k"] == "deref" for pe in pl["p"]):
                        v = env[pl["l"]]
                    else:
                        v = Val("place", canon_place(body, pl, {}))
                elif k == "cast":
                    v = self.val_of_operand(rv["op"], env)
                else:
                    v = Val("sym", k)
                if not dst["p"]:
                    env[dst["l"]] = v
                else:
                    # store through a projection: remember it as an effect of the path (and for later reads)
                    key = canon_place(body, dst, {})
                    env[("mem", key)] = v
                    env[("eff",)] = env.get(("eff",), ()) + ((key, v),)
                    if not any(pe["k"] == "deref" for pe in dst["p"]):
                        env.pop(dst["l"], None)
            t = blk["term"]
            k = t["k"]
            if k == "return":
                rows.append((list(cons), env.get(0, Val("sym", "?"))))
                self.effects.append(list(env.get(("eff",), ())))
                self.calls.append(list(env.get(("calls",), ())))
                if len(rows) > self.max_paths:
                    raise TooComplex("too many paths in %s" % body.npath)
                return
            if k in ("unreachable", "unwind", "otherterm"):
                return
            if k == "goto":
                return walk(t["target"], env, cons, onpath | {bb})
            if k in ("drop", "assert"):
                return walk(t["target"], env, cons, onpath | {bb})
            if k == "call":
                nm = norm(t.get("resolved") or t.get("callee") or "<fnptr>")
                args = [self.val_of_operand(a, env) for a in t["args"]]
                desc = "%s(%s)" % (nm.split("::")[-1], ",".join(vdesc(a) for a in args))
                env[("calls",)] = env.get(("calls",), ()) + ((nm, tuple(vdesc(a) for a in args)),)
                if not t["dst"]["p"]:
                    env[t["dst"]["l"]] = Val("call", (nm, desc))
                if t["target"] is None:
                    return
                return walk(t["target"], env, cons, onpath | {bb})
            if k == "switch":
                d = self.val_of_operand(t["discr"], env)
                if d.kind == "const":
                    val = int(d.a) if not isinstance(d.a, tuple) else None
                    for v, tgt in t["targets"]:
                        if v == val:
                            return walk(tgt, env, cons, onpath | {bb})
                    return walk(t["otherwise"], env, cons, onpath | {bb})
                if d.kind == "discr":
                    key, adt = d.a
                    info = self.prog.adts.get(adt)
                    listed = []
                    for v, tgt in t["targets"]:
                        vn = self.prog.variant_of(adt, v) if info else str(v)
                        listed.append(vn)
                        if feasible(cons, key, vn, None):
                            walk(tgt, env, cons + [("is", key, vn)], onpath | {bb})
                    if info and len(listed) >= len(info["variants"]):
                        return
                    if feasible(cons, key, None, set(listed)):
                        # collapse "not in listed" to a single variant when only one remains
                        rest = [vv["name"] for vv in info["variants"] if vv["name"] not in listed] if info else None
                        prior_not = set()
                        for c in cons:
                            if c[0] == "not" and c[1] == key:
                                prior_not |= set(c[2])
                        if rest is not None:
                            rest = [r for r in rest if r not in prior_not]
                            if not rest:
                                return
                            if len(rest) == 1:
                                walk(t["otherwise"], env, cons + [("is", key, rest[0])], onpath | {bb})
                                return
                        walk(t["otherwise"], env, cons + [("not", key, tuple(sorted(set(listed) | prior_not)))], onpath | {bb})
                    return
                # opaque condition
                desc = vdesc(d)
                for v, tgt in t["targets"]:
                    prev = [c for c in cons if c[0] == "cond" and c[1] == desc]
                    if prev and prev[0][2] != v:
                        continue
                    walk(tgt, env, cons + ([] if prev else [("cond", desc, v)]), onpath | {bb})
                prev = [c for c in cons if c[0] == "cond" and c[1] == desc]
                listed = tuple(v for v, _ in t["targets"])
                if prev and prev[0][2] in listed:
                    return
                walk(t["otherwise"], env, cons + ([] if prev else [("cond", desc, ("not",) + listed)]), onpath | {bb})
                return
            raise TooComplex("terminator %s" % k)

        import sys
        sys.setrecursionlimit(10000)
        walk(0, {}, [], frozenset())


def vdesc(v):
    """Readable description of an abstract value (used in condition constraints)."""
    if v.kind == "const":
        return repr(v.a) if not isinstance(v.a, tuple) else "%s:%s" % (v.a[0], v.a[1])
    if v.kind == "call":
        return v.a[1]
    if v.kind == "agg":
        return render(v)
    if v.kind == "discr":
        return "discr(%s)" % v.a[0]
    if v.kind == "bin":
        return "%s(%s,%s)" % (v.a[0], vdesc(v.a[1]), vdesc(v.a[2]))
    return str(v.a)


def render(v):
    """Render an abstract value compactly: constants, enum variants (nested)."""
    if v.kind == "call":
        return "call:" + v.a[1]
    if v.kind == "bin":
        return "sym:" + vdesc(v)
    if v.kind == "const":
        return repr(v.a)
    if v.kind == "agg":
        adt, variant, fields = v.a
        nm = variant if adt != "tuple" else ""
        if fields:
            return "%s(%s)" % (nm, ", ".join(render(f) for f in fields))
        return nm
    return "%s:%s" % (v.kind, v.a)


def chain_of(cons, root_contains):
    """variant names of 'is' constraints on places whose canonical name contains root_contains, in order"""
    return [c[2] for c in cons if c[0] == "is" and root_contains in c[1]]
