"""C14 — parsing yields well-formed logical lines that cover every token (structural clauses)."""
import re
from facts import norm, Origins
from progress import dominating_variant_facts, bfs_path, LLP
from table import Table, TooComplex, render
from util import canon, short, enum_variants_mentioned

P = "pasfmt_core::defaults::parser::"
LANG = "pasfmt_core::lang::"


def variant_truth(prog, fn):
    """{variant: bool} for a `fn(&self) -> bool` classifier over an enum (decision table)."""
    b = prog.body(fn)
    if b is None:
        return None
    t = Table(prog, b)
    adt = None
    for a, info in prog.adts.items():
        if a == fn.rsplit("::", 1)[0]:
            adt = info
    if adt is None:
        return None
    out = {}
    for v in adt["variants"]:
        name = v["name"]
        val = None
        for cons, res in t.rows:
            ok = True
            for c in cons:
                if c[0] == "is" and c[2] != name:
                    ok = False
                if c[0] == "not" and name in c[2]:
                    ok = False
                if c[0] == "cond":
                    ok = False
            if ok and res.kind == "const":
                val = res.a
        out[name] = val
    return out


def pass_exhaustiveness(prog, rep, R):
    """C14.f — passes over the directive tree stop only when every section is explored: `explored` is a conjunction over ALL sections
    (recursively), `pass` visits ALL sections, the nested arm picks the first unexplored branch (or the last), and PassIter stops exactly
    on `tree.explored()`.  Stated on what each of the four functions does together with its closures, function items and the module's own
    helpers: only complete, unadapted traversals (no step_by / skip / take / filter / split), and the recursion partner is reached."""
    DT = "pasfmt_core::defaults::parser::directive_tree::"
    COMPLETE = {"deref", "deref_mut", "iter", "iter_mut", "into_iter", "next", "all", "for_each", "find_or_last", "extend", "extend_from_slice", "clone", "new", "not",
                "call_mut", "call_once", "call", "branch", "from_residual", "into", "from", "start", "end"}
    need = {
        DT + "DirectiveTree::explored": ({"all"}, {DT + "Section::explored"}),
        DT + "Section::explored": ({"all"}, {DT + "DirectiveTree::explored"}),
        DT + "DirectiveTree::pass": (set(), {DT + "Section::pass"}),
        DT + "Section::pass": ({"find_or_last"}, {DT + "DirectiveTree::pass", DT + "DirectiveTree::explored"}),
    }
    from util import family_bodies
    roots = set(need) | {"<" + DT + "PassIter as core::iter::traits::iterator::Iterator>::next"}
    for name, (adapters, partners) in need.items():
        b = prog.body(name)
        if not rep.check(b is not None, R, "anchor:" + short(name), "%s not found" % short(name)):
            continue
        fam = [x for x, _a, _c in family_bodies(prog, b, depth=2) if x.npath == name or x.npath not in roots]
        names, reached, extra = set(), set(), set()
        for x in fam:
            for c in x.calls():
                cal = norm(c.t.get("resolved") or c.callee or "")
                tg = {c.callee or "", cal} | {norm(a2["fn"]) for a2 in c.args if a2["k"] == "const" and a2.get("fn")}
                for t in tg:
                    if not t:
                        continue
                    nm = t.split("::")[-1]
                    if t.startswith(DT) or t.startswith("<" + DT):
                        reached.add(t)
                    elif nm in COMPLETE or t.startswith("core::ops::function") or t.startswith("core::ops::range"):
                        names.add(nm)
                    else:
                        extra.add(t)
        missing = sorted((adapters - names) | {short(x) for x in partners - reached})
        rep.check(not extra and not missing, R, "traversal:" + short(name), "%s no longer is a complete, unadapted traversal: unreviewed calls %s, missing %s" % (short(name), sorted(extra)[:3], missing),
                  where="%s:%d" % (b.file, b.line), instance={"fn": short(name), "calls": sorted(names), "reaches": sorted(short(x) for x in reached)})
    # DirectiveTree::pass hands every section to Section::pass: a `for` loop over the sections that leaves only on exhaustion, or for_each
    b = prog.body(DT + "DirectiveTree::pass")
    if b is not None:
        nx = [c for c in b.calls() if c.callee == "core::iter::traits::iterator::Iterator::next"]
        fe = [c for c in b.calls() if (c.callee or "") == "core::iter::traits::iterator::Iterator::for_each"]
        ok = False
        if len(nx) == 1 and nx[0].bb in b.loops():
            L = b.loops()[nx[0].bb]
            rets = set(b.return_blocks())
            tgt = nx[0].t.get("target")
            exits = [(u, v) for u in L for v in b.succ[u] if v not in L and (b.reach_from(v, include_start=True) & rets)]
            ok = all(u in (nx[0].bb, tgt) or b.blocks[u]["term"]["k"] == "switch" and b.dominates(tgt, u) and not [c for c in b.calls() if c.bb in L and b.dominates(c.bb, u) and c.bb != nx[0].bb] for u, v in exits)
        elif len(fe) == 1 and not nx:
            src = canon(b, fe[0].args[0])
            clos = b.locals[fe[0].args[1]["place"]["l"]].get("closure") if fe[0].args[1]["k"] in ("copy", "move") else None
            cb = prog.body(norm(clos)) if clos else None
            # every element, and the closure calls Section::pass on every path
            ok = re.match(r"^(iter_mut|into_iter|iter)\((deref_mut\()?(deref\()?arg1\.sections\)*$", src) is not None and cb is not None and \
                any(norm(c.t.get("resolved") or c.callee or "") == DT + "Section::pass" and all(cb.dominates(c.bb, r) for r in cb.return_blocks()) for c in cb.calls())
        rep.check(ok, R, "pass-visits-all-sections", "DirectiveTree::pass does not visit every section on every pass", instance={"loop": "for section in &mut self.sections / iter_mut().for_each"})
    # PassIter::next: exhausted := tree.explored()
    nb = prog.body("<" + DT + "PassIter as core::iter::traits::iterator::Iterator>::next")
    if nb is not None:
        st = [a for a in prog.field_accesses(DT + "PassIter", "exhausted", within={nb.npath}) if a[3].startswith("write")]
        ok = len(st) == 1 and i_is_explored(nb, st[0])
        rep.check(ok, R, "exhausted=tree.explored()", "PassIter::next no longer sets `exhausted` from `tree.explored()` exactly", instance={"stores": len(st)})


    # typestate of `explored`: a flat section is born unexplored, and becomes explored only where its tokens are put into a pass
    born, other = 0, []
    for k, x in prog.bodies.items():
        if DT not in k or "::tests::" in k:
            continue
        for bb, i, s2 in x.stmts():
            if s2["k"] == "assign" and s2["rv"]["k"] == "aggregate" and s2["rv"].get("agg") == "adt" and norm(s2["rv"].get("adt", "")) == DT + "Section" and s2["rv"].get("variant") == "Flat":
                fields = s2["rv"].get("fields") or []
                op = s2["rv"]["ops"][fields.index("explored")] if "explored" in fields else None
                if op is not None and op["k"] == "const" and op.get("bool") is False:
                    born += 1
                else:
                    other.append("%s builds a flat section whose `explored` is %s" % (short(k), canon(x, op) if op is not None else "?"))
    for a in prog.field_accesses(DT + "Section", "explored"):
        x, bb, i, kind = a[0], a[1], a[2], a[3]
        if "::tests::" in x.npath or kind not in ("write", "refmut"):
            continue
        # where the field can be written: behind the point where the section's tokens were added to the pass
        R2 = x.reach_from(bb, include_start=True)
        ADD = ("extend", "extend_from_slice", "push", "append")

        def always_adds(hb):
            """a helper of the module on every path of which tokens are added to a vector"""
            ext2 = {c.bb for c in hb.calls() if (c.callee or "").split("::")[-1] in ADD}
            rets2 = set(hb.return_blocks())
            return bool(ext2) and bool(rets2) and (0 in ext2 or not hb.can_reach_avoiding(0, rets2, ext2))
        ext = [c for c in x.calls() if c.bb in R2 and ((c.callee or "").split("::")[-1] in ADD or
               (lambda hb: hb is not None and hb.npath.startswith(DT) and hb.npath not in (x.npath,) and always_adds(hb))(prog.body(norm(c.t.get("resolved") or c.callee or ""))))]
        stores = [(b2, s3) for b2, _, s3 in x.stmts() if b2 in R2 and s3["k"] == "assign" and s3["dst"]["p"] and s3["dst"]["p"][-1]["k"] == "deref" and x.locals[s3["dst"]["l"]]["ty"] == "&mut bool"]
        rets = set(x.return_blocks())
        # from the point where the flag is taken (to be set here or in a helper it is handed to) every way out adds the section's tokens
        leaks = not ext or (bool(rets) and x.can_reach_avoiding(bb, rets, {c.bb for c in ext}) and bb not in {c.bb for c in ext})
        if leaks and (stores or any(c.bb in R2 and x.locals[a2["place"]["l"]]["ty"] == "&mut bool" for c in x.calls() for a2 in c.args if a2["k"] in ("copy", "move") and not a2["place"]["p"])):
            other.append("%s can set a section's `explored` where no tokens are added to a pass" % short(x.npath))
        elif not ext:
            other.append("%s takes a section's `explored` mutably but adds no tokens" % short(x.npath))
    rep.check(born >= 1 and not other, R, "sections-are-born-unexplored",
              "a section of the conditional-directive tree is marked as explored without its tokens having been put into a pass (%s): the pass iterator only schedules unexplored "
              "branches, so the tokens of such a branch (a branch that holds only comments ..) can be in no pass at all and end up in no logical line" % (other[:2] or "no flat section is built any more"),
              instance={"flat_sections_built_unexplored": born, "other": other[:3]})


def i_is_explored(nb, acc):
    b, bb, i, kind, s = acc
    if i == "term" or s["rv"]["k"] != "use":
        return False
    return canon(nb, s["rv"]["op"]).startswith("explored(arg1.tree")


def _directive_pass_sites(prog, pf):
    """Bodies that build the lines of unattributed directive tokens: parse_file itself, a free function of the parser module it calls
    directly, or a closure of either -- whichever contains a LocalLogicalLine aggregate."""
    cands = [pf] + list(prog.closures_of(pf.npath))
    for c in pf.calls():
        cal = prog.body(c.callee) if c.callee else None
        if cal is not None and cal.npath.startswith(P) and "InternalDelphiLogicalLineParser" not in cal.npath and cal.npath != pf.npath and cal not in cands:
            cands += [cal] + list(prog.closures_of(cal.npath))
    out = []
    for b in cands:
        if any(s["k"] == "assign" and s["rv"]["k"] == "aggregate" and s["rv"].get("agg") == "adt" and norm(s["rv"].get("adt", "")).endswith("LocalLogicalLine")
               for _, _, s in b.stmts()):
            out.append(b)
    return out


def _tokens_source_ok(prog, pf, owner, src):
    """`src` (canonical text inside `owner`) is `enumerate(iter(<tokens>))`, optionally filtered, where <tokens> is parse_file's token slice."""
    import re as _re
    m = _re.match(r"^(?:into_iter\()?(filter\()?enumerate\(iter\(arg(\d+)\)\)(,closure\{.*\}\))?\)?$", src)
    if not m:
        return None
    k = int(m.group(2))
    if owner.npath == pf.npath:
        return m if k == 1 else None
    sites = [c for c in pf.calls() if c.callee == owner.npath]
    if len(sites) != 1 or len(sites[0].args) < k:
        return None
    a = canon(pf, sites[0].args[k - 1])
    return m if a in ("arg1", "&arg1", "&*arg1", "*arg1") or _re.match(r"^(deref\()?arg1\)?$", a) else None


def directive_pass_table(prog, rep, R, pf):
    """One step of parse_file's pass over all tokens, as a decision table: a CompilerDirective and every kind of
    ConditionalDirective gets exactly one LocalLogicalLine (of its own type, holding this token's index) unless the token was
    attributed to a line by next_token; no other token gets one; no other condition decides.  The pass may be a loop that pushes the
    lines (in parse_file or in a function it calls) or a `filter_map` closure over the enumerated tokens whose result is collected."""
    import re as _re
    sites = _directive_pass_sites(prog, pf)
    if not rep.check(len(sites) == 1, R, "anchor:directive-pass", "expected exactly one body reachable directly from parse_file that builds LocalLogicalLine values for directive tokens, found %s" % [short(b.npath) for b in sites]):
        return
    site = sites[0]
    rows = None      # [(constraints, [rendered line]...)]
    filtered = False
    if site.kind == "Closure":
        owner = prog.body(site.root)
        use = [c for c in owner.calls() if (c.callee or "").endswith("Iterator::filter_map") and len(c.args) == 2 and canon(owner, c.args[1]).startswith("closure{")]
        if not rep.check(owner is not None and len(use) == 1 and "Option<" in site.locals[0]["ty"], R, "anchor:directive-pass-iterator",
                         "the directive closure %s is not the argument of a single Iterator::filter_map" % short(site.npath)):
            return
        src = canon(owner, use[0].args[0])
        m = _tokens_source_ok(prog, pf, owner, src)
        rep.check(bool(m) and not (m and m.group(1)), R, "directive-pass-over-all-tokens",
                  "the directive pass iterates %s instead of every (index, token) of the token slice" % src, instance={"iterates": "tokens.iter().enumerate().filter_map(..)"})
        # the produced lines must reach consolidate_pass_lines: filter_map -> collect -> (return ->) consolidate_pass_lines
        fm = "filter_map(%s," % src
        reach = False
        if owner.npath == pf.npath:
            reach = any(c.callee == P + "consolidate_pass_lines" and fm in canon(pf, c.args[1]) for c in pf.calls())
        else:
            rets = [canon(owner, {"k": "move", "place": {"l": 0, "p": []}})] if True else []
            reach = any(fm in r and "collect(" in r for r in rets) and \
                any(c.callee == P + "consolidate_pass_lines" and owner.npath.split("::")[-1] + "(" in canon(pf, c.args[1]) for c in pf.calls())
        rep.check(reach, R, "directive-lines-reach-consolidate", "the lines produced by %s are not handed to consolidate_pass_lines" % short(site.npath))
        try:
            tb = Table(prog, site, inline=1)
        except TooComplex as e:
            rep.fail(R, "directive-pass-table", "one step of the directive pass is not a loop-free classifier: %s" % e)
            return
        rows = []
        for (cons, res), calls in zip(tb.rows, tb.calls):
            r = render(res)
            rows.append((cons, [r] if r.startswith("Some(LocalLogicalLine(") else ([] if r == "None" else ["?" + r])))
        where = site
    else:
        pushes = [c for c in site.calls() if c.callee == "alloc::vec::Vec::push" and "LocalLogicalLine" in site.locals[c.args[1]["place"]["l"]]["ty"]]
        loops = [(h, L) for h, L in site.loops().items() if any(c.bb in L for c in pushes)]
        loops.sort(key=lambda x: len(x[1]))
        if not rep.check(bool(pushes) and bool(loops), R, "anchor:directive-pass", "%s has no loop that pushes LocalLogicalLine values for directive tokens" % short(site.npath)):
            return
        h, L = loops[0]
        nx = [c for c in site.calls() if c.bb == h and (c.callee or "").endswith("Iterator::next")]
        if not rep.check(len(nx) == 1, R, "anchor:directive-pass-iterator", "the directive pass is not driven by a single Iterator::next"):
            return
        src = canon(site, nx[0].args[0])
        m = _tokens_source_ok(prog, pf, site, src)
        rep.check(bool(m), R, "directive-pass-over-all-tokens", "the directive pass iterates %s instead of every (index, token) of the token slice (optionally filtered by `!attributed_directives.contains(index)`)" % src,
                  instance={"iterates": "tokens.iter().enumerate()" + (".filter(!attributed)" if m and m.group(1) else "")})
        if site.npath != pf.npath:
            reach = any(c.callee == P + "consolidate_pass_lines" and site.npath.split("::")[-1] + "(" in canon(pf, c.args[1]) for c in pf.calls())
            rep.check(reach, R, "directive-lines-reach-consolidate", "the lines produced by %s are not handed to consolidate_pass_lines" % short(site.npath))
        if m and m.group(1):
            filtered = True
            fl = [b for b in prog.closures_of(site.npath) if any(c.callee == "std::collections::hash::set::HashSet::contains" for c in b.calls())]
            ok = len(fl) == 1
            if ok:
                t = Table(prog, fl[0])
                ok = all((res.kind == "sym" and str(res.a).startswith("!")) or (res.kind == "const") for _, res in t.rows) and len(t.rows) == 1
            rep.check(ok, R, "directive-filter=!attributed", "%s no longer filters the directive pass by `!attributed_directives.contains(index)`" % short(site.npath))
        sw = nx[0].t["target"]
        tt = site.blocks[sw]["term"]
        some = ([tb_ for v, tb_ in tt["targets"] if v == 1] or [tt["otherwise"]])[0]
        try:
            tb = Table(prog, site, start=some, stop={h}, inline=1)
        except TooComplex as e:
            rep.fail(R, "directive-pass-table", "one iteration of the directive pass is not a loop-free classifier: %s" % e)
            return
        rows = []
        for (cons, _res), calls in zip(tb.rows, tb.calls):
            rows.append((cons, [a[-1] for n, a in calls if n == "alloc::vec::Vec::push" and a and a[-1].startswith("LocalLogicalLine(")]))
        where = site
    cdk = prog.adts.get(LANG + "ConditionalDirectiveKind")
    allk = {v["name"] for v in cdk["variants"]} if cdk else set()
    bad = []
    seen = {"CompilerDirective": 0, "ConditionalDirective": set(), "other": 0}
    for cons, ps in rows:
        kind = None
        for c in cons:
            if c[0] == "is" and c[2] in ("CompilerDirective", "ConditionalDirective") and "@ConditionalDirective" not in c[1]:
                kind = c[2]
        sub = [c[2] for c in cons if c[0] == "is" and "@ConditionalDirective.0" in c[1]]
        excluded = set()
        for c in cons:
            if c[0] == "not" and "@ConditionalDirective.0" in c[1]:
                excluded |= set(c[2])
        if kind == "ConditionalDirective" and not sub and allk and excluded >= allk:
            continue            # infeasible: every kind excluded
        conds = [(c[1], c[2]) for c in cons if c[0] == "cond"]
        attributed = [v for k, v in conds if k.startswith("contains(") or "contains(" in k]
        other = [k for k, v in conds if "contains(" not in k]
        if other:
            bad.append(("an additional condition decides: %s" % other[:2], kind, sub))
            continue
        if attributed and attributed[0] != 0:
            if ps:
                bad.append(("an attributed directive gets a second line", kind, sub))
            continue
        if kind in ("CompilerDirective", "ConditionalDirective"):
            # (the `vec![token_index]` field is initialised through a raw box in MIR: its element is not visible to the table)
            okp = len(ps) == 1 and ps[0].rstrip(")").endswith(kind)
            if not okp:
                bad.append(("no line / wrong line: %s" % [x[-60:] for x in ps], kind, sub))
            if kind == "CompilerDirective":
                seen["CompilerDirective"] += 1
            else:
                seen["ConditionalDirective"] |= set(sub)
        else:
            seen["other"] += 1
            if ps:
                bad.append(("a non-directive token gets a directive line", kind, sub))
    complete = seen["CompilerDirective"] >= 1 and (not allk or seen["ConditionalDirective"] >= allk) and seen["other"] >= 1
    rep.check(not bad and complete, R, "directive-pass-table",
              "one step of parse_file's directive pass deviates from `CompilerDirective / every ConditionalDirective kind -> exactly one line of its own type with this token; other tokens -> none; only "
              "`attributed_directives.contains(index)` may skip`: %s%s" % (bad[:3], "" if complete else "; kinds covered: %s" % {k: (sorted(v) if isinstance(v, set) else v) for k, v in seen.items()}),
              where="%s:%d" % (where.file, where.line), instance={"site": short(site.npath), "paths": len(rows), "conditional_kinds_covered": sorted(seen["ConditionalDirective"]), "deviations": [str(x) for x in bad[:3]]})


def check_c14(prog, rep, tier, cfg):
    pass_exhaustiveness(prog, rep, "C14.f")
    # ---------------------------------------------------------------- C14.a cursor writers & push-before-advance
    R = "C14.a"
    acc = prog.field_accesses(LLP, "pass_index")
    writers = sorted({a[0].npath for a in acc if a[3].startswith("write") or a[3] == "refmut"})
    want = sorted([LLP + "::next_token", LLP + "::skip_token", LLP + "::finish_logical_line"])
    import layout
    # a private helper extracted from a reviewed writer (every call site in reviewed code) is part of that writer: the structural rules
    # below are evaluated on the writer's body with such helpers spliced in
    acc_w = layout.helper_closure(prog, writers, want)
    rep.check(not [w for w in writers if w not in acc_w and w not in want], R, "who-writes:pass_index", "the pass cursor is advanced in %s (reviewed: next_token, skip_token, finish_logical_line)" % [short(w) for w in writers],
              instance={"writers": [short(w) for w in writers], "accepted_as_part_of_reviewed_code": {short(k): v for k, v in acc_w.items()}})
    rep.floor(R, "pass_index stores", len([a for a in acc if a[3].startswith("write")]), 3)
    for fn in ("next_token", "finish_logical_line"):
        b = prog.inlined(LLP + "::" + fn)
        if not rep.check(b is not None, R, "anchor:" + fn, "%s not found" % fn):
            continue
        stores = [a for a in prog.field_accesses(LLP, "pass_index", bodies=[b]) if a[3].startswith("write")]
        pushes = [c for c in b.calls_to("alloc::vec::Vec::push")]
        og = Origins(b)
        def from_token_index(op):
            for x in og.of_operand(op):
                if x[0] == "call" and x[2] == LLP + "::get_current_token_index":
                    return True
                if x[0] == "call" and x[2] == "core::option::Option::zip":
                    t = b.blocks[x[1]]["term"]
                    if any(y[0] == "call" and y[2] == LLP + "::get_current_token_index" for a in t["args"] for y in og.of_operand(a)):
                        return True
            return False
        tok_pushes = [c for c in pushes if from_token_index(c.args[1]) and "tokens" in canon(b, c.args[0])]
        if not rep.check(len(stores) == 1 and len(tok_pushes) == 1, R, fn + ":one-store-one-push",
                         "%s must contain exactly one cursor store and one push of the current token index to the current line (found %d/%d)" % (fn, len(stores), len(tok_pushes))):
            continue
        sb = stores[0][1]
        pb = tok_pushes[0].bb
        loops = [(h, L) for h, L in b.loops().items() if sb in L]
        if not rep.check(bool(loops), R, fn + ":store-in-loop", "cursor store of %s is no longer in its loop" % fn):
            continue
        h, L = min(loops, key=lambda x: len(x[1]))
        # blocks reached only through the None edge of get_current_token_index()
        none_targets = set()
        for c in b.calls_to(LLP + "::get_current_token_index"):
            tgt = c.t["target"]
            t = b.blocks[tgt]["term"]
            if t["k"] == "switch":
                some = [x for v, x in t["targets"] if v == 1]
                none_targets.add(t["otherwise"] if some else None)
        none_targets.discard(None)
        if fn == "finish_logical_line":
            ok = b.dominates(pb, sb) and pb in L
            rep.check(ok, R, fn + ":push-dominates-advance", "finish_logical_line advances the cursor over an inline comment without pushing it to the line",
                      where="%s:%d" % (b.file, b.line), instance={"push": "tokens.push(token_index)", "dominates": "pass_index += 1"})
        else:
            path = bfs_path(b, h, {sb}, {pb} | none_targets)
            rep.check(path is None, R, fn + ":advance-only-after-push-or-at-end",
                      "next_token can advance the cursor without pushing the current token to the current line (other than past the end of the pass)",
                      where="%s:%d" % (b.file, b.line), instance={"via": ["tokens.push(token_index)", "None edge of get_current_token_index()"]})
    # ---------------------------------------------------------------- C14.b skipped directives get their own line later
    R = "C14.b"
    sk = prog.who_calls(LLP + "::skip_token")
    rep.check({c.body.npath for c in sk} == {LLP + "::parse_structures"} and len(sk) == 1, R, "who-calls:skip_token", "skip_token is called from %s" % sorted({short(c.body.npath) for c in sk}),
              instance={"callers": sorted({short(c.body.npath) for c in sk})})
    if len(sk) == 1:
        facts = dominating_variant_facts(prog, sk[0].body, sk[0].bb)
        rep.check(any(f[1] == "is" and f[2] == ("CompilerDirective",) and "get_current_token_type(" in f[0] for f in facts), R, "skip-only-compiler-directives",
                  "skip_token is no longer confined to CompilerDirective tokens", where=sk[0].where(), instance={"guard": "token type = CompilerDirective"})
    nt = prog.body(LLP + "::next_token")
    if nt is not None:
        ins = nt.calls_to("std::collections::hash::set::HashSet::insert")
        ok = len(ins) == 1
        if ok:
            facts = dominating_variant_facts(prog, nt, ins[0].bb)
            ok = any(f[1] == "is" and f[2] == ("CompilerDirective",) for f in facts)
            ok &= any(x[0] == "call" and x[2] == LLP + "::get_current_token_index" for x in Origins(nt).of_operand(ins[0].args[1]))
        rep.check(ok, R, "attributed-only-pushed-directives", "attributed_directives.insert is no longer tied to a CompilerDirective token that next_token just pushed to a line")
    allins = [c for c in prog.who_calls("std::collections::hash::set::HashSet::insert") if c.body.npath.startswith(P)]
    rep.check({c.body.npath for c in allins} == {LLP + "::next_token"}, R, "who-inserts:attributed_directives", "attributed directive set is filled in %s" % sorted({short(c.body.npath) for c in allins}))
    pf = prog.body(P + "parse_file")
    if rep.check(pf is not None, R, "anchor:parse_file", "parse_file not found"):
        directive_pass_table(prog, rep, R, pf)
    # ---------------------------------------------------------------- C14.c partition of conditional directive kinds
    R = "C14.c"
    tabs = {}
    for fn in ("is_if", "is_else", "is_end"):
        try:
            tabs[fn] = variant_truth(prog, LANG + "ConditionalDirectiveKind::" + fn)
        except TooComplex:
            tabs[fn] = None
    if rep.check(all(tabs.values()), R, "tables", "is_if / is_else / is_end are no longer loop-free classifiers over ConditionalDirectiveKind"):
        variants = sorted(tabs["is_if"].keys())
        for v in variants:
            trues = [fn for fn in tabs if tabs[fn].get(v) is True]
            unknown = [fn for fn in tabs if tabs[fn].get(v) is None]
            rep.check(len(trues) == 1 and not unknown, R, "partition:" + v, "conditional directive kind %s is classified by %s (must be exactly one of is_if/is_else/is_end, otherwise it gets no line or two)" % (v, trues),
                      instance={"variant": v, "class": trues})
        rep.floor(R, "ConditionalDirectiveKind variants", len(variants), 8)
    # ---------------------------------------------------------------- C14.d Eof line
    R = "C14.d"
    pb = prog.body(LLP + "::parse")
    if rep.check(pb is not None, R, "anchor:parse", "InternalDelphiLogicalLineParser::parse not found"):
        seq = [c.callee.split("::")[-1] for c in pb.calls() if (c.callee or "").startswith(LLP + "::")]
        rep.check(seq == ["parse_statement_list_with_type_and_predicate", "finish_logical_line", "next_token", "set_logical_line_type", "finish_logical_line"], R, "eof-sequence",
                  "parse() no longer ends with finish_logical_line; next_token (Eof); set_logical_line_type(Eof); finish_logical_line — found %s" % seq, instance={"sequence": seq})
        rep.check(not pb.loops() and len([b for b in pb.reachable() if pb.blocks[b]["term"]["k"] == "switch"]) == 0, R, "eof-sequence-unconditional", "parse() now branches or loops around the Eof line emission")
        ev = [v for a, v in enum_variants_mentioned(pb) if a.endswith("LogicalLineType")]
        rep.check(ev == ["Eof"], R, "eof-line-type", "parse() sets line type %s for the last line" % ev, instance={"line_type": ev})
    cp = prog.body(P + "consolidate_pass_lines")
    if rep.check(cp is not None, R, "anchor:consolidate_pass_lines", "consolidate_pass_lines not found"):
        from panic import dominating_conditions
        # the only `continue` (skip) is under tokens.is_empty(): path-wise over one iteration of the loop over the pass' lines — a path on which
        # the line has tokens registers it in the map (entry / insert on a miss) or finds it there (get -> Some: merged with an equal line)
        ok = False
        loops_c = [(h, L) for h, L in cp.loops().items() if any(c.bb == h and (c.callee or "").endswith("Iterator::next") for c in cp.calls())]
        if loops_c:
            h, L = max(loops_c, key=lambda x: len(x[1]))
            nx = [c for c in cp.calls() if c.bb == h and (c.callee or "").endswith("Iterator::next")][0]
            tt = cp.blocks[nx.t["target"]]["term"]
            some = ([t_ for v, t_ in tt.get("targets", []) if v == 1] or [tt.get("otherwise")])[0]
            try:
                tbc = Table(prog, cp, start=some, stop={h}, inline=1)
                ok = bool(tbc.rows)
                n_reg = 0
                for (cons, res), calls in zip(tbc.rows, tbc.calls):
                    empty = [c2[2] for c2 in cons if c2[0] == "cond" and "is_empty(" in str(c2[1]) and "tokens" in str(c2[1])]
                    names = [n_ for n_, _a in calls]
                    registered = any(n_.endswith("HashMap::entry") or n_.endswith("HashMap::insert") for n_ in names) or \
                        any(c2[0] == "is" and c2[2] == "Some" and "get(" in str(c2[1]) and "arg1" in str(c2[1]) for c2 in cons)
                    if empty and empty[0] != 0:
                        continue                      # a line without tokens: skipped
                    if not empty or not registered:
                        ok = False
                    n_reg += 1 if registered else 0
                ok = ok and n_reg >= 1
            except TooComplex:
                ok = False
        rep.check(ok, R, "only-empty-lines-skipped", "consolidate_pass_lines drops lines for a reason other than `tokens.is_empty()`", instance={"skip_condition": "line.tokens.is_empty()"})
    # ---------------------------------------------------------------- C14.e who mutates line token lists
    contexts_end_only_by_their_predicate(prog, rep, "C14.g")
    no_parsed_subtree_is_dropped(prog, rep, "C14.h")
    every_pass_is_parsed(prog, rep, "C14.i")
    R = "C14.e"
    w1 = sorted({a[0].npath for a in prog.field_accesses(P + "LocalLogicalLine", "tokens") if a[3] in ("refmut", "write", "write-inner")})
    import layout as _layout
    rev1 = sorted([LLP + "::next_token", LLP + "::finish_logical_line"])
    acc1 = _layout.helper_closure(prog, w1, rev1)
    rep.check(not [x for x in w1 if x not in acc1 and x not in rev1] and (LLP + "::next_token") in w1, R, "who-mutates:LocalLogicalLine.tokens", "LocalLogicalLine.tokens is mutated in %s" % [short(x) for x in w1],
              instance={"mutators": [short(x) for x in w1], "accepted_as_part_of_reviewed_code": {short(k): v for k, v in acc1.items()}})
    w2 = sorted({a[0].npath for a in prog.field_accesses(LANG + "LogicalLine", "tokens") if a[3] in ("refmut", "write", "write-inner")})
    rep.check(w2 == sorted([LANG + "LogicalLine::get_tokens_mut", LANG + "LogicalLine::void_and_drain"]), R, "who-mutates:LogicalLine.tokens", "LogicalLine.tokens is mutated in %s" % [short(x) for x in w2],
              instance={"mutators": [short(x) for x in w2]})
    gm = sorted({c.body.npath for c in prog.who_calls(LANG + "LogicalLine::get_tokens_mut") if c.body.crate.startswith("pasfmt")})
    rep.check(set(gm) <= {"pasfmt_core::formatter::delete_marked_tokens", "pasfmt_core::rules::conditional_directive_consolidator::ConditionalDirectiveConsolidator::expand_line",
                          "<pasfmt_core::rules::conditional_directive_consolidator::ConditionalDirectiveConsolidator as pasfmt_core::traits::LogicalLinesConsolidator>::consolidate"}, R,
              "who-calls:get_tokens_mut", "LogicalLine::get_tokens_mut is used in %s" % [short(x) for x in gm], instance={"callers": [short(x) for x in gm]})
    vd = sorted({c.body.npath for c in prog.who_calls(LANG + "LogicalLine::void_and_drain") if c.body.crate.startswith("pasfmt")})
    dp = "<pasfmt_core::rules::deindent_package_directives::DeindentPackageDirectives as pasfmt_core::traits::LogicalLinesConsolidator>::consolidate"
    dpb = prog.body(dp)
    if dpb is not None and dp in vd:
        # the drained tokens are collected and re-installed in a new line that replaces the old one
        vc = dpb.calls_to(LANG + "LogicalLine::void_and_drain")
        nw = dpb.calls_to(LANG + "LogicalLine::new")
        sw = dpb.calls_to("core::mem::swap")
        ok = len(vc) == 1 and len(nw) == 1 and len(sw) == 1
        if ok:
            o3 = Origins(dpb, extra_identity={"core::iter::traits::iterator::Iterator::collect"}).of_operand(nw[0].args[2])
            ok = any(x[0] == "call" and x[1] == vc[0].bb for x in o3)
        rep.check(ok, R, "deindent-reinstalls-drained-tokens", "DeindentPackageDirectives drains a line's tokens without re-installing all of them in the replacement line",
                  instance={"drain": "void_and_drain().collect()", "reinstalled_by": "LogicalLine::new + mem::swap"})
    rep.check(set(vd) <= {"pasfmt_core::formatter::delete_marked_tokens", "pasfmt_core::formatter::Formatter::format_into_buf", dp,
                          "<pasfmt_core::rules::conditional_directive_consolidator::ConditionalDirectiveConsolidator as pasfmt_core::traits::LogicalLinesConsolidator>::consolidate"}, R,
              "who-calls:void_and_drain", "LogicalLine::void_and_drain is used in %s" % [short(x) for x in vd], instance={"callers": [short(x) for x in vd]})
    # every non-conditional token is part of the first pass / the tree covers all indices: DirectiveTree::parse enumerates the whole slice
    dt = prog.body(P + "directive_tree::DirectiveTree::parse")
    if rep.check(dt is not None, R, "anchor:DirectiveTree::parse", "DirectiveTree::parse not found"):
        seq = sorted(c.callee.split("::")[-1] for c in dt.calls())
        rep.check(seq == ["enumerate", "iter", "map", "parse_next"], R, "tree-built-from-all-tokens", "DirectiveTree::parse no longer enumerates the full token slice: %s" % seq, instance={"chain": seq})


def no_parsed_subtree_is_dropped(prog, rep, R):
    """C14.h — the conditional-directive tree keeps everything that was parsed into it: the tree / section a builder function of
    directive_tree.rs returns is, on every path to the caller's return (or to the next call that overwrites it), moved into the
    structure under construction (a push, an aggregate, the return value).  A branch that is parsed and then dropped — e.g. a
    `while let (tree, Some(kind)) = parse_next(..)` that forgets the tree when the file ends inside the section — takes all its
    tokens, and the end-of-file token, out of every pass: they appear in no logical line."""
    DT = "pasfmt_core::defaults::parser::directive_tree::"

    def tree_ty(t):
        t = t or ""
        return ("directive_tree::DirectiveTree" in t or "directive_tree::Section" in t) and "&" not in t and "Vec<" not in t and "Iter" not in t and "*" not in t

    def moves_of(b, L):
        """[(bb, kind, target_local|None)] for every move of local L (whole, or its tree-typed field)"""
        out = []

        def is_move(op):
            if op.get("k") != "move" or op["place"]["l"] != L:
                return False
            pr = op["place"]["p"]
            if not pr:
                return True
            return all(pe["k"] == "field" for pe in pr) and tree_ty(pr[-1].get("ty", ""))
        for bb, i, st in b.stmts():
            if st["k"] != "assign":
                continue
            from facts import _rv_operands
            for op in _rv_operands(st["rv"]):
                if is_move(op):
                    plain = st["rv"]["k"] == "use" and not st["dst"]["p"] and st["dst"]["l"] != 0
                    out.append((bb, "local" if plain else "sink", st["dst"]["l"] if plain else None))
        for c in b.calls():
            if any(is_move(a) for a in c.args):
                out.append((c.bb, "sink", None))
        return out

    def lost(b, L, def_bb, redefs, depth=0):
        """a path description if the value in L (defined at the end of / in def_bb) can reach a return or its own re-definition unmoved"""
        mv = moves_of(b, L)
        blocks = {m[0] for m in mv}
        goals = set(b.return_blocks()) | set(redefs)
        starts = [def_bb] if def_bb in blocks else list(b.succ[def_bb])
        for st0 in starts:
            if st0 in blocks:
                continue
            if st0 in goals or b.can_reach_avoiding(st0, goals, blocks):
                return "`%s` (bb%d) reaches the function's end or its next assignment without being moved anywhere" % (b.local_name(L) or "_%d" % L, def_bb)
        if depth < 6:
            for bb, kind, tgt in mv:
                if kind == "local":
                    r = lost(b, tgt, bb, [d[1] for d in b.defs.get(tgt, []) if d[0] in ("assign", "call") and d[1] != bb], depth + 1)
                    if r:
                        return r
        return None
    n = 0
    for b in prog.bodies.values():
        if not b.npath.startswith(DT):
            continue
        for c in b.calls():
            cal = norm(c.t.get("resolved") or c.callee or "")
            if not cal.startswith(DT) or not tree_ty(c.t.get("dst_ty", "")):
                continue
            L = c.t["dst"]["l"] if isinstance(c.t["dst"], dict) else None
            if L is None or L == 0:
                n += 1
                continue
            n += 1
            r = lost(b, L, c.bb, [c.bb])
            rep.check(r is None, R, "parsed-subtree-kept:%s<-%s" % (short(b.npath), cal.split("::")[-1]),
                      "%s: the tree returned by %s can be dropped: %s — the tokens of that branch (up to the end of the file) are then in no pass and in no logical line"
                      % (short(b.npath), cal.split("::")[-1], r), where=c.where(), instance={"in": short(b.npath), "builder": cal.split("::")[-1]})
    rep.floor(R, "builder call sites in directive_tree.rs whose result must be kept", n, 4)


PASS_DROPPERS = ("filter", "filter_map", "skip", "skip_while", "take", "take_while", "step_by", "map_while", "nth", "last", "find", "find_map", "dedup", "unique", "zip", "chunks")


def every_pass_is_parsed(prog, rep, R):
    """C14.i — every token is in a logical line only if every conditional-directive pass is given to the line parser: the loop of
    parse_file that consumes `tree.passes()` iterates the pass iterator itself — no adaptor that can leave passes out (take / skip /
    step_by / filter ..) sits between the iterator and the loop, and the loop is left only when the iterator is exhausted."""
    b = prog.body(P + "parse_file")
    if not rep.check(b is not None, R, "anchor:parse_file", "parse_file not found"):
        return
    loops = b.loops()
    drivers = [(h, c) for h in loops for c in b.calls() if c.bb == h and (c.callee or "").endswith("Iterator::next")]
    pl = [(h, c, canon(b, c.args[0])) for h, c in drivers if re.search(r"\bpasses\(", canon(b, c.args[0])) and not canon(b, c.args[0]).startswith("into_iter(next(")]
    if not rep.check(len(pl) == 1, R, "anchor:pass-loop", "the loop of parse_file over DirectiveTree::passes() was not found (candidates: %d)" % len(pl)):
        return
    h, c, it = pl[0]
    used = sorted({d for d in PASS_DROPPERS if re.search(r"\b%s\(" % d, it)})
    rep.check(not used, R, "all-passes-consumed", "parse_file iterates the conditional-directive passes through %s: passes that are left out are never parsed, the tokens that only they reach are in no "
              "logical line (iterated: %s)" % (used, it[:120]), where=c.where(), instance={"iterated": it[:160]})
    # the only exit of the loop is the exhausted iterator
    L = loops[h]
    sw = c.t.get("target")
    t = b.blocks[sw]["term"] if sw is not None else {}
    none_tgt = [tb for v, tb in t.get("targets", []) if v == 0] if t.get("k") == "switch" else []
    exits = [(x, s2) for x in L for s2 in b.succ[x] if s2 not in L and b.blocks[s2]["term"]["k"] != "unreachable" and not b.blocks[s2].get("cleanup")]
    ok = bool(none_tgt) and all(x == sw and s2 == none_tgt[0] for x, s2 in exits)
    rep.check(ok, R, "pass-loop-ends-only-when-exhausted", "the pass loop of parse_file can be left before the pass iterator is exhausted (break / return inside the loop): the remaining passes are never parsed",
              where=c.where(), instance={"loop_exits": len(exits)})


def contexts_end_only_by_their_predicate(prog, rep, R):
    """C14.g — a parser context is marked as ended only when an ending predicate fired for it: every call of
    ParserContexts::update_statuses passes the index that get_ending_context_idx() returned, and nothing else writes `true` into
    is_ended.  The top-level context is never ended by its predicate mechanism while tokens remain; ending it by hand (`end.`
    closes everything) makes the top-level loop return early — the tokens after that point land in no logical line."""
    PC = P + "ParserContexts::"
    cs = [c for c in prog.who_calls(PC + "update_statuses") if c.body.crate.startswith("pasfmt")]
    n = 0
    for c in cs:
        o = Origins(c.body).of_operand(c.args[1])
        ok = bool(o) and all(x[0] == "call" and x[2] == PC + "get_ending_context_idx" for x in o)
        n += 1
        rep.check(ok, R, "ended-index-from-predicate:%s" % short(c.body.npath), "%s marks parser contexts as ended from index %s, which is not the result of get_ending_context_idx(): contexts (in the worst case the "
                  "top-level one) end although their predicate did not fire, the enclosing statement loop returns early and the remaining tokens get no logical line"
                  % (short(c.body.npath), sorted(str(x[2]) if x[0] != "call" else x[2].split("::")[-1] for x in o)), where=c.where(), instance={"caller": short(c.body.npath), "index": "get_ending_context_idx()"})
    w = sorted({a[0].npath for a in prog.field_accesses(P + "ParserContexts", "is_ended") if a[3] in ("write", "write-inner", "refmut")})
    stack_ops = {PC + "push", PC + "pop", PC + "push_context", PC + "pop_context"}
    markers = [x for x in w if x not in stack_ops and x != PC + "update_statuses"]
    # a function that marks contexts itself (lookup and marking fused): the marked range starts at the index the lookup returned
    for m in markers:
        mb = prog.body(m)
        look = [c for c in mb.calls() if norm(c.t.get("resolved") or c.callee or "") == PC + "get_ending_context_idx"]
        muts = [a for a in prog.field_accesses(P + "ParserContexts", "is_ended", within={m}) if a[3] in ("write", "write-inner", "refmut")]
        ok = len(look) >= 1 and all(any(mb.dominates(c.bb, a[1]) for c in look) for a in muts)
        idxs = [c for c in mb.calls() if (c.callee or "").split("::")[-1] in ("index_mut", "get_mut", "split_at_mut") and "is_ended" in canon(mb, c.args[0])]
        ok &= all("get_ending_context_idx(" in canon(mb, c.args[1]) for c in idxs) and (bool(idxs) or all(a[3] != "refmut" for a in muts))
        n += 1
        rep.check(ok, R, "ended-index-from-predicate:%s" % short(m), "%s marks parser contexts as ended at an index that is not the result of get_ending_context_idx()" % short(m),
                  where="%s:%d" % (mb.file, mb.line), instance={"caller": short(m), "index": "get_ending_context_idx()", "fused": True})
    rep.floor(R, "places that mark contexts as ended", n, 1)
    rep.check(set(w) - set(markers) <= stack_ops | {PC + "update_statuses"} and bool(n), R, "who-writes:is_ended",
              "ParserContexts.is_ended is written in %s" % [short(x) for x in w], instance={"writers": [short(x) for x in w]})


PROPERTIES = {
    "C14": (check_c14,
            "Structural clauses of C14: (a) the pass cursor is advanced only in next_token/skip_token/finish_logical_line, and every advance is preceded on its path by a push "
            "of that token to the current line (or is the step past the end of the pass); (b) skip_token is confined to CompilerDirective tokens, which — together with every "
            "conditional directive — get their own line in parse_file's directive pass unless next_token attributed them to a line; (c) is_if/is_else/is_end partition all "
            "ConditionalDirectiveKind variants (exhaustive, disjoint: otherwise a directive gets no line or two); (d) each pass unconditionally ends with the Eof line, and pass "
            "consolidation skips only empty lines; (e) the lists of line tokens are mutated only by the reviewed functions and the directive tree is built from the whole "
            "token slice; (f) passes stop only when every section of the directive tree is explored: explored()/pass() are complete, unadapted traversals of all sections, PassIter::next sets exhausted = tree.explored(). Not decided: strictly-increasing order, parent clauses, merging of passes. Added in round 6: (h) no parsed subtree of the conditional-directive tree is dropped (every builder result is moved into the structure on every path). Added in round 7: (i) every conditional-directive pass is given to the line parser.", []),
}
