"""C19 — configuration precedence and strictness; C15 clause 1 — cursor tracking never alters the result."""
import os
import re

from facts import norm, Origins
from progress import dominating_variant_facts, bfs_path
from table import Table, TooComplex, render
from util import canon, short, origins, const_args, enum_variants_mentioned, question_propagated, local_reads
import layout

CL = "pasfmt_orchestrator::command_line::"
PC = CL + "PasFmtConfiguration::"
FC = "pasfmt::FormattingConfig"
REPO = os.environ.get("PASFMT_REPO", "/repo")


INT_WIDTH = {"bool": 1, "char": 32, "u8": 8, "i8": 8, "u16": 16, "i16": 16, "u32": 32, "i32": 32, "u64": 64, "i64": 64, "usize": 64, "isize": 64, "u128": 128, "i128": 128}
CONFIG_PATH_FILES = ("front-end/src/lib.rs", "front-end/src/main.rs", "orchestrator/src/command_line.rs", "orchestrator/src/formatting_orchestrator.rs")


def cursor_positions_are_not_narrowed(prog, rep, R):
    """C15.j — "a cursor inside a token whose text is unchanged is reported at the same offset inside that token": the position of a
    cursor inside its token (distance to the next line break, number of line breaks behind it, column in the blanks) is kept in
    fields at least as wide as the cursor itself (u32).  In the cursor code of the reconstructor no byte count or line count is
    narrowed below 32 bits: a 16-bit field wraps for a comment line of 65536 bytes and moves the cursor by that much."""
    REC = "pasfmt_core::defaults::reconstructor::"
    n, bad = 0, []
    for b in prog.bodies.values():
        if not (b.npath.startswith(REC) or b.npath.startswith("<" + REC)) or ("process_cursors" not in b.npath and "relocate_cursors" not in b.npath):
            continue
        for bb, i, s2 in b.stmts():
            if s2["k"] != "assign" or s2["rv"]["k"] != "cast" or "IntToInt" not in str(s2["rv"].get("cast")):
                continue
            dst = str(s2["rv"].get("ty"))
            op = s2["rv"]["op"]
            src = str(op.get("ty")) if op["k"] == "const" else str(b.local_ty(op["place"]["l"]) if not op["place"]["p"] else "?")
            ws, wd = INT_WIDTH.get(src), INT_WIDTH.get(dst)
            if ws is None or wd is None:
                continue
            n += 1
            if wd < 32 and wd < ws:
                bad.append("%s:%s `%s as %s`" % (short(b.npath), abs(s2.get("line", 0)), src, dst))
    info = prog.adts.get(REC + "TokPos")
    narrow = []
    for v in (info or {}).get("variants", []):
        for f in v.get("fields", []):
            if str(f.get("ty")) in ("u16", "u8", "i16", "i8"):
                narrow.append("%s.%s: %s" % (v["name"], f.get("name"), f.get("ty")))
    # (the facts carry no field types of enum variants: the width of a field is read off what is stored into it where the value is built)
    built = 0
    for b in prog.bodies.values():
        if not (b.npath.startswith(REC) or b.npath.startswith("<" + REC)):
            continue
        for bb, i, s2 in b.stmts():
            if s2["k"] == "assign" and s2["rv"]["k"] == "aggregate" and norm(s2["rv"].get("adt", "")) == REC + "TokPos":
                built += 1
                for fname, op in zip(s2["rv"].get("fields") or [], s2["rv"]["ops"]):
                    ty = str(op.get("ty")) if op["k"] == "const" else (b.local_ty(op["place"]["l"]) if not op["place"]["p"] else "?")
                    if str(ty) in ("u16", "u8", "i16", "i8"):
                        narrow.append("%s.%s: %s (built in %s)" % (s2["rv"].get("variant"), fname, ty, short(b.npath)))
    rep.floor(R, "TokPos values built in the cursor code", built, 2)
    rep.check(not bad and not narrow, R, "cursor-positions-at-least-32-bits",
              "the position of a cursor inside its token is narrowed below 32 bits (%s): a line of 65536 bytes (or that many lines) in a comment or string moves the reported cursor by 65536 bytes inside "
              "a token whose text did not change" % (bad + narrow)[:3], instance={"int_casts": n, "narrowing": (bad + narrow)[:5]})
    rep.floor(R, "integer casts in the cursor code", n, 3)


def config_values_are_not_narrowed(prog, rep, R):
    """C19.f — an ill-typed (out-of-range) value is rejected, not wrapped: on the way from the option sources to the pipeline (front-end
    crate, the orchestrator's command-line and configuration code) no integer is narrowed with `as` (a u32 read for a u8 option and
    cast back turns 256 into 0 silently).  Widening casts are fine.  serde's own range check (`invalid value: integer 256, expected
    u8`) is what rejects such values as long as the declared field type is what is deserialised."""
    n = 0
    bad = []
    for b in prog.bodies.values():
        if b.file not in CONFIG_PATH_FILES:
            continue
        for bb, i, s2 in b.stmts():
            if s2["k"] != "assign" or s2["rv"]["k"] != "cast" or "IntToInt" not in str(s2["rv"].get("cast")):
                continue
            dst = str(s2["rv"].get("ty"))
            op = s2["rv"]["op"]
            src = str(op.get("ty")) if op["k"] == "const" else str(b.local_ty(op["place"]["l"]) if not op["place"]["p"] else "?")
            n += 1
            ws, wd = INT_WIDTH.get(src), INT_WIDTH.get(dst)
            signed_change = src[:1] != dst[:1] and src[:1] in "ui" and dst[:1] in "ui"
            if ws is None or wd is None:
                continue            # not an integer-to-integer narrowing the rule knows (enum discriminant read, ..)
            if wd < ws or (signed_change and wd <= ws and src not in ("bool", "char")):
                bad.append("%s:%s `%s as %s`" % (short(b.npath), s2.get("line"), src, dst))
    rep.check(not bad, R, "no-narrowing-cast-on-the-configuration-path", "an integer is narrowed on the configuration path: an out-of-range value (256 for a u8 option) is then accepted and wraps "
              "instead of being rejected: %s" % bad[:3], instance={"int_casts": n, "narrowing": bad[:5]})
    rep.floor(R, "integer casts seen on the configuration path (all widening)", n, 1)


def configuration_is_always_resolved(prog, rep, R):
    """C19.g — unknown keys and ill-typed values are rejected with a non-zero exit whatever else the invocation asks for: in the
    front-end's `format`, get_config_object() is called on every path to a return (no shortcut — empty path list, nothing to do —
    leaves before the configuration was resolved and validated)."""
    b = prog.body("pasfmt::format")
    if not rep.check(b is not None, R, "anchor:format", "pasfmt::format not found"):
        return
    gc = [c for c in b.calls() if (c.callee or "").endswith("PasFmtConfiguration::get_config_object") or (c.target or "").endswith("::get_config_object")]
    if not rep.check(len(gc) >= 1, R, "anchor:get_config_object", "format no longer calls get_config_object"):
        return
    avoid = {c.bb for c in gc}
    rets = list(b.return_blocks())
    bad = [r for r in rets if 0 not in avoid and b.can_reach_avoiding(0, {r}, avoid)]
    rep.check(not bad, R, "every-return-after-get_config_object", "pasfmt::format can return (bb%s) without having resolved the configuration: an invalid configuration is then accepted silently "
              "(exit 0) on that path" % bad[:3], where="%s:%d" % (b.file, b.line), instance={"returns": len(rets), "get_config_object_calls": len(gc)})
    # .. and its error reaches the handler
    ok = False
    for c in gc:
        for h in b.calls():
            if h.callee in ("core::ops::function::Fn::call", "core::ops::function::FnOnce::call_once", "core::ops::function::FnMut::call_mut") and b.dominates(c.bb, h.bb):
                f = dominating_variant_facts(prog, b, h.bb)
                if any("get_config_object" in x[0] and x[1] == "is" and x[2] == ("Err",) for x in f):
                    ok = True
    rep.check(ok, R, "config-error-reaches-handler", "the error of get_config_object is not handed to the error handler", instance={"handler": "err_handler(e) under Err"})


TEXT_IDENTITY = ("branch", "parse", "index", "to_owned", "to_string", "from", "into", "clone", "deref", "as_str", "as_ref", "borrow", "split_once", "split_at", "find", "ok_or_else", "ok_or",
                 "unwrap", "expect", "get", "RangeTo", "RangeFrom", "Range", "Add", "Sub", "tuple", "closure", "tmp", "Some", "Ok")


def override_list_is_handed_over_as_parsed(prog, rep, R):
    """C19.j — "command-line overrides win, in the order given": the list of `-C` options is what clap parsed, element for element,
    when the builder applies it (`set_override` makes the last value of a key the effective one).  Nothing but the clap-derived
    parser writes `PasFmtConfiguration.overrides` or borrows it mutably: a `retain` / `dedup` / `sort` / `truncate` between parsing and
    applying changes which of two values for one key takes effect, or hides an ill-typed value from validation."""
    PC = "pasfmt_orchestrator::command_line::PasFmtConfiguration"
    acc = [a for a in prog.field_accesses(PC, "overrides") if a[3].startswith("write") or a[3] == "refmut"]
    reads = [a for a in prog.field_accesses(PC, "overrides") if a[3] in ("ref", "read")]
    bad = sorted({a[0].npath for a in acc if "clap_builder::derive::" not in a[0].npath})
    rep.check(not bad, R, "override-list-immutable-after-parsing",
              "the list of -C overrides is modified after parsing, in %s: dropping, reordering or merging entries changes which value of a repeated key takes effect "
              "(the builder lets the last one win) and which values are validated" % [short(x) for x in bad],
              where=("%s:%d" % (prog.body(bad[0]).file, prog.body(bad[0]).line)) if bad else None,
              instance={"mutable_accesses": sorted(short(a[0].npath) for a in acc), "readers": sorted({short(a[0].npath) for a in reads})})
    rep.floor(R, "readers of the override list", len({a[0].npath for a in reads}), 2)


def override_text_is_taken_as_written(prog, rep, R):
    """C19.i — "equal configurations however specified" and "unknown keys are rejected": the key and the value of a `-C KEY=VALUE`
    override reach the configuration builder as the text on either side of the first `=`, through slicing and copying only.  A key
    that is case-mapped, trimmed or has characters replaced on the way accepts names (`TAB-WIDTH`) that the same option rejects
    when it comes from a file; a rewritten value changes what the user asked for."""
    bs = [b for k, b in prog.bodies.items() if k.endswith("command_line::parse_override")]
    if not rep.check(len(bs) == 1, R, "anchor:parse_override", "parse_override not found"):
        return
    b = bs[0]
    n = 0
    for bb, i, st in b.stmts():
        if st["k"] == "assign" and st["rv"]["k"] == "aggregate" and st["rv"].get("variant") == "Set":
            f = dict(zip(st["rv"]["fields"], st["rv"]["ops"]))
            for name in ("key", "val"):
                if name not in f:
                    continue
                n += 1
                text = canon(b, f[name])
                fns = set(re.findall(r"([A-Za-z_][A-Za-z_0-9:]*)[({]", text))
                other = sorted(x for x in fns if x.split("::")[-1] not in TEXT_IDENTITY)
                rep.check(not other and "arg1" in text, R, "override-%s-as-written" % name,
                          "the %s of a -C override is not the text the user wrote next to the `=`: it passes through %s (%s) — names or values that differ from the documented ones are then accepted "
                          "from the command line but not from a file" % (name, other, text[:100]), where="%s:%d" % (b.file, abs(st.get("line", 0))), instance={"field": name, "derivation": text[:140]})
    rep.floor(R, "fields of ConfigOverride::Set built from the argument", n, 2)


def explicit_config_file_must_be_a_file(prog, rep, R):
    """C19.h — "the file given with --config-file must exist and be a regular file": the `config` crate resolves a file source by
    trying the path and then the path with known extensions appended, so `--config-file alt` silently reads `alt.toml`.  In
    get_config_object the explicit path is therefore tested with Path::is_file() and the negative outcome ends in Err, before the
    path reaches the builder."""
    from panic import dominating_conditions
    g = prog.inlined(PC + "get_config_object", keep=("get_config_object_from_file", "find_config_file", "current_dir", "is_file"))
    if not rep.check(g is not None, R, "anchor:get_config_object", "get_config_object not found"):
        return
    gf = g.calls_to(PC + "get_config_object_from_file")
    isf = [c for c in g.calls() if (c.callee or "") == "std::path::Path::is_file"]
    ok = len(gf) >= 1 and len(isf) >= 1
    if ok:
        # the test is applied to the explicit file ...
        explicit = any(any(x[0] == "param" and "config_file" in str(x[2]) for x in Origins(g).of_operand(c.args[0])) or "arg1.config_file" in canon(g, c.args[0]) for c in isf)
        # ... and `not a file` cannot reach the builder call: path by path (the test may sit in a helper whose Err comes back through `?`)
        blocked = None
        try:
            tb = Table(prog, g, inline=1, opaque=("get_config_object_from_file", "find_config_file", "is_file", "current_dir"))
            blocked = True
            seen_neg = 0
            for (cons, res), calls in zip(tb.rows, tb.calls):
                neg = any(c[0] == "cond" and c[1].startswith("is_file(") and c[2] == 0 for c in cons)
                if neg:
                    seen_neg += 1
                    if any(nm.endswith("get_config_object_from_file") for nm, _ in calls):
                        blocked = False
                # .. and every path on which the explicit file is handed to the builder has seen `is_file() == true` for it (a test that
                # is only made under a further condition — "only for names without an extension" — leaves the other paths open)
                handed = [a for nm, a in calls if nm.endswith("get_config_object_from_file") and any(re.search(r"\.config_file\b", str(x)) for x in a)]
                if handed and not any(c[0] == "cond" and c[1].startswith("is_file(") and re.search(r"\.config_file\b", c[1]) and c[2] != 0 for c in cons):
                    blocked = False
            blocked = blocked and seen_neg >= 1
        except TooComplex:
            blocked = None
        for c in (isf if blocked is None else []):
            tgt = c.t.get("target")
            t = g.blocks[tgt]["term"] if tgt is not None else {}
            if t.get("k") == "switch":
                false_tgt = [tb for v, tb in t["targets"] if v == 0]
                if false_tgt and gf[0].bb not in g.reach_from(false_tgt[0], include_start=True):
                    blocked = True
        ok = explicit and bool(blocked)
    rep.check(ok, R, "explicit-config-file-is_file", "get_config_object hands the --config-file path to the `config` crate without requiring Path::is_file(): a path that does not exist is then "
              "resolved by appending `.toml` / other extensions (`--config-file alt` reads `alt.toml`)", where="%s:%d" % (g.file, g.line),
              instance={"is_file_tests": len(isf), "negative_outcome": "Err before the builder"})


def check_c19(prog, rep, tier, cfg):
    config_values_are_not_narrowed(prog, rep, "C19.f")
    configuration_is_always_resolved(prog, rep, "C19.g")
    explicit_config_file_must_be_a_file(prog, rep, "C19.h")
    override_text_is_taken_as_written(prog, rep, "C19.i")
    override_list_is_handed_over_as_parsed(prog, rep, "C19.j")
    # ---------------------------------------------------------------- C19.a layering
    R = "C19.a"
    b = prog.body(PC + "get_config_object_from_file")
    if rep.check(b is not None, R, "anchor:get_config_object_from_file", "get_config_object_from_file not found"):
        from util import family_bodies as _fam
        fam_b = [b] + [x for x in prog.bodies.values() if x.npath.startswith(b.npath + "::")]
        for x, _a, _c in _fam(prog, b):           # closures, function items handed to adapters, private helpers of the same impl
            if x not in fam_b and x.npath.startswith(PC):
                fam_b.append(x)
        cc = [c.callee for x in fam_b for c in x.calls() if (c.callee or "").startswith("config::")]
        rep.check(set(cc) == {"config::config::Config::builder", "config::file::File::format", "config::builder::ConfigBuilder::add_source", "config::builder::ConfigBuilder::build",
                              "config::builder::ConfigBuilder::set_override", "config::config::Config::try_deserialize"}, R, "builder-calls",
                  "configuration is assembled with %s (reviewed: builder, File::format(Toml), add_source, set_override, build, try_deserialize — no set_default, no required(false))" % sorted(cc),
                  instance={"calls": sorted(x.split("::")[-1] for x in cc)})
        ads = b.calls_to("config::builder::ConfigBuilder::add_source")
        if ads:
            facts = dominating_variant_facts(prog, b, ads[0].bb)
            rep.check(any(f[0] == "arg2" and f[2] == ("Some",) for f in facts), R, "file-source-iff-config-file", "the file source is not added exactly when a configuration file is present")
            ff = b.calls_to("config::file::File::format")
            ok = len(ff) == 1 and any(v == "Toml" for a, v in enum_variants_mentioned(b))
            rep.check(ok, R, "file-format-toml", "the configuration file is not read as TOML")
        so = b.calls_to("config::builder::ConfigBuilder::set_override")
        so_cl = [(x, c) for x in fam_b if x is not b for c in x.calls_to("config::builder::ConfigBuilder::set_override")]
        if not so and len(so_cl) == 1:
            # iterator form: overrides.iter().filter_map(Set -> Some((key, val)), Help -> None).try_fold(builder, |b, (k, v)| b.set_override(k, v))?
            cl, sc = so_cl[0]
            tf = [c for c in b.calls() if (c.callee or "").split("::")[-1] in ("try_fold", "try_for_each") and any(
                (a["k"] in ("copy", "move") and not a["place"]["p"] and norm(b.locals[a["place"]["l"]].get("closure") or "") == cl.npath) or
                (a["k"] == "const" and norm(a.get("fn") or "") == cl.npath) for a in c.args)]
            ok_it = len(tf) == 1
            why = "set_override is not the body of one try_fold / try_for_each over the overrides"
            ident = {"core::slice::iter", "core::iter::traits::iterator::Iterator::filter_map", "core::iter::traits::iterator::Iterator::map",
                     "core::iter::traits::collect::IntoIterator::into_iter", "core::ops::deref::Deref::deref"}
            sel_bodies = [b]            # where the items to apply are selected: here, or in a helper that returns the iterator
            if ok_it:
                chain = Origins(b, extra_identity=ident).of_operand(tf[0].args[0])
                expanded = set()
                for x in chain:
                    hb = prog.body(x[2]) if x[0] == "call" else None
                    if hb is not None and hb in fam_b and not hb.loops():
                        sel_bodies.append(hb)
                        expanded |= set(Origins(hb, extra_identity=ident).of_place({"l": 0, "p": []}))
                    else:
                        expanded.add(x)
                chain = expanded
                ok_it = bool(chain) and all(x[0] == "param" and "overrides" in str(x[2]) for x in chain)
                why = "the folded iterator is not self.overrides, element-wise (%s)" % sorted(map(str, chain))
            if ok_it:
                # every Set item is handed on by the selecting closure (a filter_map that drops a Set item would skip an override)
                fms = [(sb, c) for sb in sel_bodies for c in sb.calls() if (c.callee or "").endswith("Iterator::filter_map") or (c.callee or "").endswith("Iterator::filter")]
                for sb, fm in fms:
                    cn = sb.locals[fm.args[1]["place"]["l"]].get("closure") if fm.args[1]["k"] in ("copy", "move") else None
                    fb_ = prog.body(norm(cn)) if cn else None
                    good = False
                    if fb_ is not None and not fb_.loops():
                        tbl = Table(prog, fb_)
                        rows = [(cons, render(res)) for cons, res in tbl.rows]
                        set_rows = [r for cons, r in rows if any(c[0] == "is" and c[2] == "Set" for c in cons)]
                        good = bool(set_rows) and all(r.startswith("Some(") or r == "True" for r in set_rows)
                    ok_it &= good
                    why = "the closure selecting the items to apply can drop a ConfigOverride::Set item"
            if ok_it:
                ok_it = question_propagated(b, tf[0])
                why = "the result of the fold over the overrides is not `?`-propagated"
            if ok_it:
                # the closure applies its item and nothing else decides
                ok_it = not cl.loops() and len([c for c in cl.calls() if (c.callee or "").startswith("config::")]) == 1 and cl.dominates(0, sc.bb) and \
                    not any(cl.blocks[bb]["term"]["k"] == "switch" for bb in cl.reachable() if cl.dominates(bb, sc.bb) and bb != sc.bb)
                why = "set_override is conditional inside the fold's closure"
            rep.check(ok_it, R, "every-Set-item-is-applied", "a `-C key=value` item can be skipped: %s (an override that is not layered lets the file's value win)" % why,
                      where=sc.where(), instance={"form": "try_fold over overrides.iter().filter_map(Set)"})
            so = []          # order checks below use the fold as the override step
            so_step = tf[:1]
        else:
            so_step = so
        if so and rep.check(len(so) == 1, R, "one-set_override", "expected exactly one set_override call site (inside the loop over -C options)"):
            facts = dominating_variant_facts(prog, b, so[0].bb)
            rep.check(any(f[2] == ("Set",) for f in facts), R, "override-per-Set-item", "set_override is not applied to each ConfigOverride::Set item")
            a = [canon(b, x) for x in so[0].args[1:]]
            rep.check("@Set.key" in a[0] or ".key" in a[0], R, "override(key,val)", "set_override is not called with the item's key/value: %s" % a)
            rep.check(question_propagated(b, so[0]), R, "override-error-propagated", "an invalid -C override does not propagate as an error")
            rep.check(any(so[0].bb in L for L in b.loops().values()), R, "override-in-loop-over-all-items", "set_override is no longer applied inside the loop over all overrides")
            # every Set item reaches set_override: no way from the Set arm back to the loop header around it
            from progress import discr_source
            loops = [(h, L) for h, L in b.loops().items() if so[0].bb in L]
            set_arms = []
            for bb in sorted(b.reachable()):
                t = b.blocks[bb]["term"]
                key = discr_source(b, bb) if t["k"] == "switch" else None
                if key and loops and bb in loops[0][1]:
                    adt = None
                    for st in b.blocks[bb]["stmts"]:
                        if st["k"] == "assign" and st["rv"]["k"] == "discr":
                            adt = norm(st["rv"].get("adt", ""))
                    if adt and adt.endswith("ConfigOverride"):
                        for v, tgt in t["targets"]:
                            if prog.variant_of(adt, v) == "Set":
                                set_arms.append(tgt)
                        if prog.variant_of(adt, -1) is None and not set_arms:
                            set_arms.append(t["otherwise"])
            okall = bool(loops) and bool(set_arms)
            if okall:
                h, L = loops[0]
                for a in set_arms:
                    if a != so[0].bb and b.can_reach_avoiding(a, {h}, {so[0].bb}):
                        okall = False
            rep.check(okall, R, "every-Set-item-is-applied", "a `-C key=value` item can be skipped: there is a path from the Set arm back to the loop header that avoids set_override (an override that is not layered lets the file's value win)",
                      where=so[0].where(), instance={"set_arms": len(set_arms)})
        # order: file source before overrides before build
        bd = b.calls_to("config::builder::ConfigBuilder::build")
        td = b.calls_to("config::config::Config::try_deserialize")
        rep.check(bool(so_step), R, "override-step", "no step that applies the -C overrides was found in get_config_object_from_file")
        if ads and so_step and bd and td:
            so = so_step
            ok = b.can_reach_avoiding(ads[0].bb, {so[0].bb}, set()) and not b.can_reach_avoiding(so[0].bb, {ads[0].bb}, set()) and b.dominates(bd[0].bb, td[0].bb) \
                and not b.can_reach_avoiding(bd[0].bb, {so[0].bb}, set())
            rep.check(ok, R, "ORDER:file<overrides<build<deserialize", "file source / overrides / build / try_deserialize are out of order")
            rep.check(question_propagated(b, bd[0]), R, "build-error-propagated", "ConfigBuilder::build errors are not propagated")
            o = origins(b).of_place({"l": 0, "p": []})
            rep.check(any(x[0] == "call" and x[1] == td[0].bb for x in o), R, "returns-deserialised-object", "the function does not return the try_deserialize result")
    sd = [c for c in prog.who_calls("config::builder::ConfigBuilder::set_default") if c.body.crate.startswith("pasfmt")]
    rep.check(not sd, R, "no-set_default", "ConfigBuilder::set_default is used (a default layer would sit *below* the file, changing precedence): %s" % [short(c.body.npath) for c in sd], instance={"set_default_calls": len(sd)})
    rq = [c for c in prog.who_calls("config::file::File::required") if c.body.crate.startswith("pasfmt")]
    rep.check(not rq, R, "no-required(false)", "File::required is used: a missing --config-file would be silently ignored", instance={"required_calls": len(rq)})
    g = prog.inlined(PC + "get_config_object", keep=("get_config_object_from_file", "find_config_file", "current_dir", "is_file"))
    if rep.check(g is not None, R, "anchor:get_config_object", "get_config_object not found"):
        fc = g.calls_to(PC + "find_config_file")
        gf = g.calls_to(PC + "get_config_object_from_file")
        ok = len(fc) == 1 and len(gf) == 1
        if ok:
            facts = dominating_variant_facts(prog, g, fc[0].bb)
            ok = any("config_file" in f[0] and f[2] == ("None",) for f in facts)
            ok &= "current_dir" in canon(g, fc[0].args[0])
            o = origins(g, extra={"core::option::Option::map"}).of_operand(gf[0].args[1])
            ok &= any(x[0] == "call" and x[1] == fc[0].bb for x in o) and any(x[0] == "agg" and x[3].endswith("Option::Some") for x in o)
        if not ok:
            # path by path (the choice may sit in a helper): with --config-file the builder gets that path and no search is made; without it
            # the builder gets what find_config_file(current_dir()?) returned
            try:
                tbl = Table(prog, g, inline=1, opaque=("get_config_object_from_file", "find_config_file", "is_file", "current_dir"))
                seen_some = seen_none = 0
                ok = True
                for (cons, res), calls in zip(tbl.rows, tbl.calls):
                    gfc = [a for nm, a in calls if nm.endswith("get_config_object_from_file")]
                    if not gfc:
                        continue
                    arg = gfc[0][1] if len(gfc[0]) > 1 else ""
                    names = [nm.split("::")[-1] for nm, _ in calls]
                    if any(c[0] == "is" and c[1].endswith("config_file") and c[2] == "Some" for c in cons):
                        seen_some += 1
                        ok &= "arg1.config_file@Some.0" in arg and "find_config_file" not in names
                    elif any(c[0] == "is" and c[1].endswith("config_file") and c[2] == "None" for c in cons):
                        seen_none += 1
                        ok &= ("find_config_file(" in arg or any("find_config_file(" in str(c[1]) for c in cons)) and "current_dir" in names
                    else:
                        ok = False
                ok = ok and seen_some >= 1 and seen_none >= 1
            except TooComplex:
                ok = False
        rep.check(ok, R, "explicit-file-else-ancestor-search", "get_config_object no longer uses --config-file as is and otherwise searches from the current directory",
                  instance={"explicit": "Some(config_file)", "otherwise": "find_config_file(current_dir()?)"})
    ff = prog.body(PC + "find_config_file")
    if rep.check(ff is not None, R, "anchor:find_config_file", "find_config_file not found"):
        seq = sorted(c.callee.split("::")[-1] for c in ff.calls() if (c.callee or "").startswith("std::path::"))
        names = [v for c in ff.calls() for v in const_args(ff, c)]
        consts = []
        for st in prog.statics:
            pass
        fam = [ff] + [x for x in prog.bodies.values() if x.npath.startswith(ff.npath + "::")]
        seq = sorted(c.callee.split("::")[-1] for x in fam for c in x.calls() if (c.callee or "").startswith("std::path::"))
        iters = sorted(c.callee.split("::")[-1] for x in fam for c in x.calls() if (c.callee or "").startswith("core::iter::"))
        names = [v for x in fam for c in x.calls() for v in const_args(x, c)] + [str(st.get("value", "")) for st in []]
        form_loop = seq.count("pop") == 2 and "push" in seq and "is_file" in seq
        # .. or the library's own ancestor walk: every ancestor (nearest first, no skipping / limiting adaptor), first one that has the file
        form_iter = "ancestors" in seq and "join" in seq and "is_file" in seq and bool(iters) and set(iters) <= {"map", "find", "find_map", "into_iter"} and ("find" in iters or "find_map" in iters)
        rep.check(form_loop or form_iter, R, "ancestor-walk-shape", "find_config_file neither does push(name); is_file; pop; pop per level nor searches Path::ancestors() unadapted for the first directory that has the file: path calls %s, iterator calls %s" % (seq, iters),
                  instance={"path_calls": seq, "iterator_calls": iters, "form": "loop" if form_loop else "ancestors().find"})
    # ---------------------------------------------------------------- C19.b strictness of deserialisation
    R = "C19.b"
    fv = prog.body("<pasfmt::_::<impl serde::de::Deserialize for pasfmt::FormattingConfig>::deserialize::__FieldVisitor as serde::de::Visitor>::visit_str")
    fields = sorted(f["name"] for f in prog.local_adts[FC]["variants"][0]["fields"]) if FC in prog.local_adts else []
    if rep.check(fv is not None and fields, R, "anchor:FormattingConfig-deserialize", "derived Deserialize for FormattingConfig not found"):
        uf = fv.calls_to("serde::de::Error::unknown_field")
        keys = sorted(v for c in fv.calls() for v in const_args(fv, c))
        rep.check(len(uf) == 1, R, "unknown-key-is-error", "the field visitor of FormattingConfig does not reject unknown keys (deny_unknown_fields lost)", instance={"unknown_field_calls": len(uf)})
        rep.check(keys == fields, R, "accepted-keys=struct-fields", "keys accepted by deserialisation %s differ from the struct fields %s (a rename/alias changes the documented names)" % (keys, fields), instance={"keys": keys})
        okb = [bb for bb, i, s in fv.stmts() if s["k"] == "assign" and s["rv"]["k"] == "aggregate" and s["rv"].get("variant", "").startswith("__ignore")]
        rep.check(not okb, R, "no-ignore-variant", "unknown keys are mapped to an __ignore field")
    fadts = [a for k, a in prog.local_adts.items() if k.split("#")[0].endswith("deserialize::__Field")]
    ign = [a for a in fadts if any(v["name"] == "__ignore" for v in a["variants"])]
    rep.check(not ign and len(fadts) >= 3, R, "no-__ignore-in-any-derived-field-enum", "a derived __Field enum has an __ignore variant (unknown keys/variants silently accepted)", instance={"field_enums": len(fadts)})
    vm = [b for k, b in prog.bodies.items() if k.endswith("__Visitor as serde::de::Visitor>::visit_map") and b.crate == "pasfmt.lib"]
    ok = False
    for b in vm:
        mk = [s for _, _, s in b.stmts() if s["k"] == "assign" and s["rv"]["k"] == "aggregate" and norm(s["rv"].get("adt", "")) == FC]
        if mk:
            dflt = [c for c in b.calls() if c.callee == "core::default::Default::default" and norm(c.t.get("resolved") or "") == "<pasfmt::FormattingConfig as core::default::Default>::default"]
            md = [c for c in b.calls() if "missing_field" in (c.callee or "")]
            dup = [c for c in b.calls() if "duplicate_field" in (c.callee or "")]
            ok = len(dflt) == 1 and not md and len(dup) >= len(fields)
            rep.check(ok, R, "missing-keys-from-Default", "missing keys are not filled from FormattingConfig::default() (serde(default) lost) or duplicates are not rejected",
                      instance={"default_calls": len(dflt), "missing_field_calls": len(md), "duplicate_field_checks": len(dup)})
    rep.check(ok, R, "anchor:visit_map", "visit_map of FormattingConfig not found or not as reviewed")
    for en in ("LineEnding", "BeginStyle"):
        vs = prog.body("<pasfmt::_::<impl serde::de::Deserialize for pasfmt::%s>::deserialize::__FieldVisitor as serde::de::Visitor>::visit_str" % en)
        if rep.check(vs is not None, R, "anchor:%s-deserialize" % en, "derived Deserialize for %s not found" % en):
            uv = vs.calls_to("serde::de::Error::unknown_variant")
            names = sorted(v for c in vs.calls() for v in const_args(vs, c))
            rep.check(len(uv) == 1, R, "unknown-variant-is-error:" + en, "%s accepts unknown values" % en)
            want = {"LineEnding": ["CRLF", "LF", "crlf", "lf", "native"], "BeginStyle": ["always_wrap", "auto"]}[en]
            rep.check(names == want, R, "accepted-values:" + en, "%s accepts %s (documented: %s)" % (en, names, want), instance={"enum": en, "values": names})
    iv = prog.body("<pasfmt::InternalEncodingVisitor as serde::de::Visitor>::visit_str")
    if rep.check(iv is not None, R, "anchor:InternalEncodingVisitor", "InternalEncodingVisitor::visit_str not found"):
        # (the visitor, its closures and the front-end functions it calls: the classification may live in a helper)
        ivfam = [iv] + [x for k, x in prog.bodies.items() if k.startswith(iv.npath + "::")]
        for c in list(iv.calls()):
            hb = prog.body(norm(c.t.get("resolved") or c.callee or ""))
            if hb is not None and hb.crate == iv.crate and hb not in ivfam:
                ivfam.append(hb)
                ivfam += [x for k, x in prog.bodies.items() if k.startswith(hb.npath + "::")]
        inv = [c for x in ivfam for c in x.calls() if "invalid_value" in (c.callee or "")]
        fl = [c for x in ivfam for c in x.calls_to("encoding_rs::Encoding::for_label")]
        rep.check(len(inv) == 1 and len(fl) == 1, R, "unknown-encoding-is-error", "an unknown encoding label is not rejected", instance={"for_label": len(fl), "invalid_value": len(inv)})
        # the decision table of the visitor: `native` only for the word itself, a named encoding only for what for_label() knows, else an error
        try:
            tb = Table(prog, iv, inline=1, opaque=("for_label", "eq_ignore_ascii_case", "invalid_value"))
            rows = tb.rows
        except TooComplex as e:
            rows = None
            rep.fail(R, "encoding-visitor:table", "InternalEncodingVisitor::visit_str is no longer a decision table: %s" % e)
        if rows is not None:
            bad = []
            for cons, res in rows:
                r = render(res)
                pos = [c for c in cons if c[0] == "cond" and c[2] != 0 and re.match(r"^(eq_ignore_ascii_case|eq)\(.*NATIVE_ENCODING_NAME.*\)$", str(c[1]))]
                some = [c for c in cons if c[0] == "is" and c[2] == "Some" and str(c[1]).startswith("for_label(")]
                if r == "Ok(Native)":
                    if not pos:
                        bad.append("the platform encoding is chosen without the value being the word `native` (conditions: %s)" % [str(c[1])[:60] + ("" if c[2] else " = false") for c in cons if c[0] == "cond"])
                elif r.startswith("Ok(Named("):
                    if not some or "for_label(" not in r:
                        bad.append("a named encoding is produced that is not the result of Encoding::for_label: %s" % r[:80])
                elif not r.startswith("Err("):
                    bad.append("unexpected result %s" % r[:80])
            rep.check(not bad, R, "encoding-visitor:native-only-for-the-word",
                      "the `encoding` option accepts a value that is neither `native` nor a known label: %s" % bad[:2], where="%s:%d" % (iv.file, iv.line),
                      instance={"rows": len(rows), "results": sorted({render(res)[:40] for _, res in rows})})
    # ---------------------------------------------------------------- C19.c configuration errors come first
    R = "C19.c"
    fm = prog.body("pasfmt::format")
    if rep.check(fm is not None, R, "anchor:pasfmt::format", "pasfmt::format not found"):
        run = fm.calls_to("pasfmt_orchestrator::formatting_orchestrator::FormattingOrchestrator::run")
        gc = fm.calls_to(PC + "get_config_object")
        ok = len(run) == 1 and len(gc) == 1
        if ok:
            facts = dominating_variant_facts(prog, fm, run[0].bb)
            ok = any("get_config_object(" in f[0] and f[2] == ("Ok",) for f in facts)
        rep.check(ok, R, "run-only-after-config-ok", "FormattingOrchestrator::run (the only route to file effects) is not guarded by a successfully resolved configuration", instance={"guard": "get_config_object() = Ok"})
        # Err arm: handler then return
        hc = [c for c in fm.calls() if c.callee == "core::ops::function::Fn::call"]
        ok2 = False
        for c in hc:
            f2 = dominating_variant_facts(prog, fm, c.bb)
            if any("get_config_object(" in f[0] and f[2] == ("Err",) for f in f2) and run and not fm.can_reach_avoiding(c.bb, {run[0].bb}, set()):
                ok2 = True
        rep.check(ok2, R, "config-error-reported-and-stops", "a configuration error is not handed to the error handler followed by return")
        mk = fm.calls_to("pasfmt::make_formatter")
        rep.check(len(mk) == 1 and run and fm.dominates(mk[0].bb, run[0].bb), R, "formatter-built-from-resolved-config", "make_formatter is not called once before run")
    ro = prog.who_calls("pasfmt_orchestrator::formatting_orchestrator::FormattingOrchestrator::run")
    rep.check({c.body.npath for c in ro} == {"pasfmt::format"}, R, "who-calls:run", "FormattingOrchestrator::run is called from %s" % sorted({short(c.body.npath) for c in ro}))
    # ---------------------------------------------------------------- C19.d option inventory agrees
    R = "C19.d"
    docs = prog.body("<pasfmt::FormattingConfig as pasfmt_orchestrator::command_line::Configuration>::docs")
    if rep.check(docs is not None, R, "anchor:docs", "FormattingConfig::docs not found"):
        names = []
        for bb, i, s in docs.stmts():
            if s["k"] == "assign" and s["rv"]["k"] == "aggregate" and s["rv"].get("adt", "").endswith("ConfigItem"):
                f = dict(zip(s["rv"]["fields"], s["rv"]["ops"]))
                o = Origins(docs).of_operand(f["name"])
                names += [x[2] for x in o if x[0] == "const" and x[1] == "str"]
        rep.check(sorted(names) == fields, R, "AGREE:docs()=struct-fields", "options documented by docs() %s differ from the struct fields %s" % (sorted(names), fields), instance={"docs": sorted(names)})
        md = os.path.join(REPO, "docs", "CONFIGURATION.md")
        try:
            txt = open(md, encoding="utf-8").read()
            rows = re.findall(r"<tr>\s*<td>([a-z_]+)</td>", txt)
        except OSError:
            rows = None
        rep.check(rows is not None and sorted(rows) == fields, R, "AGREE:CONFIGURATION.md=struct-fields", "options listed in docs/CONFIGURATION.md %s differ from the struct fields %s" % (rows, fields), instance={"markdown": rows})
        rep.floor(R, "options", len(fields), 8)
    # ---------------------------------------------------------------- C19.e each option is read only at its conversion site
    R = "C19.e"
    site = {"wrap_column": layout.CONV_OLF, "begin_style": layout.CONV_OLF, "format_multiline_strings": layout.CONV_OLF,
            "use_tabs": layout.CONV_RS, "tab_width": layout.CONV_RS, "continuation_indents": layout.CONV_RS, "line_ending": layout.CONV_RS, "encoding": "pasfmt::format"}
    for f in fields:
        rd = layout.readers(prog, FC, f)
        allowed = [site.get(f), layout.DOCS, "pasfmt::FormattingConfig::max_line_length"] + layout.SERDE
        layout.inventory(rep, R, "readers of FormattingConfig." + f, rd, [a for a in allowed if a], "each option is interpreted at exactly one conversion site, so equal effective configurations give equal behaviour")
    cv = prog.body(layout.CONV_OLF)
    if cv is not None:
        agg = [s for _, _, s in cv.stmts() if s["k"] == "assign" and s["rv"]["k"] == "aggregate" and s["rv"].get("adt", "").endswith("OptimisingLineFormatterSettings")]
        ok = len(agg) == 1
        if ok:
            t = Table(prog, cv)
            m = {}
            for cons, res in t.rows:
                bs = [c[2] for c in cons if c[0] == "is" and "begin_style" in c[1]]
                if res.kind == "agg":
                    fl = dict(zip(agg[0]["rv"]["fields"], res.a[2]))
                    m[bs[0] if bs else "?"] = render(fl["break_before_begin"])
            rep.check(m == {"Always_Wrap": "True", "Auto": "False"}, R, "begin_style-mapping", "begin_style maps to break_before_begin as %s" % m, instance={"mapping": m})
    # default values documented = Default impl
    df = prog.body("<pasfmt::FormattingConfig as core::default::Default>::default")
    if rep.check(df is not None, R, "anchor:Default", "Default for FormattingConfig not found"):
        agg = [s for _, _, s in df.stmts() if s["k"] == "assign" and s["rv"]["k"] == "aggregate" and norm(s["rv"].get("adt", "")) == FC]
        ok = len(agg) == 1
        vals = {}
        if ok:
            for f, op in zip(agg[0]["rv"]["fields"], agg[0]["rv"]["ops"]):
                if op["k"] == "const":
                    vals[f] = op.get("int", op.get("bool"))
        rep.check(vals == {"use_tabs": False, "tab_width": 2, "continuation_indents": 2, "wrap_column": 120, "format_multiline_strings": True}, R, "defaults",
                  "default option values changed: %s (documented: wrap_column 120, tab_width 2, continuation_indents 2, use_tabs false, format_multiline_strings true)" % vals, instance={"defaults": vals})


# =========================================================================== C15 clause 1

FMT = "pasfmt_core::formatter::"


def check_c15(prog, rep, tier, cfg):
    # C15.m — asking for cursors does not change the bytes that are printed: the encoding and BOM of what goes to stdout are chosen by
    # `is_terminal()` and the decoded input alone, not by anything derived from the cursor list (shared with C16.f)
    import orch as _orch15
    from engine import AliasReport as _AR15
    _orch15.c16f(prog, _AR15(rep, [("C16.f", r".", "C15.m")]))
    R = "C15.a"
    fib = prog.body(FMT + "Formatter::format_into_buf")
    if rep.check(fib is not None, R, "anchor:format_into_buf", "format_into_buf not found"):
        og = Origins(fib)
        # where do `options` (param 4) and the tracker flow?
        pc = [c for c in fib.calls() if (c.callee or "").endswith("LogicalLinesReconstructor::process_cursors")]
        if rep.check(len(pc) == 1, R, "one-process_cursors", "format_into_buf must call process_cursors exactly once"):
            users_opt = []
            for c in fib.calls():
                for ai, a in enumerate(c.args):
                    if a["k"] in ("copy", "move") and any(x[0] == "param" and x[1] == 4 for x in og.of_operand(a)):
                        users_opt.append((c.callee, ai))
            rep.check(users_opt == [(pc[0].callee, 1)], R, "options-flow-only-to-process_cursors", "FileOptions (the cursor list) flows to %s" % users_opt, instance={"users": [(short(a), b) for a, b in users_opt]})
            tracker_users = []
            for c in fib.calls():
                if c.bb == pc[0].bb:
                    continue
                for ai, a in enumerate(c.args):
                    if a["k"] in ("copy", "move") and any(x[0] == "call" and x[1] == pc[0].bb for x in Origins(fib, extra_identity={"core::convert::AsMut::as_mut", "core::option::Option::Some"}).of_operand(a)):
                        tracker_users.append(c.callee.split("::")[-1])
            # Some(cursors.as_mut()) is an aggregate: look through it
            dm = fib.calls_to(FMT + "delete_marked_tokens")
            extra = []
            if dm:
                for x in og.of_operand(dm[0].args[3]):
                    if x[0] == "agg":
                        extra.append("delete_marked_tokens")
            allowed = {"relocate_cursors", "as_mut", "delete_marked_tokens", "deref_mut", "deref"}
            rep.check(set(tracker_users) <= allowed and "relocate_cursors" in tracker_users, R, "tracker-used-only-by-relocate/notify", "the cursor tracker is used by %s" % sorted(set(tracker_users)),
                      instance={"users": sorted(set(tracker_users) | set(extra))})
            # no branch condition depends on options or the tracker
            bad = []
            for bb in sorted(fib.reachable()):
                t = fib.blocks[bb]["term"]
                if t["k"] == "switch" and t["discr"]["k"] in ("copy", "move"):
                    from progress import Progress
                    deps = _dep_closure(fib, t["discr"]["place"]["l"])
                    if 4 in deps or pc[0].t["dst"]["l"] in deps:
                        bad.append(bb)
            rep.check(not bad, R, "no-branch-on-cursor-state", "a branch of format_into_buf depends on the cursor options / tracker (blocks %s)" % bad, instance={"switches_depending_on_cursors": len(bad)})
            # reconstruct gets formatted_tokens and buf only
            rc = [c for c in fib.calls() if (c.callee or "").endswith("LogicalLinesReconstructor::reconstruct")]
            if rep.check(len(rc) == 1, R, "one-reconstruct", "format_into_buf must call reconstruct once"):
                o1 = og.of_operand(rc[0].args[1])
                rep.check(all(x[0] == "call" and x[2].endswith("new_from_tokens") for x in o1) and bool(o1), R, "reconstruct(formatted_tokens)", "reconstruct receives %s" % sorted(map(str, o1)))
                rl = [c for c in fib.calls() if (c.callee or "").endswith("CursorTracker::relocate_cursors")]
                rep.check(len(rl) == 1 and fib.dominates(rl[0].bb, rc[0].bb), R, "relocate-before-reconstruct-consumes-tokens", "relocate_cursors is not called (once) before reconstruct consumes the formatted tokens")
    # ---------------------------------------------------------------- C15.b signatures: the tracker only ever sees shared references to tokens
    R = "C15.b"
    sigs = {
        "<pasfmt_core::defaults::reconstructor::CursorTrackerImpl as pasfmt_core::traits::CursorTracker>::relocate_cursors": {2: "&pasfmt_core::lang::FormattedTokens"},
        "<pasfmt_core::defaults::reconstructor::DelphiLogicalLinesReconstructor as pasfmt_core::traits::LogicalLinesReconstructor>::process_cursors": {3: "&[pasfmt_core::lang::RawToken"},
        "<pasfmt_core::defaults::reconstructor::CursorTrackerImpl as pasfmt_core::traits::CursorTracker>::notify_token_deleted": {2: "usize"},
    }
    for k, want in sigs.items():
        b = prog.body(k)
        if not rep.check(b is not None, R, "anchor:" + short(k), "%s not found" % short(k)):
            continue
        for idx, pre in want.items():
            ty = b.locals[idx]["ty"]
            rep.check(ty.startswith(pre) and not ty.startswith("&mut"), R, "sig:%s:arg%d" % (short(k).split("::")[-1], idx), "%s takes %s (must be a shared reference / plain value: the tracker must not be able to mutate tokens)" % (short(k), ty),
                      instance={"fn": short(k).split("::")[-1], "param": idx, "type": ty})
    # no pipeline-stage trait method mentions Cursor / FileOptions
    stage_traits = ["Lexer", "RawTokenConsolidator", "TokenConsolidator", "LogicalLineParser", "LogicalLinesConsolidator", "TokenIgnorer", "TokenRemover", "LogicalLineFormatter", "LogicalLineFileFormatter"]
    bad = []
    n = 0
    for im in prog.impls:
        tr = norm(im.get("trait") or "")
        if tr.startswith("pasfmt_core::traits::") and tr.split("::")[-1] in stage_traits:
            for it in im["items"]:
                b = prog.body(norm(it["impl_item"]))
                if b is None:
                    continue
                n += 1
                for l in range(0, b.arg_count + 1):
                    if "Cursor" in b.locals[l]["ty"] or "FileOptions" in b.locals[l]["ty"]:
                        bad.append(b.npath)
    rep.check(not bad, R, "stages-never-see-cursors", "a pipeline stage method receives cursor data: %s" % [short(x) for x in bad], instance={"stage_methods_checked": n})
    rep.floor(R, "pipeline stage methods inspected", n, 12)
    # the tracker type holds a shared reference to the reconstructor and exclusive refs to the *Cursor* values only
    ct = prog.local_adts.get("pasfmt_core::defaults::reconstructor::CursorTrackerImpl")
    ic = prog.local_adts.get("pasfmt_core::defaults::reconstructor::InternalCursor")
    if rep.check(ct is not None and ic is not None, R, "anchor:tracker-types", "CursorTrackerImpl / InternalCursor not found"):
        tys = [f["ty"] for f in ct["variants"][0]["fields"]] + [f["ty"] for f in ic["variants"][0]["fields"]]
        muts = [t for t in tys if "&mut" in t or "&'cursor mut" in t]
        rep.check(all("Cursor" in t and "Token" not in t for t in muts), R, "tracker-holds-&mut-only-to-cursors", "the cursor tracker stores mutable references to %s" % muts, instance={"mutable_refs": muts})
    # ---------------------------------------------------------------- C15.c no interior mutability / unsafe / statics on the path
    R = "C15.c"
    for nm in ("pasfmt_core::lang::RawToken", "pasfmt_core::lang::Token", "pasfmt_core::lang::FormattingData", "pasfmt_core::lang::FormattedTokens",
               "pasfmt_core::defaults::reconstructor::DelphiLogicalLinesReconstructor", "pasfmt_core::lang::ReconstructionSettings", "pasfmt_core::lang::LogicalLine", "pasfmt_core::formatter::Cursor"):
        a = prog.local_adts.get(nm)
        if rep.check(a is not None, R, "anchor:" + short(nm), "%s not found" % nm):
            rep.check(not a["cells"], R, "no-interior-mutability:" + short(nm), "%s contains interior mutability (%s): a shared reference would no longer guarantee that the tracker cannot change it" % (short(nm), a["cells"]),
                      instance={"type": short(nm), "cells": []})
    unsafe_bodies = [k for k, b in prog.bodies.items() if (b.j.get("has_unsafe_block") or b.j.get("unsafe_fn")) and b.file in ("core/src/defaults/reconstructor.rs", "core/src/formatter.rs", "core/src/lang.rs")]
    rep.check(not unsafe_bodies, R, "no-unsafe-on-the-path", "unsafe code in the formatter/reconstructor/token modules: %s" % [short(x) for x in unsafe_bodies], instance={"unsafe_bodies": len(unsafe_bodies)})
    st = [s for s in prog.statics if s["crate"] == "pasfmt_core.lib" and (s["cells"] or not s["freeze"] or s["mutable"]) and norm(s["path"]) != "pasfmt_core::defaults::lexer::find_identifier_end_x86_64::FN"]
    rep.check(not st, R, "no-mutable-statics", "mutable statics in core: %s" % [s["path"] for s in st], instance={"mutable_statics": len(st)})
    # the cursor code itself never calls a mutating token API
    muts = []
    for k in layout.CURSOR_BODIES + ["<pasfmt_core::defaults::reconstructor::CursorTrackerImpl as pasfmt_core::traits::CursorTracker>::notify_token_deleted",
                                      "pasfmt_core::defaults::reconstructor::DelphiLogicalLinesReconstructor::col_for_token_end_post_fmt", "pasfmt_core::defaults::reconstructor::DelphiLogicalLinesReconstructor::offset_for_token"]:
        b = prog.body(k)
        if b is None:
            continue
        for c in b.calls():
            if (c.callee or "") in ("pasfmt_core::lang::Token::set_content", "pasfmt_core::lang::FormattedTokens::get_token_mut", "pasfmt_core::lang::FormattedTokens::tokens_mut",
                                    "pasfmt_core::lang::FormattedTokens::get_formatting_data_mut", "pasfmt_core::lang::TokenData::set_token_type"):
                muts.append((k, c.callee))
    rep.check(not muts, R, "cursor-code-calls-no-mutator", "cursor code calls token mutators: %s" % [(short(a), short(b)) for a, b in muts])
    cursor_independence(prog, rep, "C15.d")
    cursor_measures_what_is_emitted(prog, rep, "C15.e")
    counters_measured_only_for_formatted_tokens(prog, rep, "C15.e")
    cursor_text_is_cut_byte_exactly(prog, rep, "C15.f")
    cursor_offsets_reach_the_core_unmodified(prog, rep, "C15.g")
    cursors_in_changed_text_are_snapped(prog, rep, "C15.h")
    measurer_consults_what_decides_the_emission(prog, rep, "C15.i")
    measurer_accounts_the_added_break_for_every_token(prog, rep, "C15.l")
    cursor_positions_are_not_narrowed(prog, rep, "C15.j")
    cursor_attach_table(prog, rep, "C15.k")


CURSOR_COLLECTION_OPS = {
    "alloc::vec::Vec::is_empty": "presence only",
    "core::iter::traits::collect::IntoIterator::into_iter": "complete traversal",
    "core::iter::traits::iterator::Iterator::collect": "element-wise",
    "core::iter::traits::iterator::Iterator::map": "element-wise",
    "core::iter::traits::iterator::Iterator::next": "loop header of a complete traversal (checked)",
    "core::ops::deref::Deref::deref": "identity",
    "core::ops::deref::DerefMut::deref_mut": "identity",
    "core::slice::iter": "complete traversal",
    "core::slice::iter_mut": "complete traversal",
    "pasfmt_core::formatter::FileOptions::with_cursors": "hands the list to the formatter",
    "pasfmt_core::traits::LogicalLinesReconstructor::process_cursors": "hands the list to the tracker",
    "pasfmt_orchestrator::file_formatter::FileFormatter::output_new_cursors": "prints the list",
    "core::iter::traits::iterator::Iterator::copied": "element-wise",
    "core::iter::traits::iterator::Iterator::cloned": "element-wise",
}
# accepted inside the function that PRINTS the already mapped list (the order of the request is reproduced, nothing is decided there):
# first element + the rest, both written out
PRINT_ONLY_OPS = {"core::slice::split_first": "first + rest, both printed", "core::slice::split_last": "rest + last, both printed", "alloc::slice::join": "prints the list",
                  "core::slice::len": "size only", "core::slice::is_empty": "presence only"}


def cursor_attach_table(prog, rep, R):
    """C15.k — "a cursor inside or at the end of a token is reported inside that same token; cursors beyond the end map to the end of the
    output": process_cursors attaches every cursor to the first token whose end reaches it, by walking the tokens with a running
    remainder.  One step of that walk (one cursor x one token) as a decision table: a cursor that is already attached is left alone;
    for one that is not, the only thing that decides is the comparison of its remainder with the length of the token's text — it is
    either attached to this token or its remainder is advanced by the token's length.  Any other condition (a bound on the offset, on
    the index, on the kind of token) takes cursors of some position out of the search: they are then reported at the end of the
    output (offset == input length, the position an editor reports most often) or with a stale remainder inside the wrong token."""
    b = prog.body("<pasfmt_core::defaults::reconstructor::DelphiLogicalLinesReconstructor as pasfmt_core::traits::LogicalLinesReconstructor>::process_cursors")
    if not rep.check(b is not None, R, "anchor:process_cursors", "DelphiLogicalLinesReconstructor::process_cursors not found"):
        return
    loops = b.loops()
    token_loops = [(h2, L2) for h2, L2 in loops.items() if any(c.bb == h2 and (c.callee or "").endswith("Iterator::next") and "arg3" in canon(b, c.args[0]) for c in b.calls())]
    steps = []          # (rows, effects, name of the cursor element, {text -> text} substitution, cursors already attached are filtered out before)
    for h, L in loops.items():
        outer = [(h2, L2) for h2, L2 in token_loops if h2 != h and h in L2]
        nx = [c for c in b.calls() if c.bb == h and (c.callee or "").endswith("Iterator::next")]
        if outer and len(nx) == 1 and "arg2" in canon(b, nx[0].args[0]):
            tt = b.blocks[nx[0].t["target"]]["term"]
            some = ([t_ for v, t_ in tt.get("targets", []) if v == 1] or [tt.get("otherwise")])[0]
            try:
                tb = Table(prog, b, start=some, stop={h}, inline=1)
            except TooComplex as e:
                rep.fail(R, "cursor-walk-table", "one step of the cursor walk is not a loop-free decision: %s" % e)
                return
            steps.append((tb.rows, tb.effects, "next(" + canon(b, nx[0].args[0]) + ")@Some.0", {}, False))
    # the same walk written with adapters: inside the loop over the tokens, `cursors.iter_mut()[.filter(not attached yet)].for_each(step)`
    for c in b.calls():
        if (c.callee or "") != "core::iter::traits::iterator::Iterator::for_each" or not any(c.bb in L2 for _, L2 in token_loops) or "arg2" not in canon(b, c.args[0]):
            continue
        clos = b.locals[c.args[1]["place"]["l"]].get("closure") if c.args[1]["k"] in ("copy", "move") and not c.args[1]["place"]["p"] else None
        cb = prog.body(norm(clos)) if clos else None
        if cb is None:
            continue
        src = canon(b, c.args[0])
        filtered = False
        if src.startswith("filter("):
            fc = [k for k in b.calls() if (k.callee or "").endswith("Iterator::filter") and canon(b, k.args[0]) in src and k.bb != c.bb]
            for k in fc:
                fcl = b.locals[k.args[1]["place"]["l"]].get("closure") if k.args[1]["k"] in ("copy", "move") else None
                fb = prog.body(norm(fcl)) if fcl else None
                if fb is not None:
                    try:
                        ft = Table(prog, fb, inline=1)
                        # keeps exactly the elements whose token slot is None
                        filtered = sorted((tuple((x[0], x[2]) for x in cons if x[0] == "is"), render(res)) for cons, res in ft.rows) == [((("is", "None"),), "True"), ((("is", "Some"),), "False")]
                    except TooComplex:
                        filtered = False
            if not filtered:
                rep.fail(R, "cursor-walk-filter", "the cursors handed to the step of the walk are selected by something other than `not attached yet`: %s" % src[:120], where=c.where())
                return
        try:
            tb = Table(prog, cb, inline=1)
        except TooComplex as e:
            rep.fail(R, "cursor-walk-table", "one step of the cursor walk is not a loop-free decision: %s" % e)
            return
        # what the closure captured, by position: arg1.k -> canonical text in process_cursors
        caps = {}
        og = Origins(b)
        for o in og.of_operand(c.args[1]):
            if o[0] == "agg":
                ops = b.blocks[o[1]]["stmts"][o[2]]["rv"]["ops"]
                for k, op in enumerate(ops):
                    caps["arg1.%d" % k] = canon(b, op)
        steps.append((tb.rows, tb.effects, "arg2", caps, filtered))
    if not rep.check(len(steps) == 1, R, "anchor:cursor-walk", "process_cursors no longer walks the tokens (outer loop) with one step per cursor (an inner loop or a for_each over the cursors): found %d" % len(steps)):
        return
    rows, effects, cur, caps, filtered = steps[0]

    def sub(text):
        text = str(text)
        for k in sorted(caps, key=len, reverse=True):
            text = re.sub(re.escape(k) + r"(?![\d.])", lambda m: caps[k], text)
        return text
    bad = []
    n_att = n_adv = 0
    for (cons, res), eff in zip(rows, effects):
        state = [c[2] for c in cons if c[0] == "is" and str(c[1]).startswith(cur) and c[2] in ("Some", "None")]
        conds = [(c[0], sub(c[1]), c[2]) for c in cons if c[0] == "cond"]
        other = [c[1] for c in conds if not (re.match(r"^(Le|Lt|Ge|Gt)\(", c[1]) and cur in c[1] and "len(get_str(" in c[1])]
        if other:
            bad.append("an additional condition decides whether a cursor is searched for: %s" % other[0][:110])
            continue
        if state == ["Some"]:
            if eff:
                bad.append("a cursor that is already attached is modified")
            continue
        attaches = any(render(v).startswith("Some(") for k, v in eff)
        advances = any("Sub(" in sub(render(v)) and "len(get_str(" in sub(render(v)) for k, v in eff)
        if attaches:
            n_att += 1
        elif advances:
            n_adv += 1
        else:
            bad.append("a cursor that is not attached yet is neither attached to the token nor advanced past it")
    rep.check(not bad and n_att >= 1 and n_adv >= 1, R, "cursor-walk-table",
              "one step of process_cursors' walk deviates from `attached: untouched; else remainder <= token length ? attach : advance`: %s" % (bad[:2] or "no attach / advance row"),
              where="%s:%d" % (b.file, b.line), instance={"paths": len(rows), "attach_rows": n_att, "advance_rows": n_adv, "deviations": bad[:3], "form": "for_each" if caps or filtered else "loop"})


# adapters that take a closure: accepted when the closure looks at / changes nothing but the element it is given (and values that do not
# come from the cursor list): what happens to one cursor cannot depend on another
CURSOR_ELEMENT_LOCAL_OPS = {
    "core::iter::traits::iterator::Iterator::filter": "selects by a test on the element itself",
    "core::iter::traits::iterator::Iterator::for_each": "element-wise, complete",
    "core::iter::traits::iterator::Iterator::all": "a side-effect-free question about every element (decides only whether the walk over the tokens goes on)",
    "core::iter::traits::iterator::Iterator::any": "a side-effect-free question about every element",
}


def _closure_is_element_local(prog, b, site):
    """the closure handed to `site` captures no collection / iterator of cursors, and — for the short-circuiting questions all / any — has
    no effect at all (no store through a reference, no call other than side-effect-free queries)"""
    clos = None
    for a in site.args[1:]:
        if a["k"] in ("copy", "move") and not a["place"]["p"]:
            clos = b.locals[a["place"]["l"]].get("closure") or clos
    cb = prog.body(norm(clos)) if clos else None
    if cb is None:
        return False
    for u in cb.j.get("upvars", []):
        t = str(u.get("ty", ""))
        if "Cursor" in t and ("[" in t or "Vec<" in t or "Iter" in t or "iter::" in t):
            return False
    if site.callee.split("::")[-1] in ("all", "any"):
        pure = ("core::option::Option::is_some", "core::option::Option::is_none", "core::cmp::PartialEq::eq", "core::cmp::PartialEq::ne", "core::cmp::PartialOrd::lt",
                "core::cmp::PartialOrd::le", "core::cmp::PartialOrd::gt", "core::cmp::PartialOrd::ge")
        if any((c.callee or "") not in pure for c in cb.calls()):
            return False
        for bb, i, st in cb.stmts():
            if st["k"] == "assign" and st["dst"]["p"] and any(pe["k"] == "deref" for pe in st["dst"]["p"]):
                return False
    return True


def cursor_independence(prog, rep, R):
    """C15.d — every cursor is mapped on its own: collections and iterators of cursors are only traversed completely and element-wise
    (no peeking, merging, sorting, zipping, searching or early exit), so where one cursor lands cannot depend on the other cursors
    of the request or on their order."""
    def coll(t):
        return "Cursor" in t and (t.startswith("&mut [") or t.startswith("&[") or t.startswith("[") or "Vec<" in t or "Iter" in t or "iter::" in t)
    n = 0
    seen = set()
    for b in prog.bodies.values():
        if not b.crate.startswith("pasfmt"):
            continue
        for c in b.calls():
            tys = [b.locals[a["place"]["l"]]["ty"] for a in c.args if a["k"] in ("copy", "move")]
            if not any(coll(t) for t in tys):
                continue
            n += 1
            seen.add(c.callee)
            if c.callee in PRINT_ONLY_OPS and b.npath.split("::{closure")[0].endswith("::output_new_cursors"):
                # both parts of the split are consumed: a traversal (or a formatting use) of something that comes from this call exists
                dst = c.t.get("dst")
                used = dst is not None and (c.callee not in ("core::slice::split_first", "core::slice::split_last") or
                                            any(any(x[0] == "call" and x[1] == c.bb for x in Origins(b).of_operand(a)) for k in b.calls() if k is not c and (k.callee or "").split("::")[-1] in ("into_iter", "iter", "next") for a in k.args))
                rep.check(used, R, "cursor-print-op:%s" % c.callee.split("::")[-1], "output_new_cursors splits the cursor list but does not write out the rest", where=c.where(), instance={"op": c.callee.split("::")[-1], "use": PRINT_ONLY_OPS[c.callee]})
                continue
            if c.callee in CURSOR_ELEMENT_LOCAL_OPS and _closure_is_element_local(prog, b, c):
                rep.ok(R, {"op": c.callee.split("::")[-1], "body": short(b.npath), "why": CURSOR_ELEMENT_LOCAL_OPS[c.callee]})
                continue
            if not rep.check(c.callee in CURSOR_COLLECTION_OPS, R, "cursor-collection-op:%s" % (c.callee or "?").split("::")[-1],
                             "%s applies %s to a collection/iterator of cursors — only complete, element-wise traversals are reviewed (a cursor's result must not depend on the other cursors or their order)" % (short(b.npath), c.callee),
                             where=c.where()):
                continue
            if c.callee == "core::iter::traits::iterator::Iterator::next":
                loops = b.loops()
                L = loops.get(c.bb)
                ok = L is not None
                why = "not a loop header"
                if ok:
                    # exits of the loop: only from the block that tests the result of this `next` (None arm)
                    tgt = c.t.get("target")
                    test_blocks = {c.bb, tgt}
                    # follow straight-line blocks after the call up to the switch on the result
                    cur = tgt
                    hops = 0
                    while cur is not None and b.blocks[cur]["term"]["k"] == "goto" and hops < 4:
                        cur = b.succ[cur][0] if b.succ[cur] else None
                        test_blocks.add(cur)
                        hops += 1
                    rets = set(b.return_blocks())
                    bad_exits = []
                    elem = canon(b, c.args[0])
                    for u in L:
                        for v in b.succ[u]:
                            if v not in L and u not in test_blocks:
                                # ignore exits that can only diverge (panic paths)
                                if not (b.reach_from(v, include_start=True) & rets):
                                    continue
                                # reviewed form: the exit is decided by a test of a value that does not derive from the cursor at hand
                                # (relocate_cursors: `tokens().next_back()` is None, i.e. there is no token at all — every remaining cursor would take the same exit)
                                t = b.blocks[u]["term"]
                                if t["k"] == "switch":
                                    from progress import discr_source
                                    key = discr_source(b, u)
                                    if key and "next(" + elem not in key and elem not in key and "cursor" not in key.lower() and key.startswith("next_back(tokens("):
                                        rep.exception(R, "cursor-independent-exit:%s" % short(b.npath), "the traversal stops when `%s` is None (no token at all): the test does not involve the cursor, every remaining cursor would stop there too" % key)
                                        continue
                                bad_exits.append((u, v))
                    ok = not bad_exits
                    why = "leaves the traversal early at %s" % bad_exits[:2]
                rep.check(ok, R, "complete-traversal:%s" % short(b.npath), "the loop over the cursors in %s %s" % (short(b.npath), why), where=c.where(), instance={"body": short(b.npath), "loop": "exits on exhaustion only"})
    rep.floor(R, "operations on cursor collections", n, 20)
    rep.ok(R, {"operations": sorted((x or "?").split("::")[-1] for x in seen)})


OBSERVATIONS = ("is_ignored", "get_leading_whitespace", "get_token_type", "is_singleline", "get_newline_str", "get_indentation_str", "get_continuation_str",
                "get_content", "newlines_before", "indentations_before", "continuations_before", "spaces_before")


def measurer_consults_what_decides_the_emission(prog, rep, R):
    """C15.i — "a cursor inside or at the end of an unchanged token is reported at the same offset inside that token": the offset of a
    token in the output is computed by offset_for_token, a sibling of the emission step.  Every observation of a token (accessor or
    layout counter) that decides, on some path of the emission step, what is written in front of the token's text must be consulted
    by the measuring family too: what the measurer never looks at it cannot account for (the line break the emission step adds after
    a single-line comment was such a case: every cursor behind it was reported too early)."""
    REC = "pasfmt_core::defaults::reconstructor::"
    cl = [b for b in prog.bodies.values() if b.npath.startswith("<" + REC) and b.npath.endswith("LogicalLinesReconstructor>::reconstruct::{closure#0}")]
    ob = prog.body(REC + "DelphiLogicalLinesReconstructor::offset_for_token")
    if not rep.check(len(cl) == 1 and ob is not None, R, "anchor:reconstruct/offset_for_token", "reconstruct's per-token closure / offset_for_token not found"):
        return
    import c02 as _c02
    try:
        tb = _c02.emission_table(prog, cl[0])
    except Exception as e:
        rep.fail(R, "emission-table", "emission closure is not a loop-free classifier any more: %s" % e)
        return
    emitted = set()
    for (cons, _res), calls in zip(tb.rows, tb.calls):
        texts = [str(c[1]) for c in cons]
        for n2, a in calls:
            if n2.split("::")[-1] in ("push_str", "push", "for_each", "extend"):
                texts += [str(x) for x in a]
        for t in texts:
            if t.startswith("le(") or "max_level" in t:
                continue                                       # log-level tests
            for o in OBSERVATIONS:
                if re.search(r"(\b%s\(|\.%s\b)" % (o, o), t):
                    emitted.add(o)
    fam, st = {}, [ob]
    while st:
        b = st.pop()
        if b.npath in fam:
            continue
        fam[b.npath] = b
        for c in b.calls():
            hb = prog.body(norm(c.t.get("resolved") or c.callee or ""))
            if hb is not None and hb.npath.startswith(REC):
                st.append(hb)
        st += [x for x in prog.bodies.values() if x.npath.startswith(b.npath + "::{closure")]
    measured = set()
    for b in fam.values():
        for c in b.calls():
            nm = (c.callee or "").split("::")[-1]
            if nm in OBSERVATIONS:
                measured.add(nm)
    for f in OBSERVATIONS:
        if f.endswith("_before") and prog.field_accesses("pasfmt_core::lang::FormattingData", f, within=set(fam)):
            measured.add(f)
    missing = sorted(emitted - measured)
    rep.check(not missing, R, "measurer-consults-every-deciding-observation",
              "what the emission step writes in front of a token depends on %s, which offset_for_token and the functions it calls never look at: the reported offsets cannot account for it" % missing,
              where="%s:%d" % (ob.file, ob.line), instance={"deciding": sorted(emitted), "consulted": sorted(measured), "measuring_family": sorted(short(k) for k in fam)})
    rep.floor(R, "observations deciding the emission", len(emitted), 8)


def measurer_accounts_the_added_break_for_every_token(prog, rep, R):
    """C15.l — the emission step writes, in front of every token's text, [the line break that a single-line comment lacks] and then the
    token's whitespace; whether the break is added is decided by a function the emission step shares with the measuring code.  In
    offset_for_token (its closures and helpers) every token whose whitespace is measured — the tokens in front of the requested one
    and the requested one itself — is first put to that shared decision: a whitespace measure of a token that is not dominated by
    the decision on the same token leaves the added break of exactly that token out (the cursor in it is reported too early)."""
    REC = "pasfmt_core::defaults::reconstructor::"
    cl = [b for b in prog.bodies.values() if b.npath.startswith("<" + REC) and b.npath.endswith("LogicalLinesReconstructor>::reconstruct::{closure#0}")]
    ob = prog.body(REC + "DelphiLogicalLinesReconstructor::offset_for_token")
    if not rep.check(len(cl) == 1 and ob is not None, R, "anchor:reconstruct/offset_for_token", "reconstruct's per-token closure / offset_for_token not found"):
        return
    import layout as _layout
    fam = {ob.npath: ob}
    for x in prog.bodies.values():
        if x.npath.startswith(ob.npath + "::{closure"):
            fam[x.npath] = x
    for k in _layout.helper_closure(prog, sorted(b.npath for b in prog.bodies.values() if b.npath.startswith(REC)), sorted(fam)):
        hb = prog.body(k)
        if hb is not None and hb.npath not in (REC + "DelphiLogicalLinesReconstructor::ws_len",):
            fam[k] = hb

    def rec_callees(bodies, pred):
        out = set()
        for x in bodies:
            for c in x.calls():
                hb = prog.body(norm(c.t.get("resolved") or c.callee or ""))
                if hb is not None and hb.npath.startswith(REC) and pred(hb):
                    out.add(hb.npath)
        return out
    emit_fam = [cl[0]] + [x for x in prog.bodies.values() if x.npath.startswith(cl[0].npath + "::")]
    is_bool = lambda hb: hb.locals[0]["ty"] == "bool"
    shared = rec_callees(emit_fam, is_bool) & rec_callees(fam.values(), is_bool)

    def measures_ws(hb):
        if hb.locals[0]["ty"] != "usize" or hb.npath in fam:
            return False
        inner = [hb] + [x for x in prog.bodies.values() if x.npath.startswith(hb.npath + "::")]
        return any((c.callee or "").endswith("::get_leading_whitespace") for x in inner for c in x.calls()) and \
            any("FormattingData" in hb.locals[i]["ty"] for i in range(1, hb.arg_count + 1))
    ws_fns = rec_callees(fam.values(), measures_ws)
    if not rep.check(bool(shared) and bool(ws_fns), R, "anchor:shared-decision/whitespace-measure",
                     "no break decision shared by the emission step and offset_for_token (%s), or no whitespace measure (%s)" % (sorted(map(short, shared)), sorted(map(short, ws_fns)))):
        return
    n = 0
    for x in fam.values():
        calls = x.calls()
        for c in calls:
            tgt = norm(c.t.get("resolved") or c.callee or "")
            if tgt not in ws_fns:
                continue
            tok = canon(x, c.args[-1])
            ok = False
            for s2 in calls:
                t2 = norm(s2.t.get("resolved") or s2.callee or "")
                if t2 in shared and canon(x, s2.args[-1]) == tok and s2.bb != c.bb and x.dominates(s2.bb, c.bb):
                    ok = True
            n += 1
            rep.check(ok, R, "break-decided-before-measuring:%s:%s" % (short(x.npath), tok[:40]),
                      "%s measures the whitespace of %s (%s) without first asking %s about that token: the line break the emission step adds in front of it after a single-line comment is not counted for it"
                      % (short(x.npath), tok[:40], short(tgt), sorted(short(k) for k in shared)), where=c.where(),
                      instance={"body": short(x.npath), "token": tok[:60], "measure": short(tgt), "decision": sorted(short(k) for k in shared)})
    rep.floor(R, "whitespace measures in offset_for_token preceded by the shared break decision", n, 1)


def cursors_in_changed_text_are_snapped(prog, rep, R):
    """C15.h — "every reported cursor lies on a character boundary": a cursor inside a token is reported at a byte offset inside the
    token's NEW text, which can differ from the old one in front of the cursor (a blank inserted after `//`, a re-indented
    multi-line string); an offset carried over from the old text is then not necessarily a boundary of the new one.  In
    relocate_cursors, both arms that compute an offset into the token's content (TokPos::Content, TokPos::MultilineContent) pass it
    through a function that moves it to a character boundary (std's floor/ceil_char_boundary, or a workspace function built on
    str::is_char_boundary)."""
    rc = [b for k, b in prog.bodies.items() if k.endswith("CursorTrackerImpl as pasfmt_core::traits::CursorTracker>::relocate_cursors")]
    if not rep.check(len(rc) == 1, R, "anchor:relocate_cursors", "relocate_cursors not found"):
        return
    b = rc[0]

    def snapper(name, depth=0):
        if name in ("core::str::floor_char_boundary", "core::str::ceil_char_boundary"):
            return True
        cb = prog.body(name)
        if cb is None or not cb.crate.startswith("pasfmt") or depth > 1:
            return False
        fam = [cb] + [x for x in prog.bodies.values() if x.npath.startswith(cb.npath + "::")]
        return any((c.callee or "") == "core::str::is_char_boundary" or snapper(norm(c.t.get("resolved") or c.callee or ""), depth + 1) for x in fam for c in x.calls() if x is not b)
    arms = {"Content": 0, "MultilineContent": 0, "Whitespace": 0}
    for c in b.calls():
        nm = norm(c.t.get("resolved") or c.callee or "")
        if not snapper(nm):
            continue
        for f in dominating_variant_facts(prog, b, c.bb):
            if f[1] == "is" and f[2] and f[2][0] in arms and "tok_pos" in f[0]:
                # the snapped value is what is stored
                arms[f[2][0]] += 1
    for arm, n in arms.items():
        if arm == "Whitespace":
            continue
        rep.check(n >= 1, R, "snapped:" + arm, "relocate_cursors reports an offset into a token's (possibly changed) text for TokPos::%s without moving it to a character boundary: `//éa` with --cursor 4 "
                  "(after `é`) is reported at 4, between the two bytes of `é` in `// éa`" % arm, where="%s:%d" % (b.file, b.line), instance={"arm": arm, "boundary_adjustments": n})
    # a cursor in the blanks before a token is placed by column arithmetic in bytes; the blanks written for a formatted token are
    # one byte each, the kept blanks of an ignored token need not be (U+3000): under `is_ignored()` the position is snapped too
    from panic import dominating_conditions
    wsn = 0
    for c in b.calls():
        nm = norm(c.t.get("resolved") or c.callee or "")
        if snapper(nm) and any(f[1] == "is" and f[2] and f[2][0] == "Whitespace" and "tok_pos" in f[0] for f in dominating_variant_facts(prog, b, c.bb)):
            if any(x[0] == "call" and x[1].endswith("is_ignored") and x[3] is True for x in dominating_conditions(b, c.bb)) and "get_leading_whitespace(" in canon(b, c.args[0]):
                wsn += 1
    rep.check(wsn >= 1, R, "snapped:Whitespace(ignored)", "relocate_cursors places a cursor inside the kept blanks of an ignored token by byte-column arithmetic without moving it to a character boundary: "
              "`a:=b;{pasfmt off}\u3000\u3000x;` with --cursor 20 (between the two ideographic spaces) is reported at 20, inside the first of them",
              where="%s:%d" % (b.file, b.line), instance={"arm": "Whitespace", "boundary_adjustments": wsn})


def cursor_offsets_reach_the_core_unmodified(prog, rep, R):
    """C15.g — the offsets given with --cursor are handed to the core as they are: every `Cursor(x)` built outside the core takes x
    from the user's list (a parameter / captured value / element of it) without arithmetic, min/max/clamp or any other call.  Where a
    cursor beyond the end of the text lands is decided by the core's mapping (end of the output); clamping it before makes it a cursor
    *at* the end of the input, which sticks to the last token instead."""
    n = 0
    for b in prog.bodies.values():
        if not (b.crate.startswith("pasfmt_orchestrator") or b.crate.startswith("pasfmt.")) and not b.npath.startswith(("pasfmt_orchestrator::", "pasfmt::")):
            continue
        for bb, i, s2 in b.stmts():
            if s2["k"] == "assign" and s2["rv"]["k"] == "aggregate" and norm(s2["rv"].get("adt", "")) == "pasfmt_core::formatter::Cursor":
                n += 1
                o = Origins(b).of_operand(s2["rv"]["ops"][0])
                ok = bool(o) and all(x[0] in ("param", "upvar") for x in o)
                rep.check(ok, R, "cursor-payload:%s" % short(b.npath), "%s builds a Cursor from %s instead of the user's offset itself" % (short(b.npath), sorted(x[2].split("::")[-1] if x[0] == "call" else x[0] for x in o)),
                          where="%s:%d" % (b.file, abs(s2.get("line", 0))), instance={"body": short(b.npath), "payload": "element of the --cursor list, unmodified"})
        # `.map(Cursor)`: the constructor itself is the mapping function — the payload is the iterator's item; the iterator may only be the
        # user's list, element-wise (iter / copied / cloned / into_iter)
        for c in b.calls():
            if (c.callee or "").endswith("Iterator::map") and len(c.args) >= 2 and c.args[1]["k"] == "const" and norm(c.args[1].get("fn", "")) == "pasfmt_core::formatter::Cursor":
                n += 1
                o = Origins(b, extra_identity={"core::slice::iter", "core::iter::traits::iterator::Iterator::copied", "core::iter::traits::iterator::Iterator::cloned",
                                               "core::iter::traits::collect::IntoIterator::into_iter"}).of_operand(c.args[0])
                ok = bool(o) and all(x[0] in ("param", "upvar") for x in o)
                rep.check(ok, R, "cursor-payload:%s:map(Cursor)" % short(b.npath), "%s maps %s through the Cursor constructor instead of the user's offsets themselves" % (short(b.npath), sorted(x[2].split("::")[-1] if x[0] == "call" else x[0] for x in o)),
                          where=c.where(), instance={"body": short(b.npath), "payload": "elements of the --cursor list, unmodified (map(Cursor))"})
    rep.floor(R, "Cursor values built outside the core", n, 1)


LOSSY_CUTTERS = ("lines", "trim", "trim_start", "trim_end", "trim_ascii", "trim_ascii_start", "trim_ascii_end", "trim_matches", "trim_start_matches", "trim_end_matches",
                 "split_whitespace", "split_ascii_whitespace", "split_terminator", "rsplit_terminator", "strip_suffix", "strip_prefix")
PATTERN_CUTTERS = ("split", "rsplit", "splitn", "rsplitn", "split_once", "rsplit_once", "split_inclusive", "matches", "rmatches", "match_indices", "rmatch_indices", "find", "rfind")


def cursor_text_is_cut_byte_exactly(prog, rep, R):
    """C15.f — a cursor inside a multi-line token is stored as (bytes to the end of its line, line breaks after it) by process_cursors
    and turned back into an offset by relocate_cursors: the two are inverse only if both cut the text at the same separator and
    every byte is counted on one side.  So in the cursor-measuring code (a) text is never cut with a function whose pieces do not
    add up to the original (`lines` drops a CR before the LF, `trim*`, `split_whitespace`, `split_terminator`, `strip_*`), and
    (b) every separator / needle handed to split / rsplit / matches / match_indices / find / rfind is the one constant '\n'."""
    import layout
    roots = {x.split("::{closure")[0] for x in layout.CURSOR_BODIES}
    bodies = [b for b in prog.bodies.values() if b.npath.split("::{closure")[0] in roots]
    # helpers of the reconstructor that only the cursor code calls are part of it (`multiline_tok_pos(rest)` extracted from process_cursors)
    RECM = "pasfmt_core::defaults::reconstructor::"
    for k in layout.helper_closure(prog, sorted(x.npath for x in prog.bodies.values() if x.npath.startswith(RECM)), sorted(roots)):
        hb = prog.body(k)
        if hb is not None and hb not in bodies:
            bodies.append(hb)
    n = 0
    bad = []
    needles = {}
    # (c) positions are byte distances on both sides: nothing in the cursor code walks a text character by character to count
    per_char = []
    for b in bodies:
        for c in b.calls():
            if (c.callee or "") in ("core::str::chars", "core::str::char_indices"):
                per_char.append("%s:%s" % (short(b.npath), c.line))
    rep.check(not per_char, R, "positions-are-byte-distances", "the cursor code walks token text character by character (%s): a distance counted in characters is read back as a distance in bytes by "
              "the sibling (process_cursors stores, relocate_cursors reads), so a cursor in front of a non-ASCII character of a multi-line token is reported too far right" % per_char[:2],
              instance={"per_character_walks": len(per_char)})
    for b in bodies:
        for c in b.calls():
            cal = c.callee or ""
            if not cal.startswith("core::str::"):
                continue
            nm = cal.split("::")[-1]
            if nm in LOSSY_CUTTERS:
                n += 1
                bad.append("%s:%s cuts text with str::%s, whose pieces do not add up to the text (bytes go uncounted)" % (short(b.npath), c.line, nm))
            elif nm in PATTERN_CUTTERS and len(c.args) >= 2:
                n += 1
                o = Origins(b).of_operand(c.args[-1] if nm not in ("splitn", "rsplitn") else c.args[2])
                vals = sorted({("%s:%r" % (x[1], x[2])) if x[0] == "const" else str(x[0]) for x in o})
                needles.setdefault(",".join(vals), []).append("%s:%s(%s)" % (short(b.npath), c.line, nm))
    lf = [k for k in needles if k in ("char:10", "char:'\\n'", "char:'\n'")]
    other = {k: v for k, v in needles.items() if k not in lf}
    rep.check(not bad, R, "no-lossy-cutters", "cursor arithmetic cuts token text with a function that drops bytes — writer (process_cursors) and reader (relocate_cursors) of a position inside a "
              "multi-line token then disagree by the dropped bytes, e.g. by one for every CRLF line: %s" % bad[:3], instance={"cutting_calls": n, "violating": bad[:5]})
    rep.check(not other, R, "AGREE:line-separator", "cursor code cuts text at something other than the constant '\\n': %s" % other, instance={"needles": {k: len(v) for k, v in needles.items()}})
    rep.floor(R, "text-cutting calls in the cursor-measuring code", n, 8)


def cursor_measures_what_is_emitted(prog, rep, R):
    """C15.e — cursor arithmetic measures a token's leading whitespace the way it is emitted: the configured newline length may only be
    used for tokens known not to be ignored (an ignored token's original whitespace is emitted verbatim, whatever line endings it has)."""
    from panic import dominating_conditions
    REC = "pasfmt_core::defaults::reconstructor::"
    NL = REC + "DelphiLogicalLinesReconstructor::nl_len"
    GETNL = "pasfmt_core::lang::ReconstructionSettings::get_newline_str"
    sites = []
    for b in prog.bodies.values():
        if not b.npath.startswith(REC) and not b.npath.startswith("<" + REC):
            continue
        if "reconstruct::{closure" in b.npath or b.npath.endswith("::reconstruct"):
            continue        # emission, not measuring
        for c in b.calls():
            if c.callee in (NL, GETNL) or c.target in (NL, GETNL):
                if b.npath == NL:
                    continue
                sites.append(c)
    rep.floor(R, "uses of the configured newline length in cursor code", len(sites), 1)
    # predicates of the reconstructor under which the emission step itself writes the configured newline string (the safety-net line
    # break after a single-line comment is written for ignored tokens too): measuring under the same predicate measures what is emitted
    emit_preds = set()
    for b in prog.bodies.values():
        if "reconstruct::{closure" in b.npath and b.npath.startswith("<" + REC):
            for c in b.calls():
                if (c.callee or "").split("::")[-1] in ("push_str",) and "get_newline_str(" in canon(b, c.args[-1]):
                    for x in dominating_conditions(b, c.bb):
                        if x[0] == "call" and x[1].startswith(REC) and x[3] is True:
                            emit_preds.add(x[1])
    for c in sites:
        b = c.body
        conds = dominating_conditions(b, c.bb)
        ok = any(x[0] == "call" and x[1].endswith("is_ignored") and x[3] is False for x in conds) \
            or any(x[0] == "call" and x[1] in emit_preds and x[3] is True for x in conds)
        rep.check(ok, R, "newline-length-only-for-formatted-tokens:" + short(b.npath),
                  "%s measures line breaks with the configured newline length without knowing that the token is not ignored — the whitespace of an ignored token is emitted as it was in the source" % short(b.npath),
                  where=c.where(), instance={"body": short(b.npath), "guard": "is_ignored() == false"})


def offset_family(prog):
    """offset_for_token and the reconstructor functions it calls (transitively), with their closures"""
    REC = "pasfmt_core::defaults::reconstructor::"
    ob = prog.body(REC + "DelphiLogicalLinesReconstructor::offset_for_token")
    fam, st = {}, [ob] if ob is not None else []
    while st:
        b = st.pop()
        if b.npath in fam:
            continue
        fam[b.npath] = b
        for c in b.calls():
            hb = prog.body(norm(c.t.get("resolved") or c.callee or ""))
            if hb is not None and hb.npath.startswith(REC):
                st.append(hb)
        st += [x for x in prog.bodies.values() if x.npath.startswith(b.npath + "::{closure")]
    return fam


def counters_measured_only_for_formatted_tokens(prog, rep, R):
    """C15.e (second half) — the layout counters of FormattingData describe what is written only for tokens that are not ignored:
    formatters keep writing them for ignored tokens of a line they lay out (reconstruct_solution stores 0 / 1 / clamp(1,2) for every
    token), while the emission step copies the original whitespace.  In offset_for_token and what it calls, every read of a counter
    is dominated by `is_ignored() == false`."""
    from panic import dominating_conditions
    fam = offset_family(prog)
    if not rep.check(bool(fam), R, "anchor:offset_for_token", "offset_for_token not found"):
        return
    n = 0
    for f in ("newlines_before", "indentations_before", "continuations_before", "spaces_before"):
        for a in prog.field_accesses("pasfmt_core::lang::FormattingData", f, within=set(fam)):
            b = a[0]
            if a[3] not in ("read", "ref"):
                continue
            n += 1
            def guarded(body, bb, depth=0):
                if any(x[0] == "call" and x[1].endswith("is_ignored") and x[3] is False for x in dominating_conditions(body, bb)):
                    return True
                # a helper that is only ever called for tokens known not to be ignored
                sites = [x for x in prog.who_calls(body.npath) if x.body.crate.startswith("pasfmt")]
                return depth < 2 and bool(sites) and all(guarded(x.body, x.bb, depth + 1) for x in sites)
            ok = guarded(b, a[1])
            rep.check(ok, R, "counter-read-only-for-formatted-tokens:%s:%s" % (short(b.npath), f),
                      "%s measures with FormattingData.%s without knowing that the token is not ignored — for an ignored token the counter is whatever a formatter stored last, "
                      "while its original whitespace is what is emitted: every cursor behind it is reported at another place" % (short(b.npath), f),
                      where="%s:%d" % (b.file, abs((a[4] or {}).get("line", 0)) if isinstance(a[4], dict) else b.line), instance={"body": short(b.npath), "field": f, "guard": "is_ignored() == false"})
    rep.floor(R, "counter reads in the offset computation", n, 4)


def _dep_closure(body, l, seen=None):
    from facts import _rv_operands
    if seen is None:
        seen = set()
    if l in seen:
        return seen
    seen.add(l)
    for d in body.defs.get(l, []):
        if d[0] in ("assign", "partial") and d[3]["k"] == "assign":
            rv = d[3]["rv"]
            for op in _rv_operands(rv):
                if op["k"] in ("copy", "move"):
                    _dep_closure(body, op["place"]["l"], seen)
            if rv["k"] in ("ref", "rawptr", "discr"):
                _dep_closure(body, rv["place"]["l"], seen)
        elif d[0] in ("call", "partialcall"):
            for op in d[2]["args"]:
                if op["k"] in ("copy", "move"):
                    _dep_closure(body, op["place"]["l"], seen)
    return seen


PROPERTIES = {
    "C19": (check_c19,
            "Structural clauses of C19: (a) layering — the file (explicit --config-file as is, otherwise the ancestor search from the current directory) is added with add_source as TOML, "
            "then each -C Set item with set_override (never set_default, never required(false)), then build and try_deserialize, errors `?`-propagated; (b) strictness in the "
            "expanded serde impls — unknown keys hit Error::unknown_field, accepted keys = struct fields, no __ignore variant, missing keys come from FormattingConfig::default(), "
            "duplicates rejected, enum values and encoding labels reject unknown input; (c) FormattingOrchestrator::run (the only route to file effects) is guarded by Ok(config), "
            "the Err arm reports and returns; (d) option inventory: struct fields = docs() = docs/CONFIGURATION.md; (e) every option field is read only at its conversion site; "
            "begin_style maps Always_Wrap -> true only; documented defaults. Not decided: the arithmetic of the ancestor walk; the `config` crate's layering semantics. Added in round 6: (b) includes the decision table of the encoding visitor (Native only for the word `native`).", []),
    "C15": (check_c15,
            "Clause 1 of C15 only (requesting cursor tracking never changes the formatted text), as type-level non-interference: (a) the cursor list flows only into process_cursors, "
            "the tracker is used only by relocate_cursors / notify_token_deleted, no branch of format_into_buf depends on either, reconstruct receives only the formatted tokens; "
            "(b) the tracker sees tokens through shared references only, no pipeline stage method receives cursor data, the tracker stores `&mut` only to Cursor values; (c) none of "
            "the token/formatting/reconstructor types has interior mutability, no unsafe code and no mutable static on the path, cursor code calls no token mutator — so by Rust's "
            "aliasing rules nothing the tracker does can be observed by reconstruct. Cursor arithmetic panics are audited under C04.b (two defects fixed there). "
            "Of clauses 2-3 only one structural necessary condition is decided: (d) cursors are mapped independently of each other — collections and iterators of cursors are only traversed completely and element-wise. "
            "Not decided: where a cursor lands (clauses 2-3). Added in rounds 4-6, structural necessary conditions of clauses 2-3: (e) the configured newline length and the layout counters measure only tokens known not to be ignored (or under the predicate under which the emission step writes the newline itself); (f) byte-exact cut of cursor text; (g) cursor offsets reach the core unmodified; (h) offsets into changed text and into kept multi-byte blanks are moved to a character boundary; (i) every observation that decides what the emission step writes in front of a token is consulted by offset_for_token's family. Added in round 7: (j) no byte or line count is narrowed below 32 bits in the cursor code.", []),
}
