"""Symbolic slice algebra for string re-assemblers (C01.d).

A normaliser that replaces a token's text builds the new text from pieces of the old one.  For loop-free
builders (`format_line_comment`, `format_compiler_directive`'s assembly part) this module decides, from the
MIR alone, that the pieces appended are *consecutive sub-slices of the token's own text that cover it
completely* (a partition), that anything else appended is a blank character, and that the only other
transformation is an ASCII case mapping of a piece (allowed by C01 inside directive names) or a
truncation to `trim_ascii_end` (which removes blanks only).

Offsets are linear expressions over opaque atoms; a slice is a pair (start, end) relative to the token's
text whose length is the atom L.  Nothing here mentions MIR local numbers or source positions.
"""
from facts import norm, Origins

BLANK_CHARS = set(range(0, 0x21)) | {0x3000}
CASE_MAPS = ("to_ascii_uppercase", "to_ascii_lowercase")


# ------------------------------------------------------------------ terms

VAR_READS = []   # (id(body), local, block in which the multi-definition local is read); filled while terms are built


def t_local(body, l, depth=0, stack=(), at=None):
    if depth > 40 or l in stack:
        VAR_READS.append((id(body), l, at))
        return ("var", l, body.locals[l].get("name") or "tmp")
    if 1 <= l <= body.arg_count:
        return ("arg", l)
    defs = [d for d in body.defs.get(l, []) if d[0] in ("assign", "call")]
    if len(defs) == 1:
        return t_def(body, defs[0], depth, stack + (l,))
    VAR_READS.append((id(body), l, at))
    return ("var", l, body.locals[l].get("name") or "tmp")


def t_def(body, d, depth=0, stack=()):
    at = d[1]
    if d[0] == "assign" and d[3]["k"] == "assign":
        rv = d[3]["rv"]
        k = rv["k"]
        if k in ("use", "cast"):
            return t_operand(body, rv["op"], depth + 1, stack, at)
        if k in ("ref", "rawptr"):
            return t_place(body, rv["place"], depth + 1, stack, at)
        if k == "binop":
            return ("bin", rv["op"].replace("WithOverflow", ""), t_operand(body, rv["a"], depth + 1, stack, at), t_operand(body, rv["b"], depth + 1, stack, at))
        if k == "aggregate":
            what = rv.get("agg")
            if what == "adt":
                what = norm(rv["adt"]).split("::")[-1]
            elif what == "closure":
                what = "closure:" + norm(rv.get("closure") or rv.get("def") or "")
            return ("agg", what, tuple(t_operand(body, o, depth + 1, stack, at) for o in rv["ops"]))
        return ("opaque", k)
    if d[0] == "call":
        t = d[2]
        fn = norm(t.get("resolved") or t.get("callee") or "<fnptr>")
        return ("call", fn, tuple(t_operand(body, a, depth + 1, stack, at) for a in t["args"]))
    return ("opaque", "?")


def t_place(body, place, depth=0, stack=(), at=None):
    base = t_local(body, place["l"], depth, stack, at)
    proj = place["p"]
    if proj and proj[0]["k"] == "field" and proj[0].get("tuple") and proj[0]["idx"] == 0 and base[0] == "bin":
        proj = proj[1:]
    pr = []
    for pe in proj:
        if pe["k"] == "deref":
            continue
        if pe["k"] == "field":
            pr.append(("field", str(pe.get("name", pe.get("idx")))))
        elif pe["k"] == "downcast":
            pr.append(("downcast", str(pe.get("variant", pe.get("idx")))))
        else:
            pr.append((pe["k"], ""))
    if pr:
        return ("proj", base, tuple(pr))
    return base


def t_operand(body, op, depth=0, stack=(), at=None):
    if op["k"] in ("copy", "move"):
        return t_place(body, op["place"], depth, stack, at)
    for key in ("int", "bool", "char", "str"):
        if key in op:
            return ("const", key, op[key])
    return ("const", "other", op.get("text", "?"))


def unstable_var_reads(body, since):
    """multi-definition locals read (while building terms since index `since` of VAR_READS) at a point from which one of
    their definitions is still reachable: two such reads may see different values"""
    out = []
    for bid, l, at in VAR_READS[since:]:
        if bid != id(body):
            continue
        if at is None:
            out.append((l, at))
            continue
        defs = {d[1] for d in body.defs.get(l, []) if d[0] in ("assign", "call")}
        if defs & (body.reach_from(at) | {at}):
            out.append((l, at))
    return out


def show(t):
    k = t[0]
    if k == "arg":
        return "arg%d" % t[1]
    if k == "var":
        return "var:" + t[2]
    if k == "const":
        return repr(t[2])
    if k == "call":
        return "%s(%s)" % (t[1].split("::")[-1], ",".join(show(a) for a in t[2]))
    if k == "bin":
        return "%s(%s,%s)" % (t[1], show(t[2]), show(t[3]))
    if k == "agg":
        return "%s{%s}" % (t[1].split("::")[-1], ",".join(show(a) for a in t[2]))
    if k == "proj":
        return show(t[1]) + "".join(("." if a == "field" else "@") + b for a, b in t[2])
    return "?%s" % (t,)


# ------------------------------------------------------------------ end trimmers that cut blanks only

BLANK_PROBES = [0x00, 0x09, 0x0A, 0x0B, 0x0C, 0x0D, 0x1F, 0x20, 0x21, 0x41, 0x7E, 0x7F, 0x80, 0x85, 0x9F, 0xA0, 0x1680, 0x2003, 0x2028, 0x202F, 0x2FFF, 0x3000, 0x3001,
                0xFEFF, 0x1F600]


def _predicate_verdicts(prog, name):
    """Concrete probes of a per-character predicate (closure or fn taking one char) -> {code point: bool}, or (None, reason)."""
    from table import Table, TooComplex, Unknown, run_concrete, eval_desc, vdesc
    pb = prog.body(name)
    if pb is None or pb.loops() or pb.locals[0]["ty"] != "bool":
        return None, "predicate %s not analysable" % name
    cp = [i for i in range(1, pb.arg_count + 1) if pb.locals[i]["ty"].replace("&", "").strip() == "char"]
    if len(cp) != 1:
        return None, "predicate %s does not take one char" % name
    try:
        tb = Table(prog, pb, inline=1)
        out = {}
        for ch in BLANK_PROBES:
            res, _ = run_concrete(tb, {"arg%d" % cp[0]: ch})
            out[ch] = bool(eval_desc(vdesc(res), {"arg%d" % cp[0]: ch}))
        return out, "ok"
    except (TooComplex, Unknown) as e:
        return None, "predicate %s cannot be evaluated (%s)" % (name, e)


def end_trim(prog, t, depth=0):
    """If term t is a call that returns its first argument with a run of characters removed at the end, (term of that argument,
    {probe code point: is it removed?}); else None.  Recognised: str::trim_ascii_end, str::trim_end (std's documented classes),
    str::trim_end_matches with a char constant or a per-character predicate (probed concretely), and a workspace helper whose
    result is such a call on its own parameter."""
    from table import CHAR_MODELS
    if t[0] != "call":
        return None
    fn = t[1]
    if fn == "core::str::trim_ascii_end":
        return t[2][0], {c: CHAR_MODELS["is_ascii_whitespace"](c) for c in BLANK_PROBES}
    if fn == "core::str::trim_end":
        return t[2][0], {c: CHAR_MODELS["is_whitespace"](c) for c in BLANK_PROBES}
    if fn == "core::str::trim_end_matches" and len(t[2]) == 2:
        pat = t[2][1]
        if pat[0] == "const" and pat[1] == "char":
            k = pat[2] if isinstance(pat[2], int) else ord(pat[2])
            return t[2][0], {c: c == k for c in BLANK_PROBES + [k]}
        if pat[0] == "agg" and str(pat[1]).startswith("closure:") and not pat[2]:
            v, _ = _predicate_verdicts(prog, pat[1][len("closure:"):])
            return (t[2][0], v) if v is not None else None
        return None
    hb = prog.body(fn)
    if hb is not None and depth < 2 and hb.crate.startswith("pasfmt") and not hb.loops() and hb.arg_count == 1 and len(t[2]) == 1:
        rets = hb.return_blocks()
        if len(rets) == 1:
            rt = t_operand(hb, {"k": "copy", "place": {"l": 0, "p": []}}, 0, (), rets[0])
            inner = end_trim(prog, rt, depth + 1)
            if inner is not None and inner[0] == ("arg", 1):
                return t[2][0], inner[1]
    return None


def blank_end_trim(prog, t):
    """the trimmed argument if t removes only blank characters (<= U+0020, U+3000) at the end, else None.  (str::trim_end does
    not qualify: Unicode White_Space contains U+0085, U+00A0, U+2000.. which are not blank here.)"""
    r = end_trim(prog, t)
    if r is None or any(v and c not in BLANK_CHARS for c, v in r[1].items()):
        return None
    return r[0]


def ascii_blank_end_trim(prog, t):
    """the trimmed argument if t removes at least spaces and tabs at the end (what C08 calls trailing blanks), else None"""
    r = end_trim(prog, t)
    if r is None or not (r[1].get(0x20) and r[1].get(0x09)):
        return None
    return r[0]


# ------------------------------------------------------------------ linear expressions

def lin_const(c):
    return {"": c}


def lin_atom(a):
    return {a: 1, "": 0}


def lin_add(a, b, sign=1):
    r = dict(a)
    for k, v in b.items():
        r[k] = r.get(k, 0) + sign * v
    return {k: v for k, v in r.items() if v != 0 or k == ""}


def lin_eq(a, b):
    d = lin_add(a, b, -1)
    return all(v == 0 for v in d.values())


def lin_show(a):
    parts = []
    for k, v in sorted(a.items()):
        if k == "":
            if v:
                parts.append(str(v))
        elif v == 1:
            parts.append(k)
        else:
            parts.append("%d*%s" % (v, k))
    return " + ".join(parts) or "0"


class SliceEval:
    """Evaluates &str terms of one body to sub-slices (start, end) of the token text."""

    def __init__(self, prog, body, content_pred):
        self.prog = prog
        self.body = body
        self.content_pred = content_pred          # term -> bool: is this the token's own text?
        self.L = lin_atom("L")
        self.notes = []
        self._var_assumed = {}
        self.trim_of = {}                          # atom name of a trimmed end -> end of the untrimmed slice

    def is_suffix_closure(self, t):
        """closure whose body returns `strip_prefix(<captured content>, <const>)`"""
        if t[0] != "agg" or not t[1].startswith("closure:"):
            return False
        cb = self.prog.body(t[1][len("closure:"):])
        if cb is None or not all(self.content_pred(a) for a in t[2]) or not t[2]:
            return False
        calls = [c for c in cb.calls()]
        return len(calls) == 1 and calls[0].callee == "core::str::strip_prefix" and len(cb.loops()) == 0

    def opt_suffix_of(self, t):
        """t is an Option<&str> whose payload (if any) is a suffix of the returned slice; returns that slice's end or None"""
        if t[0] == "call" and t[1] == "core::str::strip_prefix":
            s = self.slice(t[2][0])
            return s
        if t[0] == "call" and t[1] == "core::option::Option::or_else":
            s = self.opt_suffix_of(t[2][0])
            if s is not None and self.is_suffix_closure(t[2][1]) and lin_eq(s[1], self.L) :
                return s
        return None

    def slice(self, t):
        """(start, end) of a &str term inside the token text, or None"""
        if self.content_pred(t):
            return (lin_const(0), self.L)
        if t[0] == "proj" and t[2] == (("downcast", "Some"), ("field", "0")):
            s = self.opt_suffix_of(t[1])
            if s is not None:
                return (lin_atom("S[%s]" % show(t[1])), s[1])
            return None
        if t[0] == "proj" and t[1][0] == "call" and t[1][1] in ("core::str::split_at", "core::str::split_at_checked") and len(t[1][2]) == 2 \
                and t[2] in ((("field", "0"),), (("field", "1"),), (("downcast", "Some"), ("field", "0"), ("field", "0")), (("downcast", "Some"), ("field", "0"), ("field", "1"))):
            s = self.slice(t[1][2][0])
            n = self.lin(t[1][2][1])
            if s is None or n is None:
                return None
            mid = lin_add(s[0], n)
            return (s[0], mid) if t[2][-1] == ("field", "0") else (mid, s[1])
        if t[0] == "call":
            fn = t[1]
            if fn == "core::option::Option::unwrap_or":
                s = self.opt_suffix_of(t[2][0])
                d = self.slice(t[2][1])
                if s is not None and d is not None and lin_eq(s[1], d[1]):
                    return (lin_atom("S[%s]" % show(t)), d[1])
                return None
            if fn in ("core::str::traits::index", "core::ops::index::Index::index") and len(t[2]) == 2:
                s = self.slice(t[2][0])
                r = t[2][1]
                if s is None or r[0] != "agg":
                    return None
                if r[1] == "RangeTo":
                    e = self.lin(r[2][0])
                    return (s[0], lin_add(s[0], e)) if e is not None else None
                if r[1] == "RangeFrom":
                    e = self.lin(r[2][0])
                    return (lin_add(s[0], e), s[1]) if e is not None else None
                if r[1] == "Range":
                    a, e = self.lin(r[2][0]), self.lin(r[2][1])
                    return (lin_add(s[0], a), lin_add(s[0], e)) if a is not None and e is not None else None
                return None
            trimmed = blank_end_trim(self.prog, t)
            if trimmed is not None:
                s = self.slice(trimmed)
                if s is not None:
                    name = "T[%s]" % show(t)
                    self.trim_of[name] = s[1]
                    return (s[0], lin_atom(name))
            return None
        if t[0] == "var":
            return self.var_slice(t)
        return None

    def var_slice(self, t):
        """multi-definition &str variable: a suffix of the token text if every definition is (co-inductively)"""
        l = t[1]
        if l in self._var_assumed:
            return self._var_assumed[l]
        assumed = (lin_atom("S[var:%s]" % t[2]), self.L)
        self._var_assumed[l] = assumed
        defs = [d for d in self.body.defs.get(l, []) if d[0] in ("assign", "call")]
        ok = bool(defs)
        for d in defs:
            mark = len(VAR_READS)
            tt = t_def(self.body, d, 0, (l,))
            # reads of the variable itself inside its own definitions are intermediate by construction (only `end` is concluded from them)
            VAR_READS[mark:] = [r for r in VAR_READS[mark:] if r[1] != l]
            s = self.slice(tt)
            if s is None or not lin_eq(s[1], self.L):
                ok = False
        if not ok:
            self._var_assumed[l] = None
        return self._var_assumed[l]

    def lin(self, t):
        if t[0] == "const" and t[1] == "int":
            return lin_const(t[2])
        if t[0] == "bin" and t[1] in ("Add", "Sub"):
            a, b = self.lin(t[2]), self.lin(t[3])
            if a is None or b is None:
                return None
            return lin_add(a, b, 1 if t[1] == "Add" else -1)
        if t[0] == "call" and t[1] in ("core::str::len", "alloc::string::String::len"):
            s = self.slice(t[2][0])
            if s is not None:
                return lin_add(s[1], s[0], -1)
            return lin_atom("len(%s)" % show(t[2][0]))
        if t[0] in ("var", "arg", "call", "proj"):
            return lin_atom(show(t))
        return None


def closure_is_case_map(prog, t):
    if t[0] != "agg" or not t[1].startswith("closure:"):
        return False
    cb = prog.body(t[1][len("closure:"):])
    if cb is None or len(cb.loops()) != 0:
        return False
    calls = [c for c in cb.calls()]
    return len(calls) == 1 and (calls[0].callee or "").split("::")[-1] in CASE_MAPS


def pieces_of(prog, body, maker, ev):
    """Ordered list of what is appended to the String created by call site `maker` (String::with_capacity/new):
    [(site, kind, payload)] kind in slice|case-mapped-slice|blank|foreign"""
    og = Origins(body)
    out = []
    for c in body.calls():
        if c is maker or c.bb == maker.bb or not c.args or c.args[0]["k"] not in ("copy", "move"):
            continue
        o = og.of_operand(c.args[0])
        if not any(x[0] == "call" and x[1] == maker.bb for x in o):
            continue
        nm = (c.callee or "").split("::")[-1]
        if c.callee in ("alloc::string::String::push_str",):
            s = ev.slice(t_operand(body, c.args[1], 0, (), c.bb))
            out.append((c, "slice" if s is not None else "foreign", s if s is not None else show(t_operand(body, c.args[1], 0, (), c.bb))))
        elif c.callee == "alloc::string::String::push":
            t = t_operand(body, c.args[1], 0, (), c.bb)
            if t[0] == "const" and t[1] == "char" and t[2] in BLANK_CHARS:
                out.append((c, "blank", t[2]))
            else:
                out.append((c, "foreign", show(t)))
        elif "Extend" in (c.callee or "") and nm == "extend":
            t = t_operand(body, c.args[1], 0, (), c.bb)
            s = None
            if t[0] == "call" and t[1].endswith("Iterator::map") and closure_is_case_map(prog, t[2][1]):
                inner = t[2][0]
                if inner[0] == "call" and inner[1] == "core::str::chars":
                    s = ev.slice(inner[2][0])
            out.append((c, "case-mapped-slice" if s is not None else "foreign", s if s is not None else show(t)))
        elif nm in ("with_capacity", "len", "as_str", "deref", "capacity", "reserve"):
            continue
        else:
            out.append((c, "other:" + nm, None))
    return out


def _blank_str_term(body, t, depth=0):
    """a &str term that can only be a string of blank characters (possibly empty): a constant, or a variable all of whose
    definitions are such constants"""
    if t[0] == "const" and t[1] == "str":
        return all(ord(ch) in BLANK_CHARS for ch in t[2])
    if t[0] == "var" and depth < 3:
        defs = [d for d in body.defs.get(t[1], []) if d[0] in ("assign", "call")]
        return bool(defs) and all(_blank_str_term(body, t_def(body, d, 0, (t[1],)), depth + 1) for d in defs)
    return False


def pieces_of_concat(prog, body, site, ev):
    """Pieces of a text built in one go: `[a, b, c].concat()` / `[a, b, c].join(<blank or empty constant>)` — same result format as
    pieces_of (every piece carries the one call site)."""
    recv = t_operand(body, site.args[0], 0, (), site.bb)
    if recv[0] != "agg" or recv[1] != "array":
        return [(site, "foreign", show(recv))]
    sep = None
    if (site.callee or "").endswith("::join"):
        sep = t_operand(body, site.args[1], 0, (), site.bb)
        if not _blank_str_term(body, sep):
            return [(site, "foreign", "join separator %s" % show(sep))]
    out = []
    for i, el in enumerate(recv[2]):
        if i and sep is not None:
            out.append((site, "blank", show(sep)))
        if _blank_str_term(body, el):
            out.append((site, "blank", show(el)))
            continue
        s = ev.slice(el)
        out.append((site, "slice" if s is not None else "foreign", s if s is not None else show(el)))
    return out


def _refers(body, op, l):
    """operand is `&mut _l` / `_l` possibly through one reference temp"""
    pl = op["place"]
    if pl["l"] == l:
        return True
    for d in body.defs.get(pl["l"], []):
        if d[0] == "assign" and d[3]["k"] == "assign" and d[3]["rv"]["k"] in ("ref", "rawptr") and d[3]["rv"]["place"]["l"] == l and not [p for p in d[3]["rv"]["place"]["p"] if p["k"] != "deref"]:
            return True
    return False


def check_partition(body, pieces, ev, allow_trailing_trim=True):
    """pieces cover [0, L) consecutively; returns (ok, description, problems).
    Blank characters may be appended conditionally; the slices of the text must be appended unconditionally relative to each other.
    With allow_trailing_trim the cover may stop at `trim_ascii_end` of a slice that reaches the end of the text (only blanks are cut)."""
    problems = []
    cur = lin_const(0)
    desc = []
    prev = None
    for c, kind, payload in pieces:
        if kind == "blank":
            desc.append("blank")
            continue
        if prev is not None:
            if not (body.dominates(prev.bb, c.bb) and body.postdominates(c.bb, prev.bb)):
                problems.append("the piece appended at bb%d is not appended exactly when the previous piece is" % c.bb)
        prev = c
        if kind in ("slice", "case-mapped-slice"):
            s, e = payload
            if not lin_eq(s, cur):
                problems.append("piece starts at %s but the text is covered up to %s" % (lin_show(s), lin_show(cur)))
            cur = e
            desc.append("%s[%s .. %s]" % ("upper/lower" if kind != "slice" else "text", lin_show(s), lin_show(e)))
            continue
        problems.append("%s: %s" % (kind, payload))
        desc.append(kind)
    if not lin_eq(cur, ev.L):
        atoms = [k for k, v in cur.items() if k and v]
        trimmed = allow_trailing_trim and len(atoms) == 1 and cur.get("", 0) == 0 and cur[atoms[0]] == 1 and atoms[0] in ev.trim_of and lin_eq(ev.trim_of[atoms[0]], ev.L)
        if trimmed:
            desc.append("(trailing blanks cut: trim_ascii_end)")
        else:
            problems.append("pieces end at %s, not at the end of the text (L)" % lin_show(cur))
    return (not problems, desc, problems)
