"""Orchestrator properties: C16 (CLI modes / write protocol), C17 (encoding & BOM), C18 (batch = alone)."""
import re
from facts import norm, Origins
from progress import dominating_variant_facts, bfs_path
from table import Table, TooComplex, render, canon_place
from util import (origins, canon, call_result_users, question_propagated, local_reads, result_consumed,
                  ok_return_blocks, short, TRY_BRANCH, FROM_RESIDUAL)

FF = "pasfmt_orchestrator::file_formatter::FileFormatter::"
# functions the rules name themselves: never spliced into their callers by Program.inlined()
ORCH_KEEP = ("write_file", "write", "write_stdout", "decode_file", "encode", "encode_utf16le", "encode_utf16be", "encode_utf16", "exec_format", "format_files", "format_files_to_stdout", "check_files", "check_formatting", "output_new_cursors", "expand_paths")
FILE_FORMATTER_FILE = "orchestrator/src/file_formatter.rs"

FILE_EFFECTS = {
    "std::fs::OpenOptions::write", "std::fs::OpenOptions::append", "std::fs::OpenOptions::truncate",
    "std::fs::OpenOptions::create", "std::fs::OpenOptions::create_new",
    "std::fs::File::set_len", "std::fs::File::create", "std::fs::File::create_new", "std::fs::File::options",
    "std::fs::File::set_permissions", "std::fs::File::set_times", "std::fs::File::set_modified",
    "std::fs::write", "std::fs::remove_file", "std::fs::remove_dir", "std::fs::remove_dir_all", "std::fs::rename",
    "std::fs::copy", "std::fs::hard_link", "std::fs::soft_link", "std::fs::create_dir", "std::fs::create_dir_all",
    "std::fs::set_permissions", "std::os::unix::fs::symlink",
}
WRITE_METHODS = {"std::io::Write::write_all", "std::io::Write::write", "std::io::Write::write_fmt", "std::io::Write::flush",
                 "std::io::Write::write_vectored", "std::io::copy"}


def body(prog, name):
    return prog.body(name)


def arg_ty(b, op):
    if op["k"] in ("copy", "move"):
        return b.locals[op["place"]["l"]]["ty"]
    return op.get("ty", "")


# =========================================================================== C16

def per_file_body(prog):
    """The body that processes one file of the batch: the closure handed to rayon (`map_init` or `for_each_init`), with what it calls
    through `Result::and_then(closure)` and private single-use helpers (`format_path`) spliced in."""
    return prog.inlined(FF + "exec_format::{closure#0}", keep=ORCH_KEEP)


def _handler_calls_under_err(prog, b):
    """calls of a captured callable (the error handler) that are dominated by `<some Result> is Err`"""
    out = []
    for c in b.calls():
        if c.callee not in ("core::ops::function::Fn::call", "core::ops::function::FnMut::call_mut", "core::ops::function::FnOnce::call_once"):
            continue
        if any(x[1] == "is" and x[2] == ("Err",) for x in dominating_variant_facts(prog, b, c.bb)):
            out.append(c)
    return out


def glob_trigger_vocabulary(prog, rep, R):
    """C16.g — a path argument is expanded as a pattern only if it contains `*`; everything else that is not a directory is the file
    it names.  (Every further character that turns a name into a pattern — `?`, `[` — makes files whose names contain it
    unreachable: `unit[1].pas` is then matched against, not named, and silently skipped in all three modes.)"""
    from util import const_args
    fam = [b for b in prog.bodies.values() if b.npath.startswith(FF + "expand_paths")]
    words = set()
    n = 0
    for b in fam:
        for c in b.calls():
            if (c.callee or "") in ("core::str::contains", "core::str::find", "core::str::starts_with", "core::str::ends_with", "core::str::matches"):
                n += 1
                vs = const_args(b, c)
                words |= set(vs) if vs else {"<non-constant pattern>"}
    for path, ca in prog.const_arrays.items():
        if path.startswith(FF + "expand_paths") or path.startswith("pasfmt_orchestrator::file_formatter::GLOB"):
            for e in ca.get("elems", []):
                ch = e.get("char")
                words.add(e["str"] if "str" in e else (ch if isinstance(ch, str) else chr(ch)) if ch is not None else "?")
    rep.check(words == {"*"}, R, "pattern-trigger-is-asterisk-only", "expand_paths treats a path as a pattern when it contains one of %s (reviewed: `*` only): a file whose name contains another of "
              "these characters can no longer be named" % sorted(words), instance={"trigger_characters": sorted(words), "tests": n})


def check_c16(prog, rep, tier, cfg):
    glob_trigger_vocabulary(prog, rep, "C16.g")
    c16a(prog, rep)
    c16b(prog, rep)
    c16c(prog, rep)
    c16d(prog, rep)
    c16e(prog, rep)
    c16f(prog, rep)
    # C16.h — `cannot be decoded` is the decoder's own verdict: the text that is formatted and the malformed flag both come from one
    # call of encoding_rs on the bytes after the BOM, and the flag leads to the error (shared with C17.a / C17.b)
    from engine import AliasReport
    c17a(prog, AliasReport(rep, [("C17.a", r".", "C16.h")]))
    c17b(prog, AliasReport(rep, [("C17.b", r".", "C16.h")]))
    c16i(prog, rep)
    c16j(prog, rep)
    c16l(prog, rep)
    c16m(prog, rep)
    # C16.n — what stdin mode prints and what files mode leaves in the file are both `[the BOM that was read] ++ encode(text)`: the
    # writer adds nothing of its own, so that `unchanged text` means `unchanged bytes` (shared with C17.c)
    c17c(prog, AliasReport(rep, [("C17.c", r"^bom-and-data-writes|^anchor:write|^encode\(encoding,data\)", "C16.n")]))
    # C16.k — every source file found under a directory is formatted like the same content from stdin: the walk drops an entry only
    # because it is not a formattable file, and the list of files is shortened only by an entry that names a file already in it
    # (shared with C18.f / C18.h)
    c18f(prog, AliasReport(rep, [("C18.f", r"^dropping-adaptor|^floor:reviewed dropping|^path-lists-only-grow", "C16.k"), ("C18.h", r".", "C16.k")]))


def partial_writes(prog, crates=("pasfmt",)):
    """call sites of `std::io::Write::write` — the one method of the trait that may accept only part of the buffer"""
    out = []
    for b in prog.bodies.values():
        if not any(b.crate.startswith(c) for c in crates):
            continue
        for c in b.calls():
            if (c.callee or "") == "std::io::Write::write":
                out.append(c)
    return out


def unlocked_stdout_handles(prog, crates=("pasfmt",)):
    """`std::io::stdout()` results that are used for anything but `.lock()`: writes through an unlocked handle (also through a BufWriter /
    LineWriter around it) take and release the stdout lock per write call"""
    out = []
    for b in prog.bodies.values():
        if not any(b.crate.startswith(c) for c in crates):
            continue
        for c in b.calls():
            if (c.callee or "") not in ("std::io::stdout", "std::io::stdio::stdout"):
                continue
            users = call_result_users(b, c)
            if not users or any((u.callee or "").split("::")[-1] != "lock" for u in users):
                out.append(c)
    return out


def c16i(prog, rep):
    """C16.i — what a mode prints / writes is what the formatter produced, completely and in one piece.  (1) No output is written with
    `Write::write` (which may accept only a prefix: std's line-buffered stdout takes the text up to the last line break plus what
    fits its buffer); the complete-write methods are write_all / write_fmt / print!.  (2) A handle to stdout is only used locked:
    the per-file blocks of stdout mode are written by parallel workers, a BufWriter around an unlocked handle splits a block of
    more than its capacity into several writes, between which another worker's block can land (C18: batch = alone)."""
    R = "C16.i"
    pw = partial_writes(prog)
    rep.check(not pw, R, "no-partial-write", "output is written with Write::write, which may accept only part of the buffer (the rest is silently dropped): %s" % [short(c.body.npath) for c in pw[:3]],
              where=pw[0].where() if pw else None, instance={"partial_write_sites": len(pw)})
    ul = unlocked_stdout_handles(prog)
    rep.check(not ul, R, "stdout-only-locked", "a handle to stdout is used without `.lock()` (%s): every write call takes the lock on its own, so the blocks that parallel workers print for their "
              "files can interleave" % [short(c.body.npath) for c in ul[:3]], where=ul[0].where() if ul else None, instance={"unlocked_handles": len(ul)})
    so = [c for b in prog.bodies.values() if b.crate.startswith("pasfmt") for c in b.calls() if (c.callee or "") in ("std::io::stdout", "std::io::stdio::stdout")]
    rep.analysed["stdout_handles"] = len(so)


def callback_arg_origins(prog, closure, param_local):
    """What a closure's parameter receives: the closure is handed to one FileFormatter function (the driver), which calls it once with a
    tuple of arguments; the origins (in the driver) of the tuple component that becomes `param_local` of the closure.  None if the
    closure is not handed to exactly one driver that calls it exactly once."""
    parent = prog.body(closure.root) if closure.kind == "Closure" else None
    if parent is None:
        return None
    fam = [parent] + [x for x in prog.bodies.values() if x.npath.startswith(parent.npath + "::") and x.npath != closure.npath]
    handed = []
    for x in fam:
        for c in x.calls():
            for i, a in enumerate(c.args):
                if a["k"] in ("copy", "move") and not a["place"]["p"] and norm(x.locals[a["place"]["l"]].get("closure") or "") == closure.npath:
                    handed.append((c, i))
    if len(handed) != 1:
        return None
    site, i = handed[0]
    drv = prog.body(site.resolved or site.callee or "")
    if drv is None or not drv.crate.startswith("pasfmt"):
        return None
    inv = [c for c in drv.calls() if (c.callee or "").split("::")[-1] in ("call_once", "call", "call_mut") and "ops::function::Fn" in (c.callee or "")
           and c.args and canon(drv, c.args[0]) == "arg%d" % (i + 1)]
    if len(inv) != 1 or len(inv[0].args) != 2:
        return None
    og = Origins(drv)
    for o in og.of_operand(inv[0].args[1]):
        if o[0] == "agg" and o[3] == "tuple":
            ops = drv.blocks[o[1]]["stmts"][o[2]]["rv"]["ops"]
            k = param_local - 2
            if 0 <= k < len(ops):
                return origins(drv).of_operand(ops[k])
    return None


# what may stand between the text of the --files-from list and the path list: cutting into lines, element-preserving adapters, and
# conversions that keep the text
FILES_FROM_OK = ("read_to_string", "with_context", "context", "branch", "deref", "lines", "map", "collect", "into_iter", "iter", "from", "to_owned", "to_string", "into", "as_str",
                 "as_ref", "borrow", "clone", "cloned", "copied", "closure", "tmp", "Some", "Ok", "to_mut", "index", "RangeFull", "Borrowed", "Cow", "fn")


def c16l(prog, rep):
    """C16.l — "files mode leaves the file holding what stdin mode prints", for every file the user names: a path listed with
    `--files-from` is a line of the list, taken as written.  From the read of the list to the path list that get_paths returns, the
    text passes through `str::lines` (the documented separator), element-preserving adapters and text-preserving conversions only —
    in get_paths itself or in a helper it calls: a cut at any whitespace, a trim or a filter turns `my units/unit1.pas` into other
    paths, and the named file is neither formatted nor checked."""
    R = "C16.l"
    from util import family_bodies
    cands = [b for n, b in prog.bodies.items() if n.endswith("FormatterConfiguration>::get_paths") and b.crate.startswith("pasfmt_orchestrator")]
    if not rep.check(len(cands) == 1, R, "anchor:get_paths", "the FormatterConfiguration::get_paths implementation of PasFmtConfiguration not found"):
        return
    gp = cands[0]
    fam = family_bodies(prog, gp)
    readers = [(b, c) for b, _a, _ch in fam for c in b.calls() if (c.callee or "") in ("std::fs::read_to_string", "std::fs::read")]
    if not rep.check(len(readers) == 1, R, "anchor:files-from-read", "the --files-from list is not read with exactly one read_to_string call in get_paths or a helper of it (found %d)" % len(readers)):
        return
    rb, rc = readers[0]

    def flat_names(text):
        flat, depth = "", 0
        for ch in text:
            if ch == "{":
                depth += 1
            elif ch == "}":
                depth -= 1
            elif depth == 0:
                flat += ch
        return flat, set(re.findall(r"([A-Za-z_][A-Za-z_0-9]*)\(", flat)) | set(re.findall(r"fn:([A-Za-z_][A-Za-z_0-9]*)", flat))

    def texts_with(b, needle):
        """canonical texts in b through which the list's text leaves: the return value and the arguments of appending calls"""
        out = []
        # every value assigned to the return slot (the Ok(..) / Cow::Owned(..) around the list is looked through)
        for bb, i, st in b.stmts():
            if st["k"] == "assign" and st["dst"]["l"] == 0:
                rv = st["rv"]
                ops = rv.get("ops") if rv["k"] == "aggregate" else ([rv["op"]] if rv["k"] in ("use", "cast") else [])
                for op in ops or []:
                    t = canon(b, op)
                    if needle in t:
                        out.append(("return", t))
        for c in b.calls():
            if c.t["dst"]["l"] == 0 and not c.t["dst"]["p"]:
                t = "%s(%s)" % ((c.callee or "?").split("::")[-1], ",".join(canon(b, a) for a in c.args))
                if needle in t and not (t.startswith("from_residual(") and "@Break.0" in t):        # (the error of the read, propagated by `?`)
                    out.append(("return", t))
        for c in b.calls():
            if (c.callee or "").split("::")[-1] in ("extend", "push", "append", "extend_from_slice", "insert"):
                for a in c.args:
                    t = canon(b, a)
                    if needle in t:
                        out.append((c.callee.split("::")[-1], t))
        return out
    bad = []
    steps = []
    # in the body that reads the list
    tx = texts_with(rb, "read_to_string(")
    if not tx:
        bad.append(("the text read from the list does not leave %s" % short(rb.npath), ""))
    for how, t in tx:
        flat, fns = flat_names(t)
        other = sorted(f for f in fns if f not in FILES_FROM_OK)
        steps.append(flat[:100])
        if other or "lines(" not in flat:
            bad.append((other or ["not cut by lines()"], flat[:120]))
    # in get_paths, when the read happens in a helper: what is done with the helper's result
    if rb is not gp:
        helper = rb.npath.split("::")[-1]
        tx2 = texts_with(gp, helper + "(")
        if not tx2:
            bad.append(("the result of %s does not reach the path list" % helper, ""))
        for how, t in tx2:
            flat, fns = flat_names(t)
            other = sorted(f for f in fns if f not in FILES_FROM_OK + (helper, "chain", "Owned", "extend"))
            steps.append(flat[:100])
            if other:
                bad.append((other, flat[:120]))
    # closures handed to the adapters keep the text too
    for b, _a, _ch in fam:
        if b.kind == "Closure" and any(k in b.npath for k in (rb.npath, gp.npath)):
            cf = {(k.callee or "").split("::")[-1] for k in b.calls()} - {"display", "format", "must_use", "new_display", "new_const", "new"}
            is_ctx = any("Arguments" in (k.callee or "") or "fmt" in (k.callee or "") for k in b.calls())
            o2 = sorted(f for f in cf if f not in FILES_FROM_OK)
            if o2 and not is_ctx:
                bad.append((o2, "closure %s" % short(b.npath)))
    rep.check(not bad, R, "listed-path=line-as-written",
              "a path of the --files-from list is not a line of the list as written: %s — paths that contain blanks (or whatever the extra step cuts or removes) name other files, and the "
              "listed file is neither formatted nor checked" % bad[:2], where=rc.where(), instance={"steps": steps, "deviations": [str(x) for x in bad[:3]]})


def c16j(prog, rep):
    """C16.j — every mode reports success only for an input it has actually formatted: in each body that decodes an input (the stdin
    paths; the per-file body of the batch modes is C16.b) a successful return is reached only through Formatter::format, and in the
    printing mode also through the write to stdout.  An early `return Ok(())` for inputs of some shape (blank, already tidy ..)
    makes stdout mode print something else than files mode leaves in the file, and check mode disagree with both."""
    R = "C16.j"
    FMT = "pasfmt_core::formatter::Formatter::format"
    n = 0
    deciders = set()
    for k, b in sorted(prog.bodies.items()):
        if not k.startswith(FF) or k == FF + "decode_stdin" or k.startswith(FF + "decode_stdin::"):
            continue
        dec = [c for c in b.calls() if norm(c.t.get("resolved") or c.callee or "") in (FF + "decode_stdin",)]
        if not dec:
            continue
        n += 1
        fm = {c.bb for c in b.calls() if norm(c.t.get("resolved") or c.callee or "") == FMT}
        oks = ok_return_blocks(b)
        # returns that hand on the result of a call made after formatting are fine; an `Ok(..)` built here must lie behind the format call
        early = [r for r in oks if b.can_reach_avoiding(0, {r}, fm)]
        rep.check(bool(fm) and not early, R, "success-only-after-formatting:%s" % short(k),
                  "%s can report success for its input without having formatted it (an `Ok` return is reachable without passing Formatter::format): the modes then disagree on that input"
                  % short(k), where="%s:%d" % (b.file, b.line), instance={"body": short(k), "ok_returns": len(oks)})
        deciders.add(b.root if b.kind == "Closure" else k)
        # a shared driver hands (decoded, formatted) to the mode's callback: success only behind that call
        cb_calls = {c.bb for c in b.calls() if "ops::function::Fn" in (c.callee or "") and c.args and re.match(r"^arg\d+$", canon(b, c.args[0]))}
        if cb_calls:
            early3 = [r for r in oks if b.can_reach_avoiding(0, {r}, cb_calls)]
            rep.check(not early3, R, "success-only-after-the-mode's-operation:%s" % short(k),
                      "%s can report success without having handed the formatted text to the mode's operation (print / compare)" % short(k), where="%s:%d" % (b.file, b.line), instance={"body": short(k)})
        if "to_stdout" in k:
            ws = {c.bb for c in b.calls() if norm(c.t.get("resolved") or c.callee or "") in (FF + "write_stdout", FF + "write")}
            early2 = [r for r in oks if b.can_reach_avoiding(0, {r}, ws)]
            rep.check(bool(ws) and not early2, R, "success-only-after-printing:%s" % short(k),
                      "%s can report success without having written the result to stdout" % short(k), where="%s:%d" % (b.file, b.line), instance={"body": short(k)})
    # both stdin modes are covered: each entry point decodes stdin in its own body / closure or through a shared driver examined above
    covered = 0
    for entry in ("format_stdin_to_stdout", "check_stdin"):
        fam = [x for x in prog.bodies.values() if x.npath == FF + entry or x.npath.startswith(FF + entry + "::")]
        if any(x.npath in deciders or (x.root if x.kind == "Closure" else x.npath) in deciders or
               any(norm(c.t.get("resolved") or c.callee or "") in deciders for c in x.calls()) for x in fam):
            covered += 1
    rep.floor(R, "stdin modes whose decoding body was examined", covered, 2)
    rep.floor(R, "bodies that decode stdin", n, 1)


def effect_sites(prog):
    """(site, why) for every call that can modify a file."""
    out = []
    for k, b in prog.bodies.items():
        for c in b.calls():
            cal = c.callee or ""
            tgt = c.target or ""
            if cal in FILE_EFFECTS or tgt in FILE_EFFECTS:
                out.append((c, cal))
            elif cal in WRITE_METHODS and c.args and "std::fs::File" in arg_ty(b, c.args[0]):
                out.append((c, cal + " on File"))
            elif tgt in (FF + "write_file", FF + "write") and c.args and "std::fs::File" in arg_ty(b, c.args[0]):
                out.append((c, "writer handed a File"))
    return out


def c16a(prog, rep):
    R = "C16.a"
    allowed = {FF + "format_files", FF + "format_files::{closure#0}"}
    eff = effect_sites(prog)
    import layout as _layout
    acc_helpers = _layout.helper_closure(prog, sorted({c.body.npath for c, _ in eff}), sorted(allowed))
    for k, v in acc_helpers.items():
        rep.note("file effects: %s accepted (%s)" % (short(k), v))
    allowed = allowed | set(acc_helpers)
    counts = {}
    for c, why in eff:
        counts[why] = counts.get(why, 0) + 1
        rep.check(c.body.npath in allowed, R, "effect:%s:%s" % (short(c.body.npath), why),
                  "file-mutating call (%s) outside format_files: in %s" % (why, short(c.body.npath)), where=c.where(),
                  instance={"body": short(c.body.npath), "effect": why})
    rep.floor(R, "OpenOptions::write sites", counts.get("std::fs::OpenOptions::write", 0), 1)
    rep.floor(R, "File::set_len sites", counts.get("std::fs::File::set_len", 0), 1)
    rep.floor(R, "writer-handed-a-File sites", counts.get("writer handed a File", 0), 1)
    # the generic writer: write_all only inside FileFormatter::write (floor 2)
    wa = [c for c in prog.who_calls("std::io::Write::write_all") if c.body.crate.startswith("pasfmt")]
    wa_helpers = _layout.helper_closure(prog, sorted({c.body.npath for c in wa}), [FF + "write"])      # `write_bom(..)` called only from write is part of it
    rep.check(all(c.body.npath == FF + "write" or c.body.npath in wa_helpers for c in wa), R, "write_all-confined",
              "Write::write_all is called outside FileFormatter::write: %s" % sorted({short(c.body.npath) for c in wa}))
    rep.floor(R, "write_all sites in FileFormatter::write", len(wa), 2)
    # stdout / check: OpenOptions::new() untouched; closures never touch the File parameter
    for fn in ("format_files_to_stdout", "check_files"):
        b = prog.body(FF + fn)
        if not rep.check(b is not None, R, "anchor:" + fn, "%s not found" % fn):
            continue
        ex = b.calls_to(FF + "exec_format")
        if not rep.check(len(ex) == 1, R, fn + ":exec_format-call", "%s does not call exec_format exactly once" % fn):
            continue
        og = Origins(b, identity=())
        o = og.of_operand(ex[0].args[2])
        rep.check({x[2] for x in o if x[0] == "call"} == {"std::fs::OpenOptions::new"} and all(x[0] == "call" for x in o), R, fn + ":read-only-options",
                  "%s no longer passes a plain OpenOptions::new() to exec_format (origins: %s)" % (fn, sorted(map(str, o))), where=ex[0].where(),
                  instance={"fn": fn, "open_options_origin": "OpenOptions::new()"})
        cl = prog.body(FF + fn + "::{closure#0}")
        if rep.check(cl is not None, R, fn + ":closure", "result closure of %s not found" % fn):
            rep.check(not local_reads(cl, 2), R, fn + ":closure-ignores-file",
                      "the result closure of %s now uses its `&mut File` argument" % fn, where="%s:%d" % (cl.file, cl.line),
                      instance={"fn": fn, "file_param_reads": 0})
    ef = prog.body(FF + "exec_format")
    if rep.check(ef is not None, R, "anchor:exec_format", "exec_format not found"):
        oo = [c for c in ef.calls() if (c.callee or "").startswith("std::fs::OpenOptions::")]
        rep.check(sorted(c.callee for c in oo) == ["std::fs::OpenOptions::read"], R, "exec_format:only-read",
                  "exec_format configures OpenOptions beyond .read(true): %s" % sorted(c.callee for c in oo))
        cl = per_file_body(prog)
        if cl is not None:
            oo2 = sorted(c.callee for c in cl.calls() if (c.callee or "").startswith("std::fs::"))
            rep.check(oo2 == ["std::fs::OpenOptions::open"], R, "exec_format-closure:only-open",
                      "the per-file closure of exec_format performs std::fs calls other than open: %s" % oo2)


def c16b(prog, rep, R="C16.b"):
    b = prog.inlined(FF + "format_files::{closure#0}", keep=ORCH_KEEP)
    if not rep.check(b is not None, R, "anchor:format_files-closure", "format_files closure not found"):
        return
    seek = b.calls_to("std::io::Seek::seek")
    wf = b.calls_to(FF + "write_file")
    sl = b.calls_to("std::fs::File::set_len")
    if not rep.check(len(seek) == 1 and len(wf) == 1 and len(sl) == 1, R, "protocol-calls",
                     "format_files closure must contain exactly one seek, one write_file and one set_len (found %d/%d/%d)" % (len(seek), len(wf), len(sl))):
        return
    S, W, L = seek[0], wf[0], sl[0]
    rep.check(b.dominates(S.bb, W.bb) and b.dominates(W.bb, L.bb) and not b.can_reach_avoiding(L.bb, {S.bb, W.bb}, set()), R, "order:seek<write<set_len",
              "seek / write_file / set_len are no longer in dominance order", where=W.where())
    # Continue-edges: write happens only after a successful seek, set_len only after a successful write
    fw = dominating_variant_facts(prog, b, W.bb)
    fl = dominating_variant_facts(prog, b, L.bb)
    rep.check(any("seek(" in f[0] and f[1] == "is" and f[2] == ("Continue",) for f in fw), R, "write-after-seek-ok",
              "write_file is not guarded by the success of seek", where=W.where())
    rep.check(any("write_file(" in f[0] and f[1] == "is" and f[2] == ("Continue",) for f in fl), R, "set_len-after-write-ok",
              "set_len is not guarded by the success of write_file", where=L.where())
    from util import ERR_ADAPTERS as _EA, TRY_BRANCH as _TB
    _ret = Origins(b, identity=set(_EA) - {_TB}).of_place({"l": 0, "p": []})
    for nm, c in (("seek", S), ("write_file", W), ("set_len", L)):
        returned = any(x[0] == "call" and x[1] == c.bb for x in _ret)
        rep.check(question_propagated(b, c) or returned, R, "propagated:" + nm, "the result of %s is neither `?`-propagated nor returned as the closure's result" % nm, where=c.where(),
                  instance={"call": nm, "propagation": "?" if not returned else "returned"})
    # seek(Start(0))
    og = origins(b)
    so = og.of_operand(S.args[1])
    good = False
    for x in so:
        if x[0] == "agg" and x[3].endswith("SeekFrom::Start"):
            st = b.blocks[x[1]]["stmts"][x[2]]
            ops = st["rv"]["ops"]
            good = len(ops) == 1 and ops[0]["k"] == "const" and ops[0].get("int") == 0
    rep.check(good and len(so) == 1, R, "seek-to-start", "seek target is no longer SeekFrom::Start(0)", where=S.where())
    # set_len receives exactly what write_file returned
    lo = og.of_operand(L.args[1])
    rep.check(lo == {("call", W.bb, FF + "write_file")}, R, "set_len-arg=write_file-result",
              "File::set_len no longer receives exactly the length returned by write_file (origins: %s)" % sorted(map(str, lo)), where=L.where(),
              instance={"set_len_arg_origin": "Ok payload of write_file"})
    # same file handle, the decoded file and the formatted output go to write_file
    def param_only(op, idx):
        o = og.of_operand(op)
        return bool(o) and all(x[0] == "param" and x[1] == idx for x in o)
    rep.check(param_only(S.args[0], 2) and param_only(W.args[0], 2) and param_only(L.args[0], 2), R, "same-file-handle",
              "seek / write_file / set_len do not all operate on the closure's file parameter")
    rep.check(param_only(W.args[1], 4) and param_only(W.args[2], 5), R, "write_file-args",
              "write_file is not called with (decoded_file, formatted_output) of this file", where=W.where())
    # every Ok return is either the unchanged-skip arm or after set_len succeeded
    eqs = [c for c in b.calls() if (c.target or "").endswith("::eq") or (c.callee or "") == "core::cmp::PartialEq::eq"]
    skip_ok = 0
    for okb in ok_return_blocks(b):
        after_len = b.dominates(L.bb, okb) and any("set_len(" in f[0] and f[2] == ("Continue",) for f in dominating_variant_facts(prog, b, okb))
        skip = False
        from panic import dominating_conditions
        for c in dominating_conditions(b, okb):
            if c[0] == "call" and ((c[1].endswith("::eq") and c[3] is True) or (c[1].endswith("::ne") and c[3] is False)):
                a0 = og.of_operand(c[2][0])
                a1 = og.of_operand(c[2][1])
                if any(x[0] == "param" and x[1] == 4 and "contents" in x[2] for x in a0) and any(x[0] == "param" and x[1] == 5 for x in a1):
                    skip = True
        if skip:
            skip_ok += 1
        rep.check(after_len or skip, R, "ok-return:bb%d" % okb, "format_files closure can report success without writing and without the text being unchanged",
                  where="%s:%d" % (b.file, b.line), instance={"ok_return": "skip-arm" if skip else "after set_len"})
    rep.floor(R, "unchanged-skip arm comparing decoded contents with formatted output", skip_ok, 1)
    # a success can also be reported by handing on the Result of set_len itself (`file.set_len(n).with_context(..)` as the tail expression)
    from util import ERR_ADAPTERS, TRY_BRANCH
    ret_o = Origins(b, identity=set(ERR_ADAPTERS) - {TRY_BRANCH}).of_place({"l": 0, "p": []})
    passes_set_len = any(x[0] == "call" and x[1] == L.bb for x in ret_o)
    other_calls = [x for x in ret_o if x[0] == "call" and x[1] != L.bb and not x[2].endswith("from_residual") and not x[2].endswith("FromResidual::from_residual")]
    rep.check(not other_calls, R, "returned-results", "the format_files closure hands on the result of %s as its own" % sorted(x[2] for x in other_calls), instance={"returned_call_results": sorted(x[2].split("::")[-1] for x in ret_o if x[0] == "call")})
    rep.floor(R, "Ok returns", len(ok_return_blocks(b)) + (1 if passes_set_len else 0), 2)


def unchanged_skip_is_exact(prog, rep, R):
    """Files mode leaves a file unwritten only when the decoded text and the formatted text are equal as whole strings (`==`): any weaker
    notion of `unchanged` (line-wise, trimmed, length) would leave line terminators, blanks or characters as they were in the input."""
    from panic import dominating_conditions
    b = prog.inlined(FF + "format_files::{closure#0}", keep=ORCH_KEEP)
    if not rep.check(b is not None, R, "anchor:format_files-closure", "format_files closure not found"):
        return
    og = origins(b)
    wf = b.calls_to(FF + "write_file")
    exact = 0
    for okb in ok_return_blocks(b):
        if wf and b.dominates(wf[0].bb, okb):
            continue
        skip = False
        for c in dominating_conditions(b, okb):
            if c[0] == "call" and ((c[1].endswith("::eq") and c[3] is True) or (c[1].endswith("::ne") and c[3] is False)):
                a0, a1 = og.of_operand(c[2][0]), og.of_operand(c[2][1])
                if any(x[0] == "param" and x[1] == 4 and "contents" in x[2] for x in a0) and any(x[0] == "param" and x[1] == 5 for x in a1):
                    skip = True
        exact += 1 if skip else 0
        rep.check(skip, R, "skip-arm-is-whole-text-equality:bb%d" % okb, "format_files reports success without writing under a condition other than `decoded contents == formatted output`",
                  where="%s:%d" % (b.file, b.line), instance={"skip_condition": "decoded_file.contents == formatted_output"})
    rep.floor(R, "unchanged-skip arms", exact, 1)


def c16c(prog, rep):
    R = "C16.c"
    b = prog.inlined(FF + "write", keep=ORCH_KEEP)
    if not rep.check(b is not None, R, "anchor:write", "FileFormatter::write not found"):
        return
    was = b.calls_to("std::io::Write::write_all")
    if _pathwise_length(prog, rep, R, b, was):
        return
    len_local = None
    for i, lc in enumerate(b.locals):
        if lc.get("name") == "len" and lc["ty"] == "usize":
            len_local = i
    # accumulator: the local that the Ok payload is cast from
    og = origins(b)
    okb = ok_return_blocks(b)
    acc = None
    for bb in okb:
        for s in b.blocks[bb]["stmts"]:
            if s["k"] == "assign" and s["dst"]["l"] == 0 and s["rv"]["k"] == "aggregate":
                from panic import source_place
                op = s["rv"]["ops"][0]
                # follow the cast
                if op["k"] in ("copy", "move"):
                    for d in b.defs.get(op["place"]["l"], []):
                        if d[0] == "assign" and d[3]["rv"]["k"] == "cast":
                            sp = source_place(b, d[3]["rv"]["op"])
                            if sp and not sp["p"]:
                                acc = sp["l"]
    if acc is None or len(okb) != 1 or not [x for bb2, i2, x in b.stmts() if x["k"] == "assign" and x["dst"]["l"] == acc and not x["dst"]["p"] and x["rv"]["k"] == "use" and x["rv"]["op"].get("int") == 0]:
        # no running counter: the returned length may be written as one sum over everything that is written
        if _static_length_sum(prog, rep, R, b, was, okb):
            for w in was:
                rep.check(question_propagated(b, w), R, "propagated:write_all:%s" % canon(b, w.args[1]), "a write_all result is not `?`-propagated", where=w.where())
            return
    if not rep.check(acc is not None and len(okb) == 1, R, "ok-payload-is-accumulator", "write() no longer returns Ok(<byte counter> as u64) from a single success exit"):
        return
    stores = [(bb, i, s) for bb, i, s in b.stmts() if s["k"] == "assign" and s["dst"]["l"] == acc and not s["dst"]["p"]]
    inits = [x for x in stores if x[2]["rv"]["k"] == "use" and x[2]["rv"]["op"]["k"] == "const" and x[2]["rv"]["op"].get("int") == 0]
    adds = [x for x in stores if x not in inits]
    rep.check(len(inits) == 1, R, "counter-starts-at-0", "byte counter of write() is not initialised to 0 exactly once")
    matched = 0
    for w in was:
        wa = canon(b, w.args[1])
        found = False
        for (bb, i, s) in adds:
            if not b.dominates(w.bb, bb):
                continue
            # value stored: Add(acc, len(<same buffer>))
            rv = s["rv"]
            if rv["k"] == "use" and rv["op"]["k"] in ("copy", "move"):
                c = canon_place(b, rv["op"]["place"], {})
            elif rv["k"] == "binop":
                c = "%s(%s,%s)" % (rv["op"].replace("WithOverflow", ""), canon(b, rv["a"]), canon(b, rv["b"]))
            else:
                c = ""
            if c.startswith("Add(var:") and c.endswith(",len(%s))" % wa):
                # only reachable after the write succeeded
                if any("write_all(" in f[0] and f[2] == ("Continue",) for f in dominating_variant_facts(prog, b, bb)):
                    found = True
        if found:
            matched += 1
        rep.check(found, R, "accounted:%s" % wa, "bytes written by write_all(%s) are not added to the returned length" % wa, where=w.where(),
                  instance={"write_all_arg": wa, "accounted_by": "len += len(%s)" % wa})
    rep.check(len(adds) == len(was), R, "nothing-else-counted", "the returned length is modified %d times for %d write_all calls" % (len(adds), len(was)))
    rep.floor(R, "write_all calls accounted", matched, 2)
    for w in was:
        rep.check(question_propagated(b, w), R, "propagated:write_all:%s" % canon(b, w.args[1]), "a write_all result is not `?`-propagated", where=w.where())


def _pathwise_length(prog, rep, R, b, was):
    """The semantic form of C16.c: on every path of write() that returns Ok(n), n is the sum of the lengths of exactly the buffers
    handed to write_all on that path (path enumeration of the loop-free body with the checked additions evaluated along the path;
    an optional buffer may be counted as `opt.map_or(0, len)`).  Returns False when write() is not loop-free (nothing reported;
    the counter-shape rules below then apply)."""
    from table import split_call
    try:
        # (inline=1 switches the models of `?` on: a helper that returns Ok(n) / Err(e) is followed through the caller's `?`)
        tb = Table(prog, b, inline=1, opaque=("encode",))
    except TooComplex:
        return False

    def clean(x):
        return re.sub(r"\b(place|call|sym):", "", x).replace(" ", "")

    def terms(x):
        sc = split_call(x)
        if sc and sc[0] == "Add" and len(sc[1]) == 2:
            return terms(sc[1][0]) + terms(sc[1][1])
        return [x]
    n_ok = 0
    most = 0
    for (cons, res), calls in zip(tb.rows, tb.calls):
        r = clean(render(res)) if not isinstance(res, str) else clean(res)
        if not r.startswith("Ok("):
            continue
        n_ok += 1
        payload = split_call(r)[1][0]
        written = [clean(a[1]) for nm, a in calls if nm == "std::io::Write::write_all"]
        most = max(most, len(written))
        ts = [t for t in terms(payload) if t != "0"]
        none_here = {c[1] for c in cons if c[0] == "is" and c[2] == "None"}
        unmatched = list(ts)
        missing = []
        for wa in written:
            alts = ["len(%s)" % wa]
            if wa.endswith("@Some.0"):
                base = wa[:-len("@Some.0")]
                alts += [t for t in unmatched if t.startswith("map_or(%s,0," % base)]
            hit = [t for t in unmatched if t in alts]
            if hit:
                unmatched.remove(hit[0])
            else:
                missing.append(wa)
        # a term `opt.map_or(0, len)` is 0 on a path where opt is None
        unmatched = [t for t in unmatched if not (t.startswith("map_or(") and split_call(t) and split_call(t)[1][0] in none_here and split_call(t)[1][1] == "0")]
        rep.check(not missing and not unmatched, R, "returned-length=sum-of-written:path%d" % n_ok,
                  "write() returns Ok(%s) on a path on which it wrote %s: %s" % (payload[:120], written, ("not counted: %s" % missing) if missing else ("counted but not written: %s" % unmatched)),
                  where="%s:%d" % (b.file, b.line), instance={"returned": payload[:160], "written_on_this_path": written})
    rep.check(n_ok >= 2, R, "ok-paths", "write() has %d successful paths (with and without BOM expected)" % n_ok)
    rep.floor(R, "write_all calls accounted", most, 2)
    for w in was:
        rep.check(question_propagated(b, w), R, "propagated:write_all:%s" % canon(b, w.args[1]), "a write_all result is not `?`-propagated", where=w.where())
    return True


def _static_length_sum(prog, rep, R, b, was, okb):
    """`Ok((len(a) + len(b) ..) as u64)` with exactly one term per write_all argument (an optional buffer may be counted as
    `opt.map_or(0, len)`); returns False if the shape is not this one (nothing reported then)."""
    from table import split_call
    if len(okb) != 1:
        return False
    payload = None
    for s in b.blocks[okb[0]]["stmts"]:
        if s["k"] == "assign" and s["dst"]["l"] == 0 and s["rv"]["k"] == "aggregate":
            payload = canon(b, s["rv"]["ops"][0])
    if payload is None:
        return False

    def terms(x):
        sc = split_call(x)
        if sc and sc[0] == "Add" and len(sc[1]) == 2:
            return terms(sc[1][0]) + terms(sc[1][1])
        return [x]
    import re as _re
    pnames = {b.locals[i].get("name"): "arg%d" % i for i in range(1, b.arg_count + 1) if b.locals[i].get("name")}

    def nn(x):
        # a parameter copied into a multi-definition local keeps the parameter's source name: spell it as the parameter
        return _re.sub(r"var:(\w+)", lambda m: pnames.get(m.group(1), m.group(0)), x)
    ts = [nn(t) for t in terms(payload)]
    want = []
    for w in was:
        wa = nn(canon(b, w.args[1]))
        alts = {"len(%s)" % wa}
        if wa.endswith("@Some.0"):
            base = wa[:-len("@Some.0")]
            alts |= {"map_or(%s,0,fn:len)" % base, "map_or(%s,0,closure{})" % base}
        want.append((wa, alts))
    unmatched = list(ts)
    ok = True
    for wa, alts in want:
        hit = [t for t in unmatched if t in alts or any(t == a for a in alts)]
        if not hit:
            ok = False
            break
        unmatched.remove(hit[0])
    if not ok or unmatched:
        return False
    rep.ok(R, {"returned_length": payload, "form": "one sum with one term per write_all argument", "write_all_args": [wa for wa, _ in want]})
    rep.floor(R, "write_all calls accounted", len(want), 2)
    return True


def c16d(prog, rep):
    R = "C16.d"
    b = per_file_body(prog)
    if not rep.check(b is not None, R, "anchor:exec_format-closure", "per-file closure of exec_format not found"):
        return
    ups = [u["name"] for u in b.j.get("upvars", [])]
    ro = [c for c in b.calls() if c.callee in ("core::ops::function::Fn::call",) and c.t.get("resolved") is None]
    og = Origins(b)
    ro = [c for c in ro if any(x[0] == "upvar" and x[2] == "result_operation" for x in og.of_operand(c.args[0]))]
    if not rep.check(len(ro) == 1, R, "result_operation-call", "exec_format closure must call result_operation exactly once (found %d)" % len(ro)):
        return
    ro = ro[0]
    facts = dominating_variant_facts(prog, b, ro.bb)
    for nm in ("open(", "decode_file("):
        rep.check(any(nm in f[0] and f[1] == "is" and f[2] == ("Continue",) for f in facts), R, "effect-after-ok:" + nm.strip("("),
                  "result_operation (the only place a file can be written) is not guarded by a successful %s" % nm.strip("("), where=ro.where(),
                  instance={"guard": nm.strip("(") + " = Ok"})
    for c in b.calls_to("std::fs::OpenOptions::open") + b.calls_to(FF + "decode_file"):
        rep.check(question_propagated(b, c), R, "propagated:" + short(c.target), "result of %s is not `?`-propagated" % short(c.target), where=c.where())
    # the closure's value is the result of result_operation (error reaches for_each)
    o0 = og.of_place({"l": 0, "p": []})
    returned = any(x[0] == "call" and x[1] == ro.bb for x in o0)
    if not returned:
        # fused pipeline (`for_each_init`): the result is consumed in the same body — it must be what the error handler is called for
        for h in _handler_calls_under_err(prog, b):
            if h is ro:
                continue
            for f in dominating_variant_facts(prog, b, h.bb):
                if f[1] == "is" and f[2] == ("Err",):
                    pass
            # the tested value: any local whose origins include the operation's result and which is switched on before the handler call
            for bb in sorted(b.reachable()):
                t = b.blocks[bb]["term"]
                if t["k"] == "switch" and b.dominates(bb, h.bb):
                    for st in b.blocks[bb]["stmts"]:
                        if st["k"] == "assign" and st["rv"]["k"] == "discr":
                            if any(x[0] == "call" and x[1] == ro.bb for x in og.of_place(st["rv"]["place"])):
                                returned = True
    rep.check(returned, R, "closure-returns-operation-result",
              "the per-file closure does not return the result of result_operation (nor hand its error to the error handler itself)")
    # the decoded text is the content of *this* file only: the reused read buffer is emptied first
    c18c(prog, rep, R)
    # what the formatter sees is the decoded contents, what result_operation sees is the formatter's output
    fm = b.calls_to("pasfmt_core::formatter::Formatter::format")
    if rep.check(len(fm) == 1, R, "format-call", "exec_format closure must call Formatter::format once"):
        oi = origins(b).of_operand(fm[0].args[1])
        rep.check(any(x[0] == "call" and x[2] == FF + "decode_file" for x in oi), R, "format-input=decoded",
                  "Formatter::format is not fed the decoded file contents (origins %s)" % sorted(map(str, oi)))
        oo = set()
        ogx = origins(b)
        for x in ogx.of_operand(ro.args[1]):
            if x[0] == "agg":
                for op in b.blocks[x[1]]["stmts"][x[2]]["rv"]["ops"]:
                    oo |= ogx.of_operand(op)
            else:
                oo.add(x)
        rep.check(any(x[0] == "call" and x[1] == fm[0].bb for x in oo), R, "operation-gets-format-output",
                  "result_operation does not receive the output of Formatter::format")


def c16e(prog, rep):
    R = "C16.e"
    # check verdict: compares decoded input with formatter output, bails iff different
    cf = prog.body(FF + "check_formatting")
    if rep.check(cf is not None, R, "anchor:check_formatting", "check_formatting not found"):
        try:
            t = Table(prog, cf)
            good = True
            n_ok = n_err = 0
            for cons, res in t.rows:
                ne = [c for c in cons if c[0] == "cond" and "ne(" in c[1]]
                is_ok = res.kind == "agg" and res.a[1] == "Ok"
                if not ne:
                    good = False
                    continue
                differs = ne[0][2] != 0
                if is_ok:
                    n_ok += 1
                else:
                    n_err += 1
                if is_ok == differs:
                    good = False
            rep.check(good and n_ok >= 1 and n_err >= 1, R, "check_formatting:table", "check_formatting no longer returns Err exactly when input != output",
                      instance={"rows": len(t.rows), "ok_rows": n_ok, "err_rows": n_err})
        except TooComplex as e:
            rep.fail(R, "check_formatting:table", "check_formatting is no longer a loop-free classifier: %s" % e)
    for fn, inp_desc in (("check_files::{closure#0}", "param"), ("check_stdin::{closure#0}", "call")):
        b = prog.body(FF + fn)
        if not rep.check(b is not None, R, "anchor:" + fn, "%s not found" % fn):
            continue
        cs = b.calls_to(FF + "check_formatting")
        if not rep.check(len(cs) == 1, R, fn + ":calls-check_formatting", "%s must call check_formatting once" % fn):
            continue
        og = origins(b)
        a0 = og.of_operand(cs[0].args[0])
        a1 = og.of_operand(cs[0].args[1])
        if fn.startswith("check_files"):
            g0 = any(x[0] == "param" and x[1] == 4 and "contents" in x[2] for x in a0)
            g1 = all(x[0] == "param" and x[1] == 5 for x in a1) and bool(a1)
        else:
            g0 = any(x[0] == "call" and x[2] == FF + "decode_stdin" for x in a0)
            g1 = any(x[0] == "call" and x[2] == "pasfmt_core::formatter::Formatter::format" for x in a1)
            if not (g0 and g1):
                # the stdin counterpart of exec_format: the closure receives (decoded input, formatted text) from the driver it is handed to
                d0 = [callback_arg_origins(prog, b, x[1]) for x in a0 if x[0] == "param"]
                d1 = [callback_arg_origins(prog, b, x[1]) for x in a1 if x[0] == "param"]
                g0 = bool(d0) and all(o is not None and any(y[0] == "call" and y[2] == FF + "decode_stdin" for y in o) for o in d0)
                g1 = bool(d1) and all(o is not None and any(y[0] == "call" and y[2] == "pasfmt_core::formatter::Formatter::format" for y in o) for o in d1)
        rep.check(g0 and g1, R, fn + ":compares-input-with-output", "%s does not compare the decoded input with the formatter's output" % fn, where=cs[0].where(),
                  instance={"fn": fn, "compares": "decoded contents vs formatter output"})
    # error discipline in file_formatter.rs: no Result is dropped
    n = 0
    for k, b in prog.bodies.items():
        if b.file != FILE_FORMATTER_FILE:
            continue
        for c in b.calls():
            ty = c.t.get("dst_ty", "")
            if ty.startswith("core::result::Result<") or ty.startswith("std::result::Result<"):
                n += 1
                rep.check(result_consumed(b, c), R, "result-dropped:%s:%s" % (short(b.npath), short(c.target)),
                          "a Result returned by %s is silently dropped in %s" % (short(c.target), short(b.npath)), where=c.where(),
                          instance={"body": short(b.npath), "callee": short(c.target)}, )
    rep.floor(R, "Result-returning calls in file_formatter.rs", n, 30)
    # errors reach the handler: exec_format's for_each closure, the stdin paths, run()
    fe = prog.body(FF + "exec_format::{closure#1}")
    if fe is None:
        fe = per_file_body(prog)          # fused pipeline: the consumer is part of the per-file closure
    if rep.check(fe is not None, R, "anchor:for_each-closure", "for_each closure of exec_format not found"):
        hs = _handler_calls_under_err(prog, fe)
        hs = [c for c in hs if not any(x[0] == "upvar" and x[2] == "result_operation" for x in Origins(fe).of_operand(c.args[0]))]
        ok_h = len(hs) == 1
        if not ok_h:
            # `results.filter_map(Result::err).for_each(&error_handler)`: exactly the errors, each handed to the handler parameter itself
            efb = prog.body(FF + "exec_format")
            for c in (efb.calls() if efb is not None else []):
                if (c.callee or "").startswith("rayon::") and (c.callee or "").split("::")[-1] == "for_each" and len(c.args) == 2:
                    src, h = canon(efb, c.args[0]), canon(efb, c.args[1])
                    fm = [k for k in efb.calls() if (k.callee or "").startswith("rayon::") and (k.callee or "").split("::")[-1] == "filter_map" and canon(efb, c.args[0]).startswith("filter_map(")]
                    is_err = any(k.args[1]["k"] == "const" and norm(k.args[1].get("fn") or "") == "core::result::Result::err" for k in fm)
                    if re.match(r"^&?arg\d+$", h) and src.startswith("filter_map(") and is_err and len(fm) == 1:
                        ok_h = True
        rep.check(ok_h, R, "for_each:err->handler", "the per-file result is not handed to error_handler on Err")
    # exit code: handler stores true, main selects FAILURE on it; no process::exit after argument parsing
    main = prog.body("bin:pasfmt::main")
    if rep.check(main is not None, R, "anchor:main", "bin main not found"):
        h = prog.body("bin:pasfmt::main::{closure#0}")
        st = [c for c in (h.calls() if h else []) if (c.target or "").endswith("::store") and "atomic" in (c.target or "")]
        good = False
        for c in st:
            if c.args[1]["k"] == "const" and c.args[1].get("bool") is True:
                good = True
        rep.check(good, R, "handler-sets-flag", "main's error handler no longer stores `true` into the failure flag")
        # FAILURE constant selected under the flag
        fail_blocks = []
        for bb, i, s in main.stmts():
            if s["k"] == "assign" and s["dst"]["l"] == 0 and s["rv"]["k"] == "use" and s["rv"]["op"]["k"] == "const":
                fail_blocks.append((bb, s["rv"]["op"].get("text", "") or str(s["rv"]["op"])))
        rep.check(len(fail_blocks) == 2, R, "two-exit-codes", "main no longer selects between two constant exit codes (found %d)" % len(fail_blocks))
        fm = main.calls_to("pasfmt::format")
        rep.check(len(fm) == 1, R, "main-calls-format", "main does not call pasfmt::format exactly once")
    exits = [c for c in prog.who_calls("std::process::exit", "std::process::abort", "clap_builder::error::Error::exit")]
    allowed = "pasfmt_orchestrator::command_line::"
    for c in exits:
        rep.check("pasfmt_orchestrator::command_line::" in c.body.npath and "create" in c.body.npath, R, "exit:%s" % short(c.body.npath),
                  "process exit outside argument parsing: %s" % short(c.body.npath), where=c.where(), instance={"exit_site": short(c.body.npath)})


UTF8_VIEWS_OF_A_NAME = ("to_str", "to_string_lossy", "into_string", "to_string", "display")


def c16m(prog, rep, R="C16.m"):
    """C16.m — "every file the user names is formatted": which entries of a directory are source files is decided on the name as the
    operating system gives it (an OsStr: `extension()`, `eq_ignore_ascii_case`).  Nothing in the path expansion (expand_paths, its
    closures and helpers) looks at a name through a UTF-8 view (`to_str`, `to_string_lossy`, `into_string`, `display`): the fallible
    one answers None for a name that is not valid UTF-8 — a legacy Latin-1 name such as `Gr\xf6\xdfe.pas` silently stops being a source
    file — and the lossy one maps different names to one text."""
    from util import family_bodies
    root = prog.body(FF + "expand_paths")
    if not rep.check(root is not None, R, "anchor:expand_paths", "expand_paths not found"):
        return
    bad, n = [], 0
    for body, _a, _c in family_bodies(prog, root, depth=6):
        if not body.crate.startswith("pasfmt") or "::tests::" in body.npath:
            continue
        for c in body.calls():
            cal = c.callee or ""
            nm = cal.split("::")[-1]
            if cal.startswith("std::path::") or cal.startswith("std::ffi::os_str::"):
                n += 1
                if nm in UTF8_VIEWS_OF_A_NAME:
                    bad.append("%s: %s" % (short(body.npath), cal))
    rep.check(not bad, R, "names-are-judged-as-os-strings",
              "the path expansion looks at a file name through a UTF-8 view (%s): a name that is not valid UTF-8 is then not recognised as a source file (or two names become one), the file is "
              "silently left out of a directory walk, and check mode does not see it" % bad[:2], instance={"path_and_os_str_calls": n, "utf8_views": bad[:3]})
    rep.floor(R, "Path / OsStr operations in the path expansion", n, 3)


def c16f(prog, rep):
    """C16.f — both writers hand `write` the encoding and the BOM the file was decoded with; the only exception is stdout being a terminal
    (UTF-8, no BOM), selected by is_terminal() alone.  Read off the decision table of write_file / write_stdout with their helpers
    expanded (`write` itself kept as an atom): per path, the arguments of the one call of write."""
    R = "C16.f"
    for nm, dparam in (("write_file", 2), ("write_stdout", 1)):
        b = prog.body(FF + nm)
        if not rep.check(b is not None, R, "anchor:" + nm, "%s not found" % nm):
            continue
        try:
            tb = Table(prog, b, inline=1, opaque=("write",))
        except TooComplex as e:
            rep.fail(R, nm + ":table", "%s is not a loop-free decision any more: %s" % (nm, e))
            continue
        bad, n, terminal_rows = [], 0, 0
        for (cons, res), calls in zip(tb.rows, tb.calls):
            ws = [a2 for n2, a2 in calls if n2 == FF + "write"]
            if not ws:
                if render(res).startswith("Ok"):
                    bad.append("a successful path of %s does not call write" % nm)
                continue
            if len(ws) != 1:
                bad.append("%s calls write %d times on one path" % (nm, len(ws)))
                continue
            n += 1
            enc, bom, data = ws[0][1], ws[0][2], ws[0][3]
            term = [c for c in cons if c[0] == "cond" and str(c[1]).startswith("is_terminal(")]
            is_term = any(c[2] != 0 for c in term)
            other = [str(c[1])[:50] for c in cons if c[0] == "cond" and not str(c[1]).startswith("is_terminal(") and not str(c[1]).startswith("le(")]      # (`le(..)`: log-level tests)
            if nm == "write_stdout" and is_term and not other:
                terminal_rows += 1
                if not (enc == "static:encoding_rs::UTF_8" and bom == "None"):
                    bad.append("for a terminal write_stdout passes (%s, %s) instead of (UTF-8, no BOM)" % (enc[:40], bom[:30]))
            else:
                if other:
                    bad.append("%s chooses encoding / BOM by %s" % (nm, other[:2]))
                if not (enc == "arg%d.encoding" % dparam and bom == "arg%d.bom" % dparam):
                    bad.append("%s passes (%s, %s) to write instead of the decoded file's encoding and BOM" % (nm, enc[:40], bom[:30]))
            if data != "arg%d" % (dparam + 1):
                bad.append("%s does not write the formatted text it was given (%s)" % (nm, data[:40]))
        rep.check(not bad and n >= 1, R, nm + ":encoding+bom-from-decoded", "%s does not pass the decoded file's encoding and BOM to write: %s" % (nm, bad[:2] or "no call of write"),
                  where="%s:%d" % (b.file, b.line), instance={"fn": nm, "paths_with_write": n, "encoding": "decoded.encoding", "bom": "decoded.bom", "terminal_paths": terminal_rows})
        if nm == "write_stdout":
            rep.check(terminal_rows >= 1, R, "write_stdout:terminal-test", "write_stdout no longer has a path selected by is_terminal() on which UTF-8 without BOM is written")


# =========================================================================== C17

def check_c17(prog, rep, tier, cfg):
    c17a(prog, rep)
    c17b(prog, rep)
    c17c(prog, rep)
    c17d(prog, rep)
    c17g(prog, rep)
    c17h(prog, rep)
    # C17.e — "the bytes written equal BOM + encode(..)": what is left in the file is exactly what write_file produced — rewritten from
    # offset 0 and cut to the returned length on every success path, whatever the lengths of the old and new text (shared with C16.b)
    c16b(prog, rep, "C17.e")
    # C17.f — what is decoded is this file's bytes only: the per-worker buffer is empty on every path on which decode_file appends the
    # next file to it (a file rejected as malformed must not leave its bytes behind) — shared with C18.c
    c18c(prog, rep, "C17.f")


def c17a(prog, rep):
    R = "C17.a"
    b = prog.body(FF + "decode_file")
    if not rep.check(b is not None, R, "anchor:decode_file", "decode_file not found"):
        return
    fb = b.calls_to("encoding_rs::Encoding::for_bom")
    dc = [c for c in b.calls() if (c.callee or "").startswith("encoding_rs::Encoding::decode")]
    if not rep.check(len(fb) == 1 and len(dc) == 1, R, "calls", "decode_file must call Encoding::for_bom once and one Encoding::decode* function (found %d/%d)" % (len(fb), len(dc))):
        return
    rep.check(dc[0].callee == "encoding_rs::Encoding::decode_without_bom_handling", R, "decode-without-bom-handling",
              "decode_file decodes with %s instead of decode_without_bom_handling (BOM sniffing by the library would override the chosen encoding)" % dc[0].callee, where=dc[0].where())
    # decision table of decode_file: per path, what is decoded, with which encoding, and what is recorded
    from table import Table, TooComplex, render, split_call
    try:
        tb = Table(prog, b)
    except TooComplex as e:
        rep.fail(R, "decode-table", "decode_file is no longer a loop-free classifier: %s" % e)
        return

    def clean(x):
        return re.sub(r"\b(place|call):", "", x).replace(" ", "")
    BUFS = ("arg4", "deref(arg4)")
    seen = {"Some": 0, "None": 0}
    for (cons, res), calls in zip(tb.rows, tb.calls):
        arm = [c[2] for c in cons if c[0] == "is" and c[1].startswith("for_bom(")]
        r = clean(render(res)) if not isinstance(res, str) else clean(res)
        if not r.startswith("Ok("):
            continue
        sc = split_call(r)
        inner = split_call(sc[1][0]) if sc and len(sc[1]) == 1 else None
        if not rep.check(bool(arm) and inner is not None and inner[0] == "DecodedFile" and len(inner[1]) == 3, R, "ok-result-is-DecodedFile", "decode_file returns Ok(%s) on a path where the BOM was not looked at" % r[:80]):
            continue
        bom, contents, enc = inner[1]
        dec = [a for nm, a in calls if nm.startswith("encoding_rs::Encoding::decode")]
        good = len(dec) == 1
        if good:
            recv, data = clean(dec[0][0]), clean(dec[0][1])
            good &= contents == "%s(%s,%s).0" % (dc[0].callee.split("::")[-1], recv, data)           # what is recorded is what was decoded
            good &= enc == recv                                                                        # .. with the recorded encoding
            if arm[0] == "None":
                good &= bom == "None" and enc == "arg1.encoding" and data in ["index(arg4,RangeFull)", "as_slice(arg4)", "deref(arg4)", "index(deref(arg4),RangeFull)"]
            else:
                fb_ = [a for a in (c[1] for c in cons if c[0] == "is" and c[1].startswith("for_bom(") and c[2] == "Some")]
                L, E = fb_[0] + "@Some.0.1", fb_[0] + "@Some.0.0"
                pairs = [("Some(index(%s,RangeTo(%s)))" % (bf, L), "index(%s,RangeFrom(%s))" % (bf, L)) for bf in BUFS] + \
                        [("Some(split_at(%s,%s).0)" % (bf, L), "split_at(%s,%s).1" % (bf, L)) for bf in BUFS]
                good &= enc == E and (bom, data) in pairs
        seen[arm[0]] += 1 if good else 0
        rep.check(good, R, "decode-table:%s" % arm[0], "decode_file, BOM %s: does not record {BOM prefix, text decoded from the rest of the buffer with the encoding %s, that encoding}: bom=%s contents=%s encoding=%s"
                  % ("found" if arm[0] == "Some" else "absent", "the BOM announces" if arm[0] == "Some" else "configured", bom[:90], contents[:140], enc[:60]),
                  where="%s:%d" % (b.file, b.line), instance={"arm": arm[0], "bom": bom[:90], "contents": contents[:160], "encoding": enc[:80]})
    rep.check(seen["Some"] >= 1 and seen["None"] >= 1, R, "decode-table:both-arms", "decode_file has no successful path for %s" % [k for k, v in seen.items() if not v])
    rd = b.calls_to("std::io::Read::read_to_end")
    rep.check(len(rd) == 1 and question_propagated(b, rd[0]), R, "read-propagated", "read_to_end result is not `?`-propagated")


HAD_ERRORS = {
    # callee -> index of the had-errors bool in the returned tuple
    "encoding_rs::Encoding::decode_without_bom_handling": 1,
    "encoding_rs::Encoding::decode": 2,
    "encoding_rs::Encoding::decode_with_bom_removal": 1,
    "encoding_rs::Encoding::encode": 2,
}


def c17b(prog, rep):
    R = "C17.b"
    n = 0
    for k, b in prog.bodies.items():
        if not b.crate.startswith("pasfmt"):
            continue
        for c in b.calls():
            if c.callee not in HAD_ERRORS:
                continue
            n += 1
            idx = HAD_ERRORS[c.callee]
            dst = c.t["dst"]["l"]
            # find a switch whose discriminant is (copy of) dst.idx
            flagged = None
            for bb in sorted(b.reachable()):
                t = b.blocks[bb]["term"]
                if t["k"] != "switch" or t["discr"]["k"] not in ("copy", "move"):
                    continue
                from panic import source_place
                sp = source_place(b, t["discr"])
                if sp and sp["l"] == dst and [pe.get("idx") for pe in sp["p"] if pe["k"] == "field"] == [idx]:
                    flagged = (bb, t)
                else:
                    # destructured: `let (a, b) = call()` copies fields into locals
                    d = t["discr"]["place"]["l"]
                    for df in b.defs.get(d, []):
                        if df[0] == "assign" and df[3]["rv"]["k"] == "use" and df[3]["rv"]["op"]["k"] in ("copy", "move"):
                            pl = df[3]["rv"]["op"]["place"]
                            if pl["l"] == dst and [pe.get("idx") for pe in pl["p"] if pe["k"] == "field"] == [idx]:
                                flagged = (bb, t)
            if not rep.check(flagged is not None, R, "flag-tested:%s:%s" % (short(b.npath), c.callee.split("::")[-1]),
                             "the had-errors flag returned by %s is never tested in %s" % (c.callee, short(b.npath)), where=c.where()):
                continue
            bb, t = flagged
            true_tgt = t["otherwise"] if [v for v, _ in t["targets"]] == [0] else None
            oks = set(ok_return_blocks(b))
            reach = b.reach_from(true_tgt, include_start=True) if true_tgt is not None else set()
            rep.check(true_tgt is not None and not (reach & oks), R, "flag-true=>error:%s:%s" % (short(b.npath), c.callee.split("::")[-1]),
                      "when %s reports malformed / unencodable data, %s can still return Ok" % (c.callee, short(b.npath)), where=c.where(),
                      instance={"body": short(b.npath), "callee": c.callee, "flag_index": idx, "true_edge": "reaches no Ok return"})
    rep.floor(R, "encoding_rs calls with a had-errors flag", n, 2)


def c17c(prog, rep):
    R = "C17.c"
    # write(): on every successful path the buffers handed to the stream are [the BOM, iff one was given] followed by encode(encoding, data)
    # — read off the paths of write() with its single-use helpers spliced in (`write_bom(..)?`) and `encode` kept as an atom
    w = prog.inlined(FF + "write", keep=ORCH_KEEP) or prog.body(FF + "write")
    if rep.check(w is not None, R, "anchor:write", "write not found"):
        try:
            tw = Table(prog, w, inline=1, opaque=("encode",))
        except TooComplex as ex:
            tw = None
            rep.fail(R, "write:table", "write() is not loop-free any more: %s" % ex)
        if tw is not None:
            badw, okp = [], 0
            for (cons, res), calls in zip(tw.rows, tw.calls):
                if not render(res).startswith("Ok("):
                    continue
                okp += 1
                written = [re.sub(r"\b(place|call|sym):", "", a2[1]).replace(" ", "") for n2, a2 in calls if n2 == "std::io::Write::write_all"]
                has_bom = any(c[0] == "is" and str(c[1]) == "arg3" and c[2] == "Some" for c in cons)
                no_bom = any(c[0] == "is" and str(c[1]) == "arg3" and c[2] == "None" for c in cons)
                data = [x for x in written if "encode(arg2,arg4)" in x]
                boms = [x for x in written if x.startswith("arg3@Some.0")]
                if len(data) != 1 or written[-1:] != data:
                    badw.append("the encoded text is not written exactly once, last: %s" % written)
                elif has_bom and (len(boms) != 1 or written != boms + data):
                    badw.append("with a BOM the stream receives %s instead of [BOM, encoded text]" % written)
                elif not has_bom and (boms or len(written) != 1):
                    badw.append("without a BOM%s the stream receives %s" % ("" if no_bom else " (not tested)", written))
            rep.check(not badw and okp >= 2, R, "bom-and-data-writes", "write() must emit the BOM parameter (iff there is one, first) and the encoded data once each: %s" % (badw[:2] or "%d successful paths" % okp),
                      where="%s:%d" % (w.file, w.line), instance={"successful_paths": okp, "stream": "[bom?] ++ encode(encoding, data)"})
        en = [c for c in w.calls() if norm(c.t.get("resolved") or c.callee or "") == FF + "encode"]
        rep.check(len(en) == 1 and canon(w, en[0].args[0]) == "arg2" and canon(w, en[0].args[1]) == "arg4", R, "encode(encoding,data)",
                  "write() does not encode `data` with its `encoding` parameter")
    e = prog.body(FF + "encode")
    if not rep.check(e is not None, R, "anchor:encode", "encode not found"):
        return
    # The decision table of encode(encoding, data), with its helpers expanded (the hand-written encoder `encode_utf16(data, to_xx_bytes)` kept
    # as an atom): every path is decided by `encoding == UTF_16BE`, `encoding == UTF_16LE` and `encoding.output_encoding() == encoding`
    # (and by whether the library encoder reported an unmappable character), and
    #   UTF_16BE -> Ok(encode_utf16(data, u16::to_be_bytes))      UTF_16LE -> Ok(encode_utf16(data, u16::to_le_bytes))
    #   neither, output_encoding() == encoding -> what the library encoder of that encoding returns, Err if it had to replace something
    #   otherwise -> Err(Unsupported)
    # however the selection is written (an if / else-if chain, wrappers, a selector function returning the byte-order function).
    try:
        te = Table(prog, e, inline=2, opaque=("encode_utf16",))
    except TooComplex as ex:
        rep.fail(R, "encode:table", "encode() is not a loop-free decision over the encoding any more: %s" % ex)
        return
    bad = []
    seen = {"UTF_16BE": 0, "UTF_16LE": 0, "library": 0, "unsupported": 0}
    for cons, res in te.rows:
        r = render(res)
        conds = {}
        foreign = []
        for c in cons:
            if c[0] != "cond":
                foreign.append(str(c[1])[:60])
                continue
            key, val = str(c[1]), (c[2] != 0)
            m = re.match(r"^eq\((arg1,static:encoding_rs::(UTF_16[BL]E)|static:encoding_rs::(UTF_16[BL]E),arg1)\)$", key)
            if m:
                conds[m.group(2) or m.group(3)] = val
            elif key in ("eq(output_encoding(arg1),arg1)", "eq(arg1,output_encoding(arg1))"):
                conds["out"] = val
            elif re.match(r"^ne\(", key) and "output_encoding(arg1)" in key:
                conds["out"] = not val
            elif key.startswith("encode(arg1,arg2)"):
                conds["replaced"] = val
            else:
                foreign.append(key[:60])
        if foreign:
            bad.append("a path of encode() is decided by %s" % foreign[:2])
            continue
        if conds.get("UTF_16BE"):
            seen["UTF_16BE"] += 1
            if r != "Ok(Owned(call:encode_utf16(arg2,fn:core::num::to_be_bytes)))":
                bad.append("for UTF-16BE encode() returns %s" % r[:80])
        elif conds.get("UTF_16LE"):
            seen["UTF_16LE"] += 1
            if r != "Ok(Owned(call:encode_utf16(arg2,fn:core::num::to_le_bytes)))":
                bad.append("for UTF-16LE encode() returns %s" % r[:80])
        elif r.startswith("Ok("):
            seen["library"] += 1
            if not (conds.get("out") is True and conds.get("replaced") is False and r == "Ok(place:encode(arg1,arg2).0)"):      # (`output_encoding() == encoding` never holds for UTF-16: encoding_rs' documented contract)
                bad.append("encode() returns %s under %s — Ok bytes that are not the output of the encoder of the file's encoding (e.g. the text's UTF-8 bytes handed out unchanged)" % (r[:60], conds))
        else:
            if "Unsupported" in r:
                seen["unsupported"] += 1
                if conds.get("out") is not False:
                    bad.append("Err(Unsupported) is returned although the library can encode")
            elif not (conds.get("replaced") is True and "InvalidData" in r):
                bad.append("encode() fails with %s under %s" % (r[:60], conds))
    complete = all(v >= 1 for v in seen.values())
    rep.check(not bad and complete, R, "encode:decision-table",
              "encode() deviates from `UTF-16BE / UTF-16LE -> the hand-written encoder with that byte order; an encoding the library can encode -> the library's encoder, Err on a replacement; "
              "anything else -> Err(Unsupported)`: %s%s" % (bad[:3], "" if complete else "; arms seen: %s" % seen), where="%s:%d" % (e.file, e.line),
              instance={"paths": len(te.rows), "arms": seen, "ok_payload_origins": ["encode_utf16(to_be_bytes)", "encode_utf16(to_le_bytes)", "Encoding::encode"]})


LOSSY_OR_CUTTING = ("convert_utf8_to_utf16", "convert_utf8_to_utf16_without_replacement", "from_utf8_lossy", "convert_str_to_utf16", "chunks", "chunks_exact", "rchunks", "windows",
                    "split_at", "split_at_checked", "split_off", "truncate", "get", "get_unchecked")


def c17g(prog, rep):
    """C17.g — the hand-written UTF-16 encoder is total and exact: its code units are those of `str::encode_utf16()` over the whole
    text (the standard library's lossless iterator), each turned into two bytes by the byte-order function, and nothing in the
    encoder cuts the text's UTF-8 bytes at positions of its own or converts them with a replacing routine (a character that
    straddles such a cut is written as U+FFFD without any error)."""
    R = "C17.g"
    b = prog.body(FF + "encode_utf16")
    if not rep.check(b is not None, R, "anchor:encode_utf16", "encode_utf16 not found"):
        return
    fam = [b] + [x for x in prog.bodies.values() if x.npath.startswith(b.npath + "::")]
    src = [c for x in fam for c in x.calls() if (c.callee or "") == "core::str::encode_utf16"]
    whole = [c for c in src if canon(c.body, c.args[0]) in ("arg1", "deref(arg1)")]
    rep.check(len(whole) >= 1, R, "code-units-from-str::encode_utf16", "encode_utf16 no longer takes its code units from `data.encode_utf16()` over the whole text (found %s)"
              % [canon(c.body, c.args[0])[:40] for c in src], where="%s:%d" % (b.file, b.line), instance={"sources": len(src)})
    bad = []
    for x in fam:
        for c in x.calls():
            nm = (c.callee or "").split("::")[-1]
            if nm in LOSSY_OR_CUTTING and not (c.callee or "").startswith("alloc::vec::Vec"):
                bad.append("%s" % (c.callee or "?"))
    rep.check(not bad, R, "no-cutting-or-replacing-conversion", "the UTF-16 encoder cuts the text at byte positions of its own or converts it with a replacing routine (%s): a character that straddles a "
              "cut is written as U+FFFD and the file is rewritten without any error" % sorted(set(bad))[:3], where="%s:%d" % (b.file, b.line), instance={"calls": sorted(set(bad))[:5]})
    ext = [c for x in fam for c in x.calls() if (c.callee or "").split("::")[-1] in ("extend", "flat_map", "push", "extend_from_slice")]
    rep.floor(R, "building operations of the UTF-16 encoder", len(ext), 1)


TEXT_TO_BYTES = ("as_bytes", "into_bytes", "bytes", "as_bytes_mut", "into_boxed_bytes", "to_vec", "to_owned", "as_ptr")


def c17h(prog, rep):
    """C17.h — text reaches an output only through the encoder.  Every buffer handed to a byte sink (`Write::write_all` / `write`) in the
    orchestrator is the Ok payload of `FileFormatter::encode`, or a byte buffer the function was given (the BOM that was read) — on no
    path the bytes of a text (`str::as_bytes`, `String::into_bytes` ..): those are the text's UTF-8 bytes, which for a UTF-16 or
    code-page file (or a file with a BOM) is not the encoding it was read in.  A byte-buffer parameter is followed one level up: what
    the callers pass is a `bom` they hold or `None`."""
    R = "C17.h"
    sinks = []
    for k, b in prog.bodies.items():
        if not b.crate.startswith("pasfmt_orchestrator") or "::tests::" in b.npath or "::test" in b.npath.split("FileFormatter")[0]:
            continue
        if b.npath.startswith(FF + "encode"):
            continue
        for c in b.calls():
            if c.callee in ("std::io::Write::write_all", "std::io::Write::write") and len(c.args) >= 2:
                sinks.append(c)
    n_ok = 0
    for c in sinks:
        b = c.body
        txt = canon(b, c.args[1])
        conv = [t for t in TEXT_TO_BYTES if re.search(r"(^|[^\w])%s\(" % t, txt)]
        from_encode = "encode(" in txt and not conv
        m = re.match(r"^(?:deref\()*arg(\d+)", txt)
        from_param = False
        if m and not conv and not from_encode:
            ty = b.locals[int(m.group(1))]["ty"]
            from_param = "[u8]" in ty and "str" not in ty
        ok = from_encode or from_param
        if ok:
            n_ok += 1
        rep.check(ok, R, "sink:%s:%s" % (short(b.npath), txt[:60]),
                  "%s hands %s to an output stream: bytes that are not the result of encode() with the file's encoding (the UTF-8 bytes of a text are written as they are: no BOM, "
                  "not the encoding the input was read in)" % (short(b.npath), txt[:80]), where=c.where(),
                  instance={"body": short(b.npath), "buffer": txt[:80], "origin": "encode()" if from_encode else "byte-buffer parameter" if from_param else "?"})
        if from_param:
            # one level up: what is passed for that parameter
            idx = int(m.group(1)) - 1
            for cc in prog.who_calls(b.npath):
                if not cc.body.crate.startswith("pasfmt_orchestrator") or idx >= len(cc.args):
                    continue
                t2 = canon(cc.body, cc.args[idx])
                good = not [t for t in TEXT_TO_BYTES if re.search(r"(^|[^\w])%s\(" % t, t2)]
                rep.check(good, R, "bom-argument:%s:%s" % (short(cc.body.npath), t2[:50]),
                          "%s passes %s as the byte-order mark to write: the bytes of a text" % (short(cc.body.npath), t2[:60]), where=cc.where(),
                          instance={"caller": short(cc.body.npath), "passes": t2[:60]})
    rep.floor(R, "byte sinks fed by encode() or a given byte buffer", n_ok, 2)


def c17d(prog, rep):
    R = "C17.d"
    fm = prog.body("pasfmt::format")
    if not rep.check(fm is not None, R, "anchor:pasfmt::format", "pasfmt::format not found"):
        return
    nw = fm.calls_to(FF + "new")
    if rep.check(len(nw) == 1, R, "FileFormatter::new-call", "pasfmt::format must construct exactly one FileFormatter"):
        o = Origins(fm).of_operand(nw[0].args[1])
        rep.check(any(x[0] == "call" and "get_config_object" in x[2] for x in o) or any(x[0] == "call" and x[2].endswith("::into") for x in o), R,
                  "encoding-from-config", "the FileFormatter's encoding does not come from the configuration object: %s" % sorted(map(str, o)))
    # FileFormatter.encoding is read only in decode_file
    acc = prog.field_accesses("pasfmt_orchestrator::file_formatter::FileFormatter", "encoding")
    readers = sorted({a[0].npath for a in acc if a[3] in ("read", "ref")})
    rep.check(readers == [FF + "decode_file"], R, "who-reads:FileFormatter.encoding", "FileFormatter.encoding is read outside decode_file: %s" % [short(x) for x in readers],
              instance={"readers": [short(x) for x in readers]})
    conv = [b for b in prog.find(r"<&encoding_rs::Encoding as core::convert::From<pasfmt::InternalEncoding>>::from$|impl.*From<pasfmt::InternalEncoding>")]
    cands = [b for k, b in prog.bodies.items() if "InternalEncoding" in k and k.endswith("::from") and b.crate == "pasfmt.lib"]
    if rep.check(len(cands) >= 1, R, "anchor:InternalEncoding->Encoding", "conversion InternalEncoding -> &Encoding not found"):
        b = cands[0]
        o = Origins(b).of_place({"l": 0, "p": []})
        named = any(x[0] == "param" for x in o)
        native = any(x[0] == "const" and x[1] == "static" and norm(x[2]) == "encoding_rs::UTF_8" for x in o)
        rep.check(named and native and len(o) == 2, R, "InternalEncoding-mapping", "InternalEncoding no longer maps Named(e) to e and Native to UTF-8 (non-Windows): %s" % sorted(map(str, o)),
                  instance={"Named": "payload", "Native": "encoding_rs::UTF_8"})


# =========================================================================== C18

PIPELINE_TYPES_MIN = 10


def check_c18(prog, rep, tier, cfg):
    # C18.i — the block a worker prints for its file reaches stdout in one piece (shared with C16.i)
    from engine import AliasReport as _AR
    c16i(prog, _AR(rep, [("C16.i", r"stdout-only-locked", "C18.i")]))
    c18a(prog, rep)
    c18b(prog, rep)
    c18c(prog, rep)
    c18d(prog, rep)
    c18e(prog, rep)
    c18f(prog, rep)
    c18j(prog, rep)
    c18k(prog, rep)
    c18l(prog, rep)
    # C18.m — a file named in a --files-from list is the file that is formatted: a line of the list is taken as written (shared with C16.l)
    from engine import AliasReport as _AR18
    c16l(prog, _AR18(rep, [("C16.l", r".", "C18.m")]))
    # C18.g — "the exit status is non-zero if and only if at least one file failed": every Err reaches the handler, the handler sets a
    # flag (not a count that can wrap), main selects between two constant exit codes — shared with C16.e
    from engine import AliasReport
    c16e(prog, AliasReport(rep, [("C16.e", r"handler-sets-flag|two-exit-codes|main-calls-format|for_each:err->handler|^anchor:main|^anchor:for_each|^exit:", "C18.g")]))


VEC_REMOVERS = ("retain", "retain_mut", "dedup", "dedup_by", "dedup_by_key", "remove", "swap_remove", "truncate", "drain", "pop", "clear", "split_off", "extract_if", "resize",
                "resize_with", "pop_if")
ITER_DROPPERS = ("filter", "filter_map", "skip", "skip_while", "take", "take_while", "step_by", "map_while", "dedup", "dedup_by", "dedup_by_key", "unique", "unique_by",
                 "find", "find_map", "nth", "last", "next", "next_back", "scan", "positions")
LIST_BUILDERS = ("push", "extend", "collect", "flat_map", "flatten", "chain", "append", "extend_from_slice")


def _retain_drops_only_same_file(prog, b, c):
    """`paths.retain(closure)` where the closure returns `true`, or what HashSet::insert(key) returned with key = the element's
    canonical path (std::fs / Path::canonicalize): the only entries dropped name a file that is already in the list.  (A key built
    in any other way — lower-cased, normalised textually — can identify two different files.)"""
    if len(c.args) < 2 or c.args[1]["k"] not in ("copy", "move"):
        return False
    clos = b.locals[c.args[1]["place"]["l"]].get("closure")
    cb = prog.body(norm(clos)) if clos else None
    if cb is None or cb.loops():
        return False
    ret = Origins(cb).of_place({"l": 0, "p": []})
    # `canonicalize(p).map_or(true, |c| seen.insert(c))`: true when there is no canonical path, else what the closure returns for it
    mo = [x for x in ret if x[0] == "call" and x[2] in ("core::result::Result::map_or", "core::option::Option::map_or", "core::result::Result::is_ok_and")]
    for x in mo:
        t = cb.blocks[x[1]]["term"]
        recv, dflt, fn = (t["args"] + [None, None])[:3] if x[2].endswith("map_or") else (t["args"][0], {"k": "const", "bool": False, "ty": "bool"}, t["args"][1])
        if x[2].endswith("map_or") and not (dflt["k"] == "const" and dflt.get("bool") is True):
            return False
        if x[2].endswith("is_ok_and"):
            return False                     # a path without a canonical form would be dropped
        ro = Origins(cb, extra_identity={"core::result::Result::as_ref", "core::option::Option::as_ref"}).of_operand(recv)
        if not ro or not all(y[0] == "call" and y[2] in ("std::path::Path::canonicalize", "std::fs::canonicalize") for y in ro):
            return False
        c2 = prog.body(norm(cb.locals[fn["place"]["l"]].get("closure") or "")) if fn["k"] in ("copy", "move") else None
        if c2 is None or c2.loops():
            return False
        r2 = Origins(c2).of_place({"l": 0, "p": []})
        if not r2 or not all(y[0] == "call" and y[2].endswith("HashSet::insert") for y in r2):
            return False
        for y in r2:
            ka = c2.blocks[y[1]]["term"]["args"][1]
            if not all(z[0] == "param" for z in Origins(c2).of_operand(ka)):
                return False
    ins = [x for x in ret if x[0] == "call" and x[2].endswith("HashSet::insert")]
    rest = [x for x in ret if x not in ins and x not in mo]
    if not (ins or mo) or not all(x[0] == "const" and x[1] == "bool" and x[2] is True for x in rest):
        return False
    fam = [cb] + [y for y in prog.bodies.values() if y.npath.startswith(cb.npath + "::")]

    def key_is_canonical(body, op, depth=0):
        o = Origins(body, extra_identity={"core::result::Result::as_ref", "core::option::Option::as_ref"}).of_operand(op)
        if not o:
            return False
        for x in o:
            if x[0] == "call" and x[2] in ("std::path::Path::canonicalize", "std::fs::canonicalize"):
                continue
            if x[0] == "call" and x[2] in ("core::result::Result::map", "core::result::Result::and_then", "core::option::Option::map", "core::option::Option::and_then") and depth < 2:
                t = body.blocks[x[1]]["term"]
                a = t["args"][1]
                cl2 = body.locals[a["place"]["l"]].get("closure") if a["k"] in ("copy", "move") else None
                c2 = prog.body(norm(cl2)) if cl2 else None
                if c2 is not None and all(y[0] == "call" and y[2] in ("std::path::Path::canonicalize", "std::fs::canonicalize") for y in Origins(c2).of_place({"l": 0, "p": []})):
                    continue
                return False
            return False
        return True
    for x in ins:
        t = cb.blocks[x[1]]["term"]
        if not key_is_canonical(cb, t["args"][1]):
            return False
    return True


MAIN_THREAD_STACK = 8 * 1024 * 1024      # what a main thread gets on the usual platforms (Linux / macOS default; Windows: 1 MiB)


def c18k(prog, rep):
    """C18.k — "every file gets exactly the result it gets when formatted alone": a single file is formatted on the calling thread, a
    batch on the threads of rayon's pool, and the depth the recursive parser / wrapper can reach is bounded by the stack of the
    thread it runs on (known findings C04.d).  Every call that enters the parallel batch is dominated, in the orchestrator's entry
    point, by the set-up of the global pool with an explicit stack size of at least a main thread's: otherwise a nested file that
    formats alone overflows the 2 MiB default stack of a worker — and aborts the run for every file — as soon as a second file is
    named.  Decided: the structural part (the pool is configured before the batch, with a constant >= 8 MiB); not the platform's
    actual main-thread stack."""
    R = "C18.k"
    run = prog.body("pasfmt_orchestrator::formatting_orchestrator::FormattingOrchestrator::run")
    if not rep.check(run is not None, R, "anchor:FormattingOrchestrator::run", "FormattingOrchestrator::run not found"):
        return
    # which FileFormatter entry points reach a parallel iteration
    par = set()
    for b in prog.bodies.values():
        if b.crate.startswith("pasfmt") and any((c.callee or "").startswith("rayon::") or norm(c.t.get("resolved") or "").startswith("rayon::") for c in b.calls()):
            par.add(b.npath.split("::{closure")[0])
    changed = True
    while changed:
        changed = False
        for b in prog.bodies.values():
            root = b.npath.split("::{closure")[0]
            if root in par or not b.crate.startswith("pasfmt"):
                continue
            if any(t in par for c in b.calls() for t in prog.callees_of_site(c)):
                par.add(root)
                changed = True
    batch_calls = [c for c in run.calls() if any(t in par for t in prog.callees_of_site(c))]
    if not rep.check(bool(batch_calls), R, "anchor:batch-calls", "FormattingOrchestrator::run no longer calls a function that reaches a parallel iteration"):
        return
    def sets_up_pool(b2, depth=0):
        """call sites of b2 behind which the global pool is configured with a big enough stack: the build_global call itself, or a call of a
        workspace function that performs one on every path to its return"""
        out = []
        for c in b2.calls():
            if (c.callee or "").endswith("ThreadPoolBuilder::build_global"):
                m = re.search(r"stack_size\(.*?,(\d+)\)", canon(b2, c.args[0]))
                if m and int(m.group(1)) >= MAIN_THREAD_STACK:
                    out.append(c)
            elif depth < 2:
                cb = prog.body(c.resolved or c.callee or "")
                if cb is not None and cb.crate.startswith("pasfmt") and cb.npath != b2.npath:
                    inner = sets_up_pool(cb, depth + 1)
                    if inner and not cb.can_reach_avoiding(0, set(cb.return_blocks()), {x.bb for x in inner}):
                        out.append(c)
        return out
    setups = sets_up_pool(run)
    bad = [c for c in batch_calls if not any(run.dominates(s_.bb, c.bb) for s_ in setups)]
    rep.check(not bad, R, "pool-stack-set-before-the-batch",
              "the parallel batch is entered (%s) without the global pool having been set up with a stack of at least %d bytes: worker threads get the 2 MiB default, so a nested file that "
              "formats on its own (on the main thread) overflows the stack in a batch and aborts the run for all files" % (sorted({(c.callee or "").split("::")[-1] for c in bad}), MAIN_THREAD_STACK),
              where=bad[0].where() if bad else None, instance={"batch_entry_calls": len(batch_calls), "pool_setups_with_stack>=8MiB": len(setups)})


def c18l(prog, rep):
    """C18.l — "every file gets exactly the result it gets when formatted alone": the settings a file is formatted with are a function of
    the invocation (working directory, --config-file, -C options), never of which other files are named next to it.  The list of
    input paths (`paths`, `--files-from`) is read only to produce the list of files to process and to tell whether stdin is used; the
    code that finds and builds the configuration does not look at it.  (A configuration looked up near `the first named input` gives a
    file another configuration in a batch than alone.)"""
    R = "C18.l"
    from layout import inventory, readers
    PC = "pasfmt_orchestrator::command_line::PasFmtConfiguration"
    IMP = "<pasfmt_orchestrator::command_line::PasFmtConfiguration as pasfmt_orchestrator::formatting_orchestrator::FormatterConfiguration>::"
    reviewed = [IMP + "get_paths", IMP + "is_stdin"]
    n = 0
    for f in ("paths", "files_from"):
        rd = sorted({a[0].npath for a in prog.field_accesses(PC, f) if a[3] in ("read", "ref", "refmut") and "core::fmt::Debug" not in a[0].npath and "clap_builder::derive::" not in a[0].npath})
        n += len(rd)
        inventory(rep, R, "readers of the input path list (PasFmtConfiguration.%s)" % f, rd, reviewed,
                  "the path list decides which files are processed, nothing else: a configuration (or any other per-run value) derived from it differs between a batch and a single file")
    rep.floor(R, "readers of the input path list", n, 3)


FILE_OPENERS = ("std::fs::OpenOptions::open", "std::fs::File::open", "std::fs::File::create", "std::fs::File::create_new", "std::fs::File::open_buffered")


def c18j(prog, rep):
    """C18.j — "formatting many files in one invocation gives every file exactly the result it gets alone, for any number of files": a
    file is open only while it is being processed.  Every place of the orchestrator that opens a file lies in the per-file body of
    the batch (the closure handed to the parallel map, its closures, private helpers called only from it), so a worker holds one
    handle at a time.  A pass that opens the files before the batch starts (to sort them by size, to fail early ..) holds one
    descriptor per file for the whole run: beyond the process' limit every further file fails with `Too many open files` although it
    formats fine alone, and the exit status reports a failure no file has."""
    R = "C18.j"
    root = FF + "exec_format::{closure#0}"
    if not rep.check(prog.body(root) is not None, R, "anchor:per-file-body", "the per-file closure of exec_format not found"):
        return
    opens = []
    for b in prog.bodies.values():
        if not b.crate.startswith("pasfmt_orchestrator") or "::tests::" in b.npath or "::test_" in b.npath:
            continue
        opens += [c for c in b.calls() if (c.callee or "") in FILE_OPENERS or norm(c.t.get("resolved") or "") in FILE_OPENERS]
    def inside(npath, depth=0):
        """the body is the per-file closure, nested in it, or (a closure of) a private function all of whose call sites are inside"""
        if npath == root or npath.startswith(root + "::"):
            return True
        fn = npath.split("::{closure")[0]
        if fn == FF + "exec_format" or depth > 3:
            return False
        sites = [c for c in prog.who_calls(fn) if c.body.crate.startswith("pasfmt")]
        return bool(sites) and all(inside(c.body.npath, depth + 1) for c in sites)
    outside = [c for c in opens if not inside(c.body.npath)]
    rep.check(not outside, R, "files-opened-only-in-the-per-file-body",
              "a file is opened outside the per-file body of the batch (%s): such handles are held for all files at once, so a batch larger than the descriptor limit fails for files that format "
              "fine alone" % sorted({short(c.body.npath) for c in outside}), where=outside[0].where() if outside else None,
              instance={"open_sites": len(opens), "outside": sorted({short(c.body.npath) for c in outside})})
    rep.floor(R, "file-opening call sites in the orchestrator", len(opens), 1)


def c18f(prog, rep):
    """C18.f — every file named on the command line is in the batch: a file that is formatted when given alone must not disappear when
    given together with others.  (1) No vector of paths in the orchestrator is ever shortened (retain / dedup / remove / truncate /
    drain / pop / clear ..): the list handed to the parallel pipeline only grows.  (2) In expand_paths and its closures the only
    iterator adaptor that can drop an element is the reviewed directory-walk filter, whose closure keeps an entry iff
    formattable_file_path(entry) (or it is an error)."""
    R = "C18.f"
    n = 0
    bad = []
    dedup = []
    for b in prog.bodies.values():
        if b.crate != "pasfmt_orchestrator" and not b.npath.startswith("pasfmt_orchestrator"):
            continue
        for c in b.calls():
            cal = c.callee or ""
            cargs = " ".join(str(x) for x in c.t.get("callee_args", []))
            if cal.startswith("alloc::vec::Vec") and "PathBuf" in cargs:
                n += 1
                if cal.split("::")[-1] in VEC_REMOVERS:
                    if cal.split("::")[-1] == "retain" and _retain_drops_only_same_file(prog, b, c):
                        dedup.append("%s:%s" % (short(b.npath), c.line))
                        continue
                    bad.append("%s:%s %s on a vector of paths" % (short(b.npath), c.line, cal.split("::")[-1]))
    rep.check(not bad, R, "path-lists-only-grow", "a list of files to format is shortened: a file that is formatted when given alone can be left out of a batch (e.g. two paths that a "
              "normalisation considers equal): %s" % bad[:3], instance={"vec_of_paths_operations": n, "violating": bad[:5], "same_file_dedup": dedup})
    # .. and no file is handed to two workers: files are rewritten in place (seek / write / set_len on a handle opened read+write),
    # so two workers on one file can read a half-written version and write it back.  The expansion therefore ends with a
    # de-duplication by file identity (canonical path).
    rep.check(bool(dedup), R, "same-file-handed-to-one-worker", "expand_paths does not de-duplicate the files it hands to the parallel pipeline by canonical path: `pasfmt src src/unit1.pas` gives the same "
              "file to two workers that rewrite it in place concurrently (observed: a 30 MB file loses bytes in 2 of 10 runs, exit status 0)", instance={"dedup_sites": dedup})
    import layout as _layout
    # the expansion code: expand_paths, its closures, and private helpers called only from there (extracted arms)
    fam_roots = {FF + "expand_paths"}
    cand = {norm(c.t.get("resolved") or c.callee or "") for b in prog.bodies.values() if b.npath.startswith(FF + "expand_paths") for c in b.calls()}
    cand = {x for x in cand if x.startswith("pasfmt_orchestrator::") and x != "pasfmt_orchestrator::file_formatter::formattable_file_path"}
    fam_roots |= set(_layout.helper_closure(prog, sorted(cand), [FF + "expand_paths"]))
    ex = [b for b in prog.bodies.values() if any(b.npath == r or b.npath.startswith(r + "::") for r in fam_roots)]
    if not rep.check(bool(ex), R, "anchor:expand_paths", "expand_paths not found"):
        return
    builders = sum(1 for b in ex for c in b.calls() if (c.callee or "").split("::")[-1] in LIST_BUILDERS)
    rep.floor(R, "list-building operations in the path expansion (push / extend / collect / flat_map)", builders, 3)
    drops = []
    for b in ex:
        for c in b.calls():
            cal = c.callee or ""
            if cal.startswith(("core::iter::", "itertools::", "rayon::iter::")) and cal.split("::")[-1] in ITER_DROPPERS:
                if cal.split("::")[-1] == "next" and c.bb in b.loops():
                    continue                # the `next()` that drives a `for` loop visits every element
                drops.append((b, c))
    m = 0
    for b, c in drops:
        nm = c.callee.split("::")[-1]
        ok = False
        if nm in ("filter_map", "filter") and len(c.args) >= 2 and c.args[1]["k"] in ("copy", "move"):
            clos = b.locals[c.args[1]["place"]["l"]].get("closure")
            cb = prog.body(norm(clos)) if clos else None
            if cb is not None:
                # decision table of the closure: an entry is dropped (None) only because it is not a formattable file — its name has no
                # recognised extension, or it is a directory (a directory can be named like a source file); errors are passed on
                from table import Table, TooComplex, render
                try:
                    tb = Table(prog, cb, inline=1, opaque=("formattable_file_path", "is_dir", "is_file", "path", "file_type"))
                except TooComplex:
                    tb = None
                ok = tb is not None and len(tb.rows) >= 3
                for cons, res in (tb.rows if tb else []):
                    r = render(res)
                    cd = {str(x[1]): x[2] for x in cons if x[0] == "cond"}
                    fmt = [v for k2, v in cd.items() if k2.startswith("formattable_file_path(")]
                    isdir = [(k2.startswith("!"), v) for k2, v in cd.items() if re.match(r"^!?is_dir\(", k2)]
                    a_dir = bool(isdir) and ((isdir[0][1] != 0) != isdir[0][0])
                    dropped = r == "None" if nm == "filter_map" else r == "False"
                    kept = r.startswith("Some(") if nm == "filter_map" else r == "True"
                    if nm == "filter" and re.match(r"^(sym:)?(!is_dir|is_file)\(", r):
                        # the verdict IS the test: kept iff the entry is not a directory (both outcomes are acceptable ones)
                        ok &= bool(fmt) and fmt[0] != 0 and any(x[0] == "is" and x[2] == "Ok" for x in cons)
                        rep.check(True, "C18.h", "walked-entries-are-files:%s" % short(b.npath), "", instance={"row": ["kept iff " + r[:40]]})
                        continue
                    if dropped:
                        ok &= (bool(fmt) and fmt[0] == 0) or a_dir
                    elif kept and any(x[0] == "is" and x[2] == "Err" for x in cons):
                        pass                        # a walk error is passed on
                    elif kept and any(x[0] == "is" and x[2] == "Ok" for x in cons):
                        ok &= bool(fmt) and fmt[0] != 0
                        # C18.h — what the walk hands to the workers is a file: a directory whose NAME has a recognised extension is not a
                        # failing file (the exit status is non-zero iff a FILE failed)
                        isfile = [(k2.startswith("!"), v) for k2, v in cd.items() if re.match(r"^!?is_file\(", k2)]
                        a_file = (bool(isdir) and not a_dir) or (bool(isfile) and ((isfile[0][1] != 0) != isfile[0][0]))
                        rep.check(a_file, "C18.h", "walked-entries-are-files:%s" % short(b.npath),
                                  "the directory walk of expand_paths hands every entry with a recognised extension to the workers without asking whether it is a directory: a directory "
                                  "named `x.pas` is opened as a file, fails (`Is a directory`) and makes the exit status non-zero although no file failed", where=c.where(),
                                  instance={"row": [str(x[1])[:60] for x in cons if x[0] == "cond"]})
                    else:
                        ok = False
        m += 1 if ok else 0
        rep.check(ok, R, "dropping-adaptor:%s:%s" % (short(b.npath), nm), "expand_paths can drop an entry through `%s` for a reason other than `not a formattable file`" % nm, where=c.where(),
                  instance={"adaptor": nm, "reason": "formattable_file_path(entry) == false, or the entry is a directory"})
    # the same filter written as a loop: `for entry in WalkDir::new(dir) { if keep(entry) { paths.push(..) } }` — one iteration as a table
    from table import Table, TooComplex, render
    for b in ex:
        loops = b.loops()
        for h in sorted(loops):
            nx = [c for c in b.calls() if c.bb == h and (c.callee or "").endswith("Iterator::next") and "walkdir" in (c.t.get("resolved") or "")]
            if not nx:
                continue
            try:
                tb = Table(prog, b, start=h, stop=set(loops), inline=1, opaque=("formattable_file_path", "is_dir", "is_file", "path", "file_type", "into_path"), max_paths=4000)
            except TooComplex:
                rep.fail(R, "dropping-loop:%s" % short(b.npath), "the directory-walk loop of expand_paths can no longer be enumerated path by path", where=nx[0].where())
                continue
            ok, rows = True, 0
            for (cons, res), calls, end in zip(tb.rows, tb.calls, tb.ends):
                if end is None:
                    continue                     # the loop is left (iterator exhausted)
                rows += 1
                pushed = [a2 for n2, a2 in calls if n2.split("::")[-1] in ("push", "extend")]
                cd = {str(x[1]): x[2] for x in cons if x[0] == "cond"}
                fmt = [v for k2, v in cd.items() if "formattable_file_path(" in k2]
                isdir = [(k2.startswith("!"), v) for k2, v in cd.items() if re.match(r"^!?is_dir\(", k2)]
                isfile = [(k2.startswith("!"), v) for k2, v in cd.items() if re.match(r"^!?is_file\(", k2)]
                a_dir = bool(isdir) and ((isdir[0][1] != 0) != isdir[0][0])
                is_err = any(x[0] == "is" and x[2] == "Err" for x in cons)
                if not pushed:
                    ok &= (not is_err) and ((bool(fmt) and fmt[0] == 0) or a_dir)
                elif is_err:
                    pass                          # a walk error is passed on
                else:
                    ok &= bool(fmt) and fmt[0] != 0
                    a_file = (bool(isdir) and not a_dir) or (bool(isfile) and ((isfile[0][1] != 0) != isfile[0][0]))
                    rep.check(a_file, "C18.h", "walked-entries-are-files:%s" % short(b.npath),
                              "the directory walk of expand_paths hands every entry with a recognised extension to the workers without asking whether it is a directory", where=nx[0].where(),
                              instance={"row": [str(x[1])[:60] for x in cons if x[0] == "cond"]})
            ok &= rows >= 3
            m += 1 if ok else 0
            rep.check(ok, R, "dropping-loop:%s" % short(b.npath), "the directory-walk loop of expand_paths can leave an entry out for a reason other than `not a formattable file`", where=nx[0].where(),
                      instance={"form": "for loop over the walk", "reason": "formattable_file_path(entry) == false, or the entry is a directory"})
    rep.floor(R, "reviewed dropping adaptors in expand_paths (the directory-walk filter)", m, 1)


ALLOWED_STATICS = {
    "pasfmt_core::defaults::lexer::find_identifier_end_x86_64::FN": "idempotent fn-pointer cache (CPU feature detection), see C18.e",
}


def c18a(prog, rep):
    R = "C18.a"
    n = 0
    for st in prog.statics:
        n += 1
        p = norm(st["path"])
        interior = bool(st["cells"]) or not st["freeze"] or st["mutable"] or st["thread_local"]
        if not interior:
            rep.ok(R, {"static": p, "ty": st["ty"], "interior_mutability": False}, nontrivial=False)
            continue
        if p in ALLOWED_STATICS:
            rep.ok(R, {"static": p, "ty": st["ty"], "reviewed": ALLOWED_STATICS[p]})
            continue
        if st["crate"] == "pasfmt_orchestrator.lib" and "DEFAULT_VALUE" in p and "OnceLock" in st["ty"]:
            rep.ok(R, {"static": p, "ty": st["ty"], "reviewed": "clap-derive argument default, initialised during argument parsing"})
            continue
        rep.fail(R, "static:" + p, "new process-wide mutable state: static %s: %s (a cross-file channel under any schedule)" % (p, st["ty"]),
                 where="%s:%d" % (st["loc"]["file"], st["loc"]["line"]))
    rep.floor(R, "statics inventoried", n, 1)
    # unsafe inventory
    unsafe_ok = {"pasfmt_core::defaults::lexer::find_identifier_end_avx2", "pasfmt_core::defaults::lexer::find_identifier_end_avx2::range_mask",
                 "pasfmt_core::defaults::lexer::find_identifier_end_avx2::any_non_ascii", "pasfmt_core::defaults::lexer::find_identifier_end_x86_64",
                 "pasfmt_core::defaults::lexer::find_identifier_end_x86_64::detect"}
    nu = 0
    for k, b in prog.bodies.items():
        if b.j.get("has_unsafe_block") or b.j.get("unsafe_fn"):
            nu += 1
            base = k.split("::{closure")[0]
            rep.check(base in unsafe_ok, R, "unsafe:" + short(k), "unsafe code outside the reviewed lexer routines: %s" % short(k), where="%s:%d" % (b.file, b.line),
                      instance={"unsafe_body": short(k)})
    rep.floor(R, "unsafe bodies inventoried", nu, 3)


def pipeline_component_types(prog):
    """ADTs handed to the FormatterBuilder in pasfmt::make_formatter (generic args of the builder calls)."""
    mf = prog.body("pasfmt::make_formatter")
    out = []
    if mf is None:
        return None, out
    for c in mf.calls():
        cal = c.callee or ""
        if cal.startswith("pasfmt_core::formatter::Add") or cal.startswith("pasfmt_core::formatter::BuildFormatter"):
            args = c.t.get("callee_args", [])
            out.append((cal.split("::")[-1], [a for a in args[1:]] if len(args) > 1 else [], c))
    return mf, out


def c18b(prog, rep):
    R = "C18.b"
    mf, comps = pipeline_component_types(prog)
    if not rep.check(mf is not None and len(comps) >= PIPELINE_TYPES_MIN, R, "anchor:make_formatter", "make_formatter / builder calls not found (%d)" % len(comps)):
        return
    types = []
    for method, targs, c in comps:
        for t in targs:
            types.append((method, t))
    seen = set()
    for method, t in types:
        base = norm(t.split("<")[0]) if not t.startswith("{closure") else t
        adt = prog.local_adts.get(norm(t)) or prog.local_adts.get(base)
        key = (method, base)
        if key in seen:
            continue
        seen.add(key)
        if adt is None:
            rep.check("closure" in t, R, "component-type-known:%s" % t, "pipeline component type %s is not a local ADT (cannot check interior mutability)" % t)
            continue
        rep.check(not adt["cells"], R, "no-interior-mutability:%s" % short(base), "pipeline component %s contains interior mutability (%s): state can leak between files/threads"
                  % (short(base), adt["cells"]), where="%s:%d" % (adt["loc"]["file"], adt["loc"]["line"]), instance={"component": short(base), "registered_by": method, "cells": []})
    rep.floor(R, "pipeline component types checked", len(seen), 12)
    # shared types
    for nm in ("pasfmt_core::formatter::Formatter", "pasfmt_orchestrator::file_formatter::FileFormatter", "pasfmt_core::lang::ReconstructionSettings",
               "pasfmt_core::rules::optimising_line_formatter::OptimisingLineFormatterSettings", "pasfmt_core::rules::optimising_line_formatter::OptimisingLineFormatter",
               "pasfmt_core::defaults::reconstructor::DelphiLogicalLinesReconstructor"):
        adt = prog.local_adts.get(nm)
        if rep.check(adt is not None, R, "anchor:" + short(nm), "type %s not found" % nm):
            rep.check(not adt["cells"], R, "no-interior-mutability:%s" % short(nm), "%s contains interior mutability (%s)" % (short(nm), adt["cells"]),
                      instance={"type": short(nm), "cells": [], "dyn_traits": adt["dyn_traits"]})
    # every local implementor of the pipeline traits that is reachable through dyn is cell-free too
    dyn_traits = set()
    f = prog.local_adts.get("pasfmt_core::formatter::Formatter")
    if f:
        dyn_traits |= set(norm(x) for x in f["dyn_traits"])
    fk = prog.local_adts.get("pasfmt_core::lang::FormatterKind")
    if fk:
        dyn_traits |= set(norm(x) for x in fk["dyn_traits"])
    nimpl = 0
    for im in prog.impls:
        if im.get("trait") and norm(im["trait"]) in dyn_traits and im.get("self_adt"):
            adt = prog.local_adts.get(norm(im["self_adt"]))
            if adt is None:
                continue
            nimpl += 1
            rep.check(not adt["cells"], R, "impl-no-interior-mutability:%s" % short(norm(im["self_adt"])),
                      "%s implements a pipeline trait and contains interior mutability (%s)" % (short(norm(im["self_adt"])), adt["cells"]),
                      instance={"implementor": short(norm(im["self_adt"])), "trait": short(norm(im["trait"]))})
    rep.floor(R, "pipeline trait implementors checked", nimpl, 12)
    # the only RefCell-bearing types are created inside one format call
    cellful = sorted(k for k, a in prog.local_adts.items() if a["cells"] and a["crate"] == "pasfmt_core.lib")
    for k in cellful:
        # constructed (aggregate) only in bodies reachable from Formatter::format, never stored in a component
        makers = set()
        for bk, b in prog.bodies.items():
            for bb, i, s in b.stmts():
                if s["k"] == "assign" and s["rv"]["k"] == "aggregate" and norm(s["rv"].get("adt", "")) == k:
                    makers.add(bk)
        rep.ok(R, {"cell_bearing_type": short(k), "constructed_in": sorted(short(m) for m in makers)})
    rep.analysed["cell_bearing_core_types"] = [short(k) for k in cellful]
    fm = prog.body("pasfmt_core::formatter::Formatter::format")
    if rep.check(fm is not None, R, "anchor:Formatter::format", "Formatter::format not found"):
        rep.check(fm.locals[1]["ty"].startswith("&") and not fm.locals[1]["ty"].startswith("&mut"), R, "format-takes-&self",
                  "Formatter::format no longer takes &self (type %s)" % fm.locals[1]["ty"])


def c18c(prog, rep, R="C18.c"):
    b = per_file_body(prog)
    if not rep.check(b is not None, R, "anchor:exec_format-closure", "per-file closure not found"):
        return
    clears = b.calls_to("alloc::vec::Vec::clear")
    dec = b.calls_to(FF + "decode_file")
    if not rep.check(len(dec) == 1, R, "decode_file-call", "exec_format closure must call decode_file once"):
        return
    og = Origins(b)
    buf = og.of_operand(dec[0].args[3])
    good = False
    for c in clears:
        if og.of_operand(c.args[0]) == buf and b.dominates(c.bb, dec[0].bb) and (c.bb == 0 or bfs_path(b, 0, {dec[0].bb}, {c.bb}) is None):
            good = True
    rep.check(good and all(x[0] == "param" and x[1] == 2 for x in buf), R, "clear-dominates-read",
              "the per-worker input buffer is not cleared on every path before decode_file appends to it (stale bytes of the previous file would be decoded)",
              where=dec[0].where(), instance={"buffer": "map_init state (param 2)", "clear_sites": len(clears)})
    # nothing else writes to the buffer between clear and decode
    users = [c for c in b.calls() if c.bb not in (dec[0].bb,) and any(a["k"] in ("copy", "move") and og.of_operand(a) == buf for a in c.args)]
    rep.check(set(c.callee for c in users) <= {"alloc::vec::Vec::clear"}, R, "buffer-users",
              "the per-worker buffer is used by other calls in the per-file closure: %s" % sorted(c.callee for c in users))
    df = prog.body(FF + "decode_file")
    if df is not None:
        rd = df.calls_to("std::io::Read::read_to_end")
        rep.check(len(rd) == 1 and all(x[0] == "param" and x[1] == 4 for x in Origins(df).of_operand(rd[0].args[1])), R, "decode-appends-to-buffer",
                  "decode_file does not read_to_end into its buffer parameter")


def c18d(prog, rep):
    R = "C18.d"
    b = prog.body(FF + "exec_format::{closure#0}")        # (capture modes are a fact of the closure itself, not of what is spliced in)
    if b is None:
        rep.fail(R, "anchor", "per-file closure not found")
        return
    ups = b.j.get("upvars", [])
    rep.check(all(u["by_ref"] and not u["mutable"] for u in ups) and len(ups) >= 3, R, "captures-shared-only",
              "the parallel per-file closure captures something mutably or by value: %s" % [(u["name"], u["by_ref"], u["mutable"]) for u in ups],
              instance={"upvars": [u["name"] for u in ups]})
    ef = prog.body(FF + "exec_format")
    if ef is not None:
        pc = [c.callee for c in ef.calls() if (c.callee or "").startswith("rayon::")]
        # every file is visited and every result reaches the end of the pipeline: an entry into the pool, element-wise adapters and a consuming
        # for_each; nothing that can stop early or pick elements (try_*, find_*, any / all, take / skip, while_some, panic_fuse ..)
        names = [x.split("::")[-1] for x in pc]
        elementwise = {"into_par_iter", "par_iter", "map", "map_init", "map_with", "for_each", "for_each_init", "for_each_with", "inspect", "filter_map", "flat_map", "enumerate"}
        rep.check("into_par_iter" in names and any(n.startswith("for_each") for n in names) and all(n in elementwise for n in names), R,
                  "parallel-shape", "exec_format's parallel pipeline changed (no early exit / try_* / find_* adaptors allowed): %s" % sorted(pc), instance={"rayon_calls": sorted(pc)})
        mi = ef.calls_to("rayon::iter::ParallelIterator::map_init") + ef.calls_to("rayon::iter::ParallelIterator::for_each_init")
        if mi:
            a = mi[0].args[1]
            rep.check(a["k"] == "const" and norm(a.get("fn", "")) == "alloc::vec::Vec::new", R, "map_init-fresh-buffer", "map_init's per-worker state is not a fresh Vec::new")
    fe = prog.body(FF + "exec_format::{closure#1}")
    if fe is not None:
        others = [c for c in fe.calls() if c.callee != "core::ops::function::Fn::call"]
        rep.check(not others, R, "for_each-only-handler", "the result consumer does more than call error_handler: %s" % [c.callee for c in others])
    bad = []
    for k, bd in prog.bodies.items():
        if bd.file == FILE_FORMATTER_FILE and k.startswith(FF + "exec_format"):
            for c in bd.calls():
                if (c.callee or "").startswith("core::panicking") or (c.callee or "") in ("std::process::exit", "std::process::abort"):
                    bad.append(c)
    rep.check(not bad, R, "no-panic-or-exit-in-exec_format", "exec_format can abort the batch: %s" % [c.callee for c in bad])


def c18e(prog, rep):
    R = "C18.e"
    b = prog.body("pasfmt_core::defaults::lexer::find_identifier_end_x86_64")
    if not rep.check(b is not None, R, "anchor:find_identifier_end_x86_64", "dispatcher not found"):
        return
    stored = set()
    for k, bd in prog.bodies.items():
        if not k.startswith("pasfmt_core::defaults::lexer::find_identifier_end_x86_64"):
            continue
        for bb, i, s in bd.stmts():
            if s["k"] == "assign" and s["rv"]["k"] == "cast":
                op = s["rv"]["op"]
                if op["k"] == "const" and "fn" in op and "ReifyFnPointer" in s["rv"]["cast"]:
                    stored.add(norm(op["fn"]))
    sib = {"pasfmt_core::defaults::lexer::find_identifier_end_avx2", "pasfmt_core::defaults::lexer::find_identifier_end_generic",
           "pasfmt_core::defaults::lexer::find_identifier_end_x86_64::detect"}
    rep.check(stored and stored <= sib and "pasfmt_core::defaults::lexer::find_identifier_end_generic" in stored, R, "cache-holds-only-siblings",
              "the function-pointer cache can hold something other than the two sibling routines (+ the detector): %s" % sorted(stored),
              instance={"cached_fn_items": sorted(short(x) for x in stored)})


PROPERTIES = {
    "C16": (check_c16,
            "Structural clauses of C16 decided on the resolved program: (a) every file-mutating library call (OpenOptions::write/append/truncate/create, "
            "File::set_len, fs::write/remove/rename/copy, Write::* on a File, handing a File to the generic writer) is confined to format_files and its closure; "
            "stdout/check modes open with a plain OpenOptions::new() and their closures never touch the File; (b) the write protocol seek(Start(0)) -> write_file -> "
            "set_len(len returned by write_file), each `?`-propagated, Ok only on the unchanged-skip arm or after set_len; (c) the returned length accounts for every "
            "write_all and nothing else; (d) the per-file operation runs only after open and decode succeeded and receives the formatter's output for the decoded text; "
            "(e) check verdict = (decoded input != formatter output), no Result dropped in file_formatter.rs, errors reach the handler, handler sets the exit flag, "
            "no process exit after argument parsing; (f) files and stdout paths hand the decoded file's encoding+BOM to the same writer. "
            "Not decided: that the OS honours the calls; glob/directory expansion. Added in round 6: (h) the text that is formatted and the malformed verdict come from one encoding_rs decode call and the verdict leads to the error (shared with C17.a/b). Added in round 7: (i) no partial write, stdout only through a lock; (j) a body that decodes stdin reports success only after Formatter::format.", []),
    "C17": (check_c17,
            "Structural clauses of C17: (a) decode_file records {encoding sniffed from the BOM, else the configured one} and decodes the post-BOM slice with exactly "
            "that encoding via decode_without_bom_handling; (b) every encoding_rs call returning a had-errors flag has the flag tested and its true edge reaches no "
            "Ok return; (c) write emits BOM (iff Some) before the data encoded with the recorded encoding; UTF-16BE/LE arms are paired with to_be_bytes/to_le_bytes; "
            "encodings that cannot be produced end in Err(Unsupported); (d) the configured encoding reaches FileFormatter only through InternalEncoding -> &Encoding and "
            "is read only by decode_file. Not decided: encoding_rs tables; the Windows-only native code page.", []),
    "C18": (check_c18,
            "Structural clauses of C18 (no cross-file channel): (a) statics inventory (one idempotent fn-pointer cache; clap argument defaults) and unsafe inventory; "
            "(b) no pipeline component type registered in make_formatter, no implementor of a pipeline trait, and none of Formatter/FileFormatter/settings types contains "
            "interior mutability (deep UnsafeCell walk); Formatter::format takes &self; (c) the per-worker input buffer is cleared on every path before decode_file "
            "appends to it; (d) the parallel closure captures shared references only, the pipeline is into_par_iter -> map_init(Vec::new) -> for_each(handler) with no "
            "early exit; (e) the fn-pointer cache holds only the sibling scanning routines. Not decided: rayon's own correctness. Added in round 6: (f) the walk filter is a decision table (dropped only for `no recognised extension` or `is a directory`); (h) an entry is handed to the workers only with evidence that it is not a directory. Added in round 7: (i) the block a worker prints reaches stdout in one piece (shared with C16.i).", []),
}
