"""Fact extraction: runs the rustc_private driver over /repo's current working tree.

Facts are cached under /verif/.cache/facts/<config>/ keyed by a SHA-256 over every
*.rs, Cargo.toml, Cargo.lock of /repo (excluding target/) plus the configuration and
the driver binary.  Cargo's own freshness cache is defeated by deleting the
workspace members' fingerprints before each extraction, and the run asserts that
every expected fact file was rewritten by this extraction.
"""
import contextlib
import fcntl
import hashlib
import json
import os
import shutil
import subprocess
import sys
import time

VERIF = os.path.dirname(os.path.dirname(os.path.abspath(__file__)))
REPO = os.environ.get("PASFMT_REPO", "/repo")
CACHE = os.environ.get("VERIF_CACHE") or os.path.join(VERIF, ".cache")     # (the self-test gives each of its parallel workers a cache of its own)
DRIVER = os.path.join(VERIF, "facts-driver", "target", "release", "pasfmt-facts")

CRATES = "pasfmt_core,pasfmt_orchestrator,pasfmt"
EXPECTED = ["pasfmt_core.lib.json", "pasfmt_orchestrator.lib.json", "pasfmt.lib.json", "pasfmt.bin.json"]

# configuration name -> (extra cargo args, extra rustflags)
CONFIGS = {
    "default": ([], ""),
    "fromstr": (["--features", "pasfmt-core/_lang_types_from_str"], ""),
    "demo": (["--features", "pasfmt/__demo"], ""),
    "release": ([], "-C debug-assertions=off -C overflow-checks=off"),
}


class ExtractError(Exception):
    pass


def nightly_sysroot():
    return subprocess.check_output(["rustc", "+nightly", "--print", "sysroot"], text=True).strip()


def tree_hash(repo, config):
    h = hashlib.sha256()
    h.update(config.encode())
    try:
        with open(DRIVER, "rb") as f:
            h.update(hashlib.sha256(f.read()).digest())
    except FileNotFoundError:
        raise ExtractError("driver binary missing: run `./verif setup`")
    files = []
    for root, dirs, fs in os.walk(repo):
        dirs[:] = [d for d in dirs if d not in ("target", ".git", "node_modules")]
        for f in fs:
            if f.endswith(".rs") or f in ("Cargo.toml", "Cargo.lock"):
                files.append(os.path.join(root, f))
    files.sort()
    for p in files:
        h.update(os.path.relpath(p, repo).encode())
        with open(p, "rb") as f:
            h.update(hashlib.sha256(f.read()).digest())
    return h.hexdigest()


def facts_dir(config, repo=REPO):
    tag = "" if repo == "/repo" else "-" + hashlib.sha256(repo.encode()).hexdigest()[:8]
    return os.path.join(CACHE, "facts", config + tag)


@contextlib.contextmanager
def _locked(name):
    """Serialises extractions that share one cargo target directory (two checks started at the same time, or a check of a scratch
    worktree next to one of /repo): the fingerprint invalidation of one must not run under the other's cargo."""
    os.makedirs(CACHE, exist_ok=True)
    with open(os.path.join(CACHE, "extract-%s.lock" % name), "w") as lk:
        fcntl.flock(lk, fcntl.LOCK_EX)
        try:
            yield
        finally:
            fcntl.flock(lk, fcntl.LOCK_UN)


def extract(config="default", repo=REPO, force=False, quiet=False):
    """Returns (facts_dir, info dict). Re-extracts if the tree changed."""
    if config not in CONFIGS:
        raise ExtractError("unknown config " + config)
    with _locked(config):
        return _extract(config, repo, force, quiet)


def _extract(config, repo, force, quiet):
    out = facts_dir(config, repo)
    want = tree_hash(repo, config)
    stamp = os.path.join(out, "STAMP.json")
    if not force and os.path.exists(stamp):
        try:
            st = json.load(open(stamp))
            if st.get("hash") == want and all(os.path.exists(os.path.join(out, e)) for e in EXPECTED):
                st["cached"] = True
                return out, st
        except Exception:
            pass
    t0 = time.time()
    if os.path.isdir(out):
        shutil.rmtree(out)
    os.makedirs(out)
    target = os.path.join(CACHE, "target-" + config)
    # defeat cargo's freshness cache for workspace members
    for prof in ("debug",):
        fp = os.path.join(target, prof, ".fingerprint")
        if os.path.isdir(fp):
            for d in os.listdir(fp):
                if d.startswith("pasfmt"):
                    shutil.rmtree(os.path.join(fp, d), ignore_errors=True)
    cargo_args, rustflags = CONFIGS[config]
    env = dict(os.environ)
    env["LD_LIBRARY_PATH"] = os.path.join(nightly_sysroot(), "lib") + ":" + env.get("LD_LIBRARY_PATH", "")
    env["RUSTFLAGS"] = ("-Zmir-opt-level=0 -Awarnings " + rustflags).strip()
    env["RUSTC_WORKSPACE_WRAPPER"] = DRIVER
    env["CARGO_TARGET_DIR"] = target
    env["PASFMT_FACTS_DIR"] = out
    env["PASFMT_FACTS_CRATES"] = CRATES
    env["CARGO_NET_OFFLINE"] = "true"
    cmd = ["cargo", "+nightly", "check", "--offline", "-p", "pasfmt-core", "-p", "pasfmt-orchestrator", "-p", "pasfmt"] + cargo_args
    r = subprocess.run(cmd, cwd=repo, env=env, stdout=subprocess.PIPE, stderr=subprocess.STDOUT, text=True)
    if r.returncode != 0:
        raise ExtractError("extraction failed (config %s):\n%s" % (config, r.stdout[-4000:]))
    missing = [e for e in EXPECTED if not os.path.exists(os.path.join(out, e))]
    if missing:
        raise ExtractError("fact files not written by this extraction: %s\n%s" % (missing, r.stdout[-2000:]))
    info = {"hash": want, "config": config, "repo": repo, "extract_s": round(time.time() - t0, 2), "cmd": " ".join(cmd),
            "rustflags": env["RUSTFLAGS"]}
    json.dump(info, open(stamp, "w"))
    info["cached"] = False
    if not quiet:
        print("[extract] config=%s %.1fs -> %s" % (config, info["extract_s"], out), file=sys.stderr)
    return out, info


def extract_canary(force=False):
    """Facts of the positive-fixture crate fixtures/canary (E4); cached by the hash of its sources and the driver."""
    with _locked("canary"):
        return _extract_canary(force)


def _extract_canary(force):
    src = os.path.join(VERIF, "fixtures", "canary")
    out = os.path.join(CACHE, "facts", "canary")
    want = tree_hash(src, "canary")
    stamp = os.path.join(out, "STAMP.json")
    exp = os.path.join(out, "pasfmt_canary.lib.json")
    if not force and os.path.exists(stamp) and os.path.exists(exp):
        try:
            if json.load(open(stamp)).get("hash") == want:
                return out
        except Exception:
            pass
    if os.path.isdir(out):
        shutil.rmtree(out)
    os.makedirs(out)
    target = os.path.join(CACHE, "target-canary")
    shutil.rmtree(os.path.join(target, "debug", ".fingerprint"), ignore_errors=True)
    env = dict(os.environ)
    env["LD_LIBRARY_PATH"] = os.path.join(nightly_sysroot(), "lib") + ":" + env.get("LD_LIBRARY_PATH", "")
    env["RUSTFLAGS"] = "-Zmir-opt-level=0 -Awarnings"
    env["RUSTC_WORKSPACE_WRAPPER"] = DRIVER
    env["CARGO_TARGET_DIR"] = target
    env["PASFMT_FACTS_DIR"] = out
    env["PASFMT_FACTS_CRATES"] = "pasfmt_canary"
    env["CARGO_NET_OFFLINE"] = "true"
    r = subprocess.run(["cargo", "+nightly", "check", "--offline"], cwd=src, env=env, stdout=subprocess.PIPE, stderr=subprocess.STDOUT, text=True)
    if r.returncode != 0 or not os.path.exists(exp):
        raise ExtractError("extraction of the positive-fixture crate failed:\n%s" % r.stdout[-3000:])
    json.dump({"hash": want}, open(stamp, "w"))
    return out


if __name__ == "__main__":
    cfg = sys.argv[1] if len(sys.argv) > 1 else "default"
    d, info = extract(cfg, force="--force" in sys.argv)
    print(d, info)
