"""C01 (every non-blank character preserved, in order) and C07 (verbatim regions) — structural clauses."""
import re
from facts import norm, Origins
from progress import dominating_variant_facts, bfs_path
from table import canon_place
from util import origins, canon, local_reads, short, enum_variants_mentioned, const_args

LANG = "pasfmt_core::lang::"
TOKEN = LANG + "Token"
RECON = "<pasfmt_core::defaults::reconstructor::DelphiLogicalLinesReconstructor as pasfmt_core::traits::LogicalLinesReconstructor>::reconstruct"
GET_CONTENT = "<pasfmt_core::lang::Token as pasfmt_core::lang::TokenData>::get_content"
GET_WS = "<pasfmt_core::lang::Token as pasfmt_core::lang::TokenData>::get_leading_whitespace"
RS = LANG + "ReconstructionSettings::"
BLANK_SOURCES = {RS + "get_newline_str", RS + "get_indentation_str", RS + "get_continuation_str", GET_WS}
STRING_MUTATORS_OK = {"alloc::string::String::push_str", "alloc::string::String::push"}
SET_CONTENT = TOKEN + "::set_content"
SET_CONTENT_CALLERS = {
    "<pasfmt_core::rules::lowercase_keywords::LowercaseKeywords as pasfmt_core::traits::LogicalLineFileFormatter>::format",
    "pasfmt_core::rules::comment_contents::format_compiler_directive",
    "pasfmt_core::rules::comment_contents::format_line_comment",
    "pasfmt_core::rules::optimising_line_formatter::multiline_strings::StringFormatter::format_multiline_strings",
}
FMT = "pasfmt_core::formatter::"


def core_bodies(prog):
    return {k: b for k, b in prog.bodies.items() if b.crate == "pasfmt_core.lib"}


def buf_pushes(prog, root):
    """All String-mutating calls on the output buffer in `root` closure and its nested closures.
    Returns [(site, kind, arg origin set)], plus calls on the buffer that are not push/push_str."""
    pushes = []
    others = []
    bodies = [prog.body(root)] + [b for b in prog.bodies.values() if b.kind == "Closure" and b.npath.startswith(root + "::")]
    for b in bodies:
        if b is None:
            continue
        og = Origins(b)
        for c in b.calls():
            if not c.args:
                continue
            a0 = c.args[0]
            if a0["k"] not in ("copy", "move"):
                continue
            ty = b.locals[a0["place"]["l"]]["ty"]
            if "alloc::string::String" not in ty:
                continue
            o = og.of_operand(a0)
            if not any(x[0] == "upvar" and "buf" in x[2] for x in o):
                continue
            if c.callee in STRING_MUTATORS_OK:
                ao = og.of_operand(c.args[1])
                pushes.append((c, c.callee.split("::")[-1], ao))
            elif _is_repeat_push(prog, c):
                # `push_repeated(buf, unit, count)`: count copies of `unit`
                ao = og.of_operand(c.args[1])
                pushes.append((c, "push_str*n", ao))
            elif ty.startswith("&mut "):
                others.append(c)
    return pushes, others


def _is_repeat_push(prog, c):
    import layout
    return layout.is_repeat_push_helper(prog, c.target)


def check_c01(prog, rep, tier, cfg):
    # C01.h — nothing is lost at the output boundary: no partial write, stdout only through a lock (shared with C16.i)
    import orch as _orch
    from engine import AliasReport as _AR
    _orch.c16i(prog, _AR(rep, [("C16.i", r"no-partial-write", "C01.h")]))
    # C01.g — the bytes that leave the process are an encoding of the formatted text by the file's encoding (shared with C17.c): the
    # character sequence is compared after decoding, so handing out other bytes changes it
    import orch as _orch
    from engine import AliasReport as _Alias
    _orch.check_c17(prog, _Alias(rep, [("C17.c", r"ok-payload|anchor:encode|^encode:", "C01.g")]), tier, cfg)
    c01a(prog, rep)
    c01b(prog, rep)
    c01c(prog, rep)
    check_c01d(prog, rep)
    check_c01f(prog, rep)
    normaliser_values(prog, rep, "C01.i")


def c01a(prog, rep):
    R = "C01.a"
    rb = prog.body(RECON)
    cl = prog.body(RECON + "::{closure#0}")
    if not rep.check(rb is not None and cl is not None, R, "anchor:reconstruct", "reconstruct / its per-token closure not found"):
        return
    # (1) the token stream is consumed by a single for_each, directly
    fe = rb.calls_to("core::iter::traits::iterator::Iterator::for_each")
    tk = rb.calls_to(LANG + "FormattedTokens::tokens")
    ok = len(fe) == 1 and len(tk) == 1
    consumer = "Iterator::for_each"
    loop_form = False
    if ok:
        o = Origins(rb, identity=()).of_operand(fe[0].args[0])
        ok = o == {("call", tk[0].bb, LANG + "FormattedTokens::tokens")}
    elif not fe and len(tk) == 1 and getattr(cl, "virtual_of", None) == rb.npath:
        # `for (token, data) in formatted_tokens.tokens() { .. }`: the stream goes unadapted into the loop, which leaves only on exhaustion
        loop_form = True
        consumer = "for loop"
        loops = rb.loops()
        nx = [c for c in rb.calls() if (c.callee or "").endswith("Iterator::next") and c.bb in loops]
        ok = len(nx) == 1
        if ok:
            o = Origins(rb, identity={"core::iter::traits::collect::IntoIterator::into_iter"}).of_operand(nx[0].args[0])
            ok = o == {("call", tk[0].bb, LANG + "FormattedTokens::tokens")}
            h, L = nx[0].bb, loops[nx[0].bb]
            sw = nx[0].t.get("target")
            rets = set(rb.return_blocks())
            exits = [(u, v2) for u in L for v2 in rb.succ[u] if v2 not in L and (rb.reach_from(v2, include_start=True) & rets)]
            ok &= all(u in (h, sw) for u, _ in exits) and bool(exits)
    rep.check(ok, R, "tokens()->for_each", "reconstruct no longer feeds FormattedTokens::tokens() directly into a single for_each / for loop that runs to exhaustion (an adapter or an early exit could skip, reorder or repeat tokens)",
              instance={"stream": "FormattedTokens::tokens()", "consumer": consumer})
    tolerated = {"core::iter::traits::iterator::Iterator::for_each"} | ({"core::iter::traits::collect::IntoIterator::into_iter", "core::iter::traits::iterator::Iterator::next"} if loop_form else set())
    other_iters = [c.callee for c in rb.calls() if (c.callee or "").startswith("core::iter::") and c.callee not in tolerated]
    rep.check(not other_iters, R, "no-adapters", "iterator adapters in reconstruct: %s" % other_iters)
    tb = prog.body(LANG + "FormattedTokens::tokens")
    if rep.check(tb is not None, R, "anchor:tokens()", "FormattedTokens::tokens not found"):
        cs = sorted(c.callee for c in tb.calls())
        rep.check(cs == sorted(["core::slice::iter", "core::iter::traits::iterator::Iterator::zip"]), R, "tokens()=iter.zip",
                  "FormattedTokens::tokens() is no longer `tokens.iter().zip(&fmt)`: %s" % cs, instance={"calls": cs})
    # (2) exactly one content push per token, on every path, not in a loop
    pushes, others = buf_pushes(prog, RECON + "::{closure#0}")
    content = [p for p in pushes if any(x[0] == "call" and x[2] == GET_CONTENT for x in p[2])]
    if rep.check(len(content) == 1 and content[0][0].body is cl, R, "one-content-push", "the per-token closure must push token.get_content() exactly once (found %d)" % len(content)):
        c = content[0][0]
        og = Origins(cl)
        recv = og.of_operand([x for x in cl.calls() if x.bb == next(iter({y[1] for y in content[0][2] if y[0] == 'call'}))][0].args[0])
        rep.check(all(x[0] == "param" and x[1] == 2 for x in recv) and content[0][2] == {("call", next(iter({y[1] for y in content[0][2]})), GET_CONTENT)}, R,
                  "content-of-this-token", "the pushed content does not come (only) from this token's get_content(): %s" % sorted(map(str, content[0][2])))
        every_path = c.bb == 0 or bfs_path(cl, 0, set(cl.return_blocks()), {c.bb}) is None
        in_loop = any(c.bb in L for L in cl.loops().values())
        rep.check(every_path and not in_loop, R, "content-push-on-every-path-once",
                  "a path through the per-token closure skips the content push, or the push sits in a loop", where=c.where(),
                  instance={"content_push": "String::push_str(buf, token.get_content())", "every_path": every_path, "in_loop": in_loop})
    # (3) everything else pushed is blank material
    nblank = 0
    for (c, kind, ao) in pushes:
        if any(x[0] == "call" and x[2] == GET_CONTENT for x in ao):
            continue
        good = bool(ao) and all((x[0] == "call" and x[2] in BLANK_SOURCES) or (x[0] == "const" and x[1] == "char" and x[2] == 32)
                                or (x[0] == "const" and x[1] == "str" and isinstance(x[2], str) and x[2] != "" and all(ord(ch) <= 0x20 or ord(ch) == 0x3000 for ch in x[2])) for x in ao)
        nblank += 1 if good else 0
        rep.check(good, R, "blank-push:%s:%s" % (short(c.body.npath).split("::")[-1], sorted(x[2] if x[0] == "call" else str(x) for x in ao)),
                  "reconstruct pushes something other than token content or blank strings into the output: origins %s" % sorted(map(str, ao)), where=c.where(),
                  instance={"push": kind, "origin": sorted((x[2].split("::")[-1] if x[0] == "call" else "' '") for x in ao)})
    rep.floor(R, "blank pushes (newline/indent/continuation/space/original whitespace)", nblank, 6)
    # (4) no other mutation of the buffer
    rep.check(not others, R, "buffer-only-pushed", "the output buffer is mutated by calls other than push/push_str: %s" % [c.callee for c in others])
    # the formatter hands reconstruct the buffer it returns; nothing else writes to it
    fib = prog.body(FMT + "Formatter::format_into_buf")
    if rep.check(fib is not None, R, "anchor:format_into_buf", "format_into_buf not found"):
        users = []
        og = Origins(fib)
        for c in fib.calls():
            for a in c.args:
                if a["k"] in ("copy", "move") and any(x[0] == "param" and x[1] == 3 for x in og.of_operand(a)):
                    users.append(c)
        rep.check(len(users) == 1 and (users[0].callee or "").endswith("LogicalLinesReconstructor::reconstruct"), R, "buf-only-to-reconstruct",
                  "format_into_buf passes the output buffer to something other than the reconstructor: %s" % [c.callee for c in users])
        # the text the lexer sees is the caller's text, untouched
        lx = [c for c in fib.calls() if (c.callee or "").endswith("traits::Lexer::lex")]
        if rep.check(len(lx) == 1, R, "one-lex-call", "format_into_buf calls the lexer %d times" % len(lx)):
            o = Origins(fib, identity=()).of_operand(lx[0].args[1])
            rep.check(o == {("param", 2, "input")} or (len(o) == 1 and all(x[0] == "param" and x[1] == 2 for x in o)), R, "lexer-sees-the-input", "the lexer is not handed the input text itself: %s" % sorted(map(str, o)),
                      where=lx[0].where(), instance={"lex_argument": "the `input` parameter, no adapter"})
    # every caller of format_into_buf passes its own input through unchanged and returns the buffer unchanged
    callers = [c for c in prog.who_calls(FMT + "Formatter::format_into_buf") if c.body.crate.startswith("pasfmt")]
    rep.floor(R, "callers of format_into_buf", len(callers), 1)
    for c in callers:
        b = c.body
        oi = Origins(b, identity=()).of_operand(c.args[1])
        rep.check(bool(oi) and all(x[0] == "param" for x in oi), R, "input-passed-through:" + short(b.npath), "%s hands format_into_buf a text derived by %s instead of its own parameter" % (short(b.npath), sorted(map(str, oi))),
                  where=c.where(), instance={"caller": short(b.npath), "input": "parameter, no adapter"})
        ob = Origins(b).of_operand(c.args[2])
        makers = {x[1] for x in ob if x[0] == "call"}
        others = []
        for c2 in b.calls():
            if c2.bb == c.bb or c2.bb in makers:
                continue
            for a in c2.args:
                if a["k"] in ("copy", "move") and Origins(b).of_operand(a) & ob and "String" in b.locals[a["place"]["l"]]["ty"]:
                    others.append(c2.callee)
        rep.check(not others, R, "buffer-untouched:" + short(b.npath), "%s modifies or inspects the output buffer besides handing it to format_into_buf: %s" % (short(b.npath), others), where=c.where(),
                  instance={"caller": short(b.npath), "other_uses_of_buffer": others})


def set_content_callers(prog):
    """(callers of Token::set_content, callers that are not part of a reviewed normaliser, reviewed normalisers that no longer replace text).
    A private helper called only from a reviewed normaliser (its per-token step, say) is part of that normaliser."""
    from layout import helper_closure
    callers = {c.body.npath for c in prog.who_calls(SET_CONTENT)}
    part = helper_closure(prog, callers, SET_CONTENT_CALLERS)
    extra = {x for x in callers if x not in SET_CONTENT_CALLERS and x not in part}
    owners = set()
    for x in callers:
        if x in SET_CONTENT_CALLERS:
            owners.add(x)
        elif x in part:
            # whose part: the reviewed normalisers that (transitively) call it
            seen, todo = set(), [x]
            while todo:
                y = todo.pop()
                if y in seen:
                    continue
                seen.add(y)
                for c in prog.who_calls(y.split("::{closure")[0]):
                    r = c.body.npath.split("::{closure")[0]
                    if r in SET_CONTENT_CALLERS:
                        owners.add(r)
                    elif c.body.crate.startswith("pasfmt"):
                        todo.append(r)
    return callers, extra, SET_CONTENT_CALLERS - owners


def c01b(prog, rep):
    R = "C01.b"
    callers, extra, missing = set_content_callers(prog)
    rep.check(not extra and not missing, R, "who-calls:set_content",
              "token text is replaced outside the reviewed normalisers: unexpected %s, missing %s" % (sorted(short(x) for x in extra), sorted(short(x) for x in missing)),
              instance={"callers": sorted(short(x) for x in callers)})
    rep.floor(R, "set_content call sites", len(prog.who_calls(SET_CONTENT)), 4)
    for f in ("content", "ws_len"):
        writers = {a[0].npath for a in prog.field_accesses(TOKEN, f) if a[3].startswith("write") or a[3] == "refmut"}
        rep.check(writers <= {SET_CONTENT}, R, "who-writes:Token." + f, "Token.%s is written outside Token::set_content: %s" % (f, sorted(short(x) for x in writers)),
                  instance={"field": f, "writers": sorted(short(x) for x in writers)})
    # Token constructors
    nr = {c.body.npath for c in prog.who_calls(TOKEN + "::new_ref")}
    no = {c.body.npath for c in prog.who_calls(TOKEN + "::new_owned")}
    rn = {c.body.npath for c in prog.who_calls(LANG + "RawToken::new")}
    rep.check(nr == {"<pasfmt_core::lang::Token as core::convert::From>::from"}, R, "who-calls:Token::new_ref", "Token::new_ref called from %s" % sorted(short(x) for x in nr))
    rep.check(not no, R, "who-calls:Token::new_owned", "Token::new_owned is called (tokens with invented text): %s" % sorted(short(x) for x in no))
    rep.check(rn == {"pasfmt_core::defaults::lexer::to_final_token"}, R, "who-calls:RawToken::new", "RawToken::new called from %s" % sorted(short(x) for x in rn))
    # direct aggregate construction of Token / RawToken outside their constructors
    for adt, okset in ((TOKEN, {TOKEN + "::new_ref", TOKEN + "::new_owned"}), (LANG + "RawToken", {LANG + "RawToken::new"})):
        makers = set()
        for k, b in core_bodies(prog).items():
            for bb, i, s in b.stmts():
                if s["k"] == "assign" and s["rv"]["k"] == "aggregate" and norm(s["rv"].get("adt", "")) == adt:
                    makers.add(k)
        rep.check(makers <= okset, R, "constructed-only-in-ctor:" + short(adt), "%s is built outside its constructors: %s" % (short(adt), sorted(short(x) for x in makers - okset)),
                  instance={"adt": short(adt), "makers": sorted(short(x) for x in makers)})
    # no whole-token overwrite / swap
    bad = []
    for k, b in core_bodies(prog).items():
        for bb, i, s in b.stmts():
            if s["k"] == "assign" and s["dst"]["p"] and s["dst"]["p"][-1]["k"] in ("deref", "index"):
                from facts import place_str
                # type of the stored place: approximate through the rvalue's aggregate / the local type
                l = s["dst"]["l"]
                ty = b.locals[l]["ty"]
                if ("&mut pasfmt_core::lang::Token<" in ty or "[pasfmt_core::lang::Token<" in ty) and s["dst"]["p"][-1]["k"] in ("deref", "index") \
                        and len(s["dst"]["p"]) <= 2 and not any(pe["k"] == "field" for pe in s["dst"]["p"]):
                    bad.append((k, bb))
        for c in b.calls():
            if (c.callee or "") in ("core::mem::swap", "core::mem::replace", "core::mem::take", "core::slice::swap", "core::ptr::swap", "core::ptr::write"):
                if any("pasfmt_core::lang::Token" in a or "pasfmt_core::lang::RawToken" in a for a in c.t.get("callee_args", [])):
                    bad.append((k, c.bb))
    rep.check(not bad, R, "no-whole-token-overwrite", "a whole Token is overwritten / swapped: %s" % [(short(k), bb) for k, bb in bad])
    # sequence operations on the token vector after lexing
    allowed = {"alloc::vec::Vec::len", "alloc::vec::Vec::retain", "core::ops::deref::Deref::deref", "core::ops::deref::DerefMut::deref_mut", "core::slice::get",
               "core::slice::get_mut", "core::slice::iter", "core::slice::iter_mut", "core::slice::len", "core::slice::first", "core::slice::last", "core::slice::is_empty",
               "alloc::vec::Vec::is_empty", "core::iter::traits::collect::IntoIterator::into_iter", "core::ops::index::Index::index", "core::ops::index::IndexMut::index_mut",
               "core::clone::Clone::clone", "alloc::vec::Vec::with_capacity", "alloc::vec::Vec::capacity"}
    seen = {}
    for k, b in core_bodies(prog).items():
        for c in b.calls():
            if not c.args or c.args[0]["k"] not in ("copy", "move"):
                continue
            ty = b.locals[c.args[0]["place"]["l"]]["ty"]
            if ("Vec<pasfmt_core::lang::Token<" in ty or "[pasfmt_core::lang::Token<" in ty or "Vec<pasfmt_core::lang::RawToken<" in ty or "[pasfmt_core::lang::RawToken<" in ty) \
                    and not (c.callee or "").startswith("pasfmt_core::") and not (c.callee or "").startswith("<pasfmt_core::"):
                seen.setdefault(c.callee, []).append(c)
    for cal, sites in sorted(seen.items()):
        if cal == "alloc::vec::Vec::push":
            okb = all(s.body.npath == "pasfmt_core::defaults::lexer::lex" for s in sites)
            rep.check(okb, R, "seq-op:push", "tokens are pushed outside the lexer: %s" % sorted({short(s.body.npath) for s in sites}), instance={"op": "push", "in": "lexer::lex"})
        elif cal == "alloc::vec::Vec::retain":
            okb = all(s.body.npath == FMT + "delete_marked_tokens" for s in sites)
            rep.check(okb, R, "seq-op:retain", "Vec::retain on tokens outside delete_marked_tokens: %s" % sorted({short(s.body.npath) for s in sites}), instance={"op": "retain", "in": "delete_marked_tokens"})
        else:
            rep.check(cal in allowed, R, "seq-op:" + str(cal), "token sequence is modified/reordered by %s in %s" % (cal, sorted({short(s.body.npath) for s in sites})),
                      where=sites[0].where(), instance={"op": cal, "sites": len(sites)})
    rep.floor(R, "distinct sequence operations on token vectors/slices", len(seen), 8)


def c01c(prog, rep):
    R = "C01.c"
    removers = [im for im in prog.impls if im.get("trait") and norm(im["trait"]) == "pasfmt_core::traits::TokenRemover"]
    rep.check(not removers, R, "no-TokenRemover-impl", "a TokenRemover implementation exists: %s" % [im["self_ty"] for im in removers], instance={"impls": len(removers)})
    mf = prog.body("pasfmt::make_formatter")
    if rep.check(mf is not None, R, "anchor:make_formatter", "make_formatter not found"):
        tr = [c for c in mf.calls() if (c.callee or "").endswith("AddTokenRemover::token_remover")]
        rep.check(not tr, R, "no-remover-registered", "make_formatter registers a token remover", instance={"token_remover_calls": len(tr)})
    all_tr = prog.who_calls("pasfmt_core::formatter::AddTokenRemover::token_remover")
    rep.check(not [c for c in all_tr if c.body.crate.startswith("pasfmt")], R, "no-remover-registered-anywhere", "token_remover() is called in the workspace: %s" % [short(c.body.npath) for c in all_tr])
    d = prog.body(FMT + "delete_marked_tokens")
    if rep.check(d is not None, R, "anchor:delete_marked_tokens", "delete_marked_tokens not found"):
        am = d.calls_to(FMT + "TokenMarker::any_marked")
        muts = [c for c in d.calls() if c.callee in ("alloc::vec::Vec::retain", LANG + "LogicalLine::void_and_drain", LANG + "LogicalLine::get_tokens_mut") or (c.callee or "").endswith("notify_token_deleted")]
        ok = len(am) == 1 and len(muts) >= 3
        if ok:
            from panic import dominating_conditions
            for m in muts:
                conds = dominating_conditions(d, m.bb)
                if not any(c[0] == "call" and c[1].endswith("any_marked") and c[3] is True for c in conds):
                    # `if !any_marked() { return }` : the mutation must be dominated by any_marked()==true
                    ok = False
        rep.check(ok, R, "delete-guarded-by-any_marked", "delete_marked_tokens mutates tokens/lines without the `any_marked()` guard",
                  instance={"mutating_calls": [short(c.callee) for c in muts]})


# =========================================================================== C07

def check_c07(prog, rep, tier, cfg):
    merge_key_is_the_whole_line(prog, rep, "C07.k")
    # C07.l — an asm instruction is kept verbatim because it is in an AsmInstruction line of some pass: every conditional-directive pass
    # is given to the line parser (shared with C14.i) — tokens of a pass that is never parsed are in no line and are formatted
    import parse_cov as _pc
    _pc.every_pass_is_parsed(prog, rep, "C07.l")
    R = "C07.a"
    ft = LANG + "FormattedTokens"
    # single door to &mut Token
    doors = []
    for k, b in core_bodies(prog).items():
        if not k.startswith(ft + "::"):
            continue
        rt = b.locals[0]["ty"]
        if "&mut pasfmt_core::lang::Token" in rt or ("impl " in rt and k.endswith("tokens_mut")):
            doors.append(k)
    want = {ft + "::map_tok_ignored", ft + "::get_token_mut", ft + "::tokens_mut"}
    rep.check(set(doors) <= want and ft + "::map_tok_ignored" in doors, R, "doors-to-&mut-Token", "FormattedTokens hands out `&mut Token` through other methods: %s" % sorted(short(x) for x in set(doors) - want),
              instance={"doors": sorted(short(x) for x in doors)})
    # FormattedTokens.tokens is only touched inside impl FormattedTokens
    acc = {a[0].npath for a in prog.field_accesses(ft, "tokens")}
    rep.check(all(x.startswith(ft + "::") for x in acc), R, "who-touches:FormattedTokens.tokens", "FormattedTokens.tokens is accessed outside its impl: %s" % sorted(short(x) for x in acc if not x.startswith(ft + "::")),
              instance={"accessors": sorted(short(x) for x in acc)})
    mutacc = {a[0].npath for a in prog.field_accesses(ft, "tokens") if a[3] in ("refmut", "write", "write-inner")}
    for k in sorted(acc):
        b = prog.body(k)
        # bodies that reach the token slice mutably must route through map_tok_ignored
        mut = any(c.callee in ("core::slice::iter_mut", "core::slice::get_mut", "core::ops::index::IndexMut::index_mut") for c in b.calls())
        if mut and not k.endswith("new_from_tokens"):
            via = b.calls_to(ft + "::map_tok_ignored") or any(op.get("fn") and norm(op["fn"]) == ft + "::map_tok_ignored" for c in b.calls() for op in c.args if op["k"] == "const")
            rep.check(bool(via), R, "mutable-access-via-map_tok_ignored:" + short(k), "%s reaches tokens mutably without map_tok_ignored" % short(k), instance={"method": short(k)})
    mti = prog.body(ft + "::map_tok_ignored")
    if rep.check(mti is not None, R, "anchor:map_tok_ignored", "map_tok_ignored not found"):
        from table import Table, render
        t = Table(prog, mti)
        good = len(t.rows) == 2
        for cons, res in t.rows:
            ign = [c for c in cons if c[0] == "cond" and "is_ignored" in c[1]]
            r = render(res)
            if not ign:
                good = False
                continue
            if ign[0][2] == 0:
                good &= r.startswith("(Ok(")
            else:
                good &= r.startswith("(Err(TokenIgnored)")
        rep.check(good, R, "map_tok_ignored:table", "map_tok_ignored no longer returns Err(TokenIgnored) exactly for ignored tokens: %s" % [(c, render(r)) for c, r in t.rows],
                  instance={"rows": [render(r) for _, r in t.rows]})
    # C07.b ignore flag is constructor-only; marks are never removed
    R = "C07.b"
    w = {a[0].npath for a in prog.field_accesses(LANG + "FormattingData", "ignored") if a[3].startswith("write") or a[3] == "refmut"}
    rep.check(not w, R, "who-writes:FormattingData.ignored", "FormattingData.ignored is written after construction: %s" % sorted(short(x) for x in w), instance={"writers": sorted(short(x) for x in w)})
    makers = set()
    for k, b in core_bodies(prog).items():
        for bb, i, s in b.stmts():
            if s["k"] == "assign" and s["rv"]["k"] == "aggregate" and norm(s["rv"].get("adt", "")) == LANG + "FormattingData":
                makers.add(k)
    rep.check(all("FormattingData as core::convert::From" in m or "FormattingData as core::default::Default" in m for m in makers) and makers, R, "FormattingData-constructed-only-by-From",
              "FormattingData is constructed outside its From impls: %s" % sorted(short(x) for x in makers), instance={"makers": sorted(short(x) for x in makers)})
    um = [c for c in prog.who_calls(FMT + "TokenMarker::unmark") if c.body.crate.startswith("pasfmt")]
    rep.check(not um, R, "no-unmark", "TokenMarker::unmark is called: %s" % [short(c.body.npath) for c in um], instance={"unmark_calls": len(um)})
    setw = {a[0].npath for a in prog.field_accesses(FMT + "TokenMarker", "set") if a[3] in ("refmut", "write", "write-inner")}
    rep.check(setw <= {FMT + "TokenMarker::mark", FMT + "TokenMarker::unmark", FMT + "Formatter::format_into_buf"}, R, "who-mutates:TokenMarker.set",
              "TokenMarker.set is mutated in %s" % sorted(short(x) for x in setw), instance={"mutators": sorted(short(x) for x in setw)})
    fib = prog.body(FMT + "Formatter::format_into_buf")
    if rep.check(fib is not None, R, "anchor:format_into_buf", "format_into_buf not found"):
        nf = fib.calls_to(ft + "::new_from_tokens")
        ig = [c for c in fib.calls() if (c.callee or "").endswith("TokenIgnorer::ignore_tokens")]
        fm = [c for c in fib.calls() if (c.callee or "").endswith("LogicalLineFileFormatter::format")]
        ok = len(nf) == 1 and len(ig) == 1 and len(fm) == 1
        if ok:
            og = Origins(fib)
            m1 = og.of_operand(nf[0].args[1])
            m2 = og.of_operand(ig[0].args[2])
            same = bool(m1) and m1 == m2 and all(x[0] == "call" and "TokenMarker" in x[2] and x[2].endswith("default") for x in m1)
            order = fib.dominates(ig[0].bb, nf[0].bb) is False and bfs_path(fib, 0, {nf[0].bb}, set()) is not None
            # ignorers run (loop) before new_from_tokens; formatters run after
            order = fib.can_reach_avoiding(ig[0].bb, {nf[0].bb}, set()) and not fib.can_reach_avoiding(nf[0].bb, {ig[0].bb}, set()) \
                and fib.dominates(nf[0].bb, fm[0].bb)
            rep.check(same, R, "ignore-marker-feeds-FormattedTokens", "new_from_tokens does not receive the marker the ignorers filled (%s vs %s)" % (sorted(map(str, m1)), sorted(map(str, m2))),
                      instance={"marker": "ignored_tokens"})
            rep.check(order, R, "order:ignorers<FormattedTokens<formatters", "ignorers / FormattedTokens::new_from_tokens / formatters are out of order")
        else:
            rep.fail(R, "format_into_buf:shape", "format_into_buf: expected one ignore_tokens, one new_from_tokens, one formatter call (found %d/%d/%d)" % (len(ig), len(nf), len(fm)))
        # the private `ignored` flag cannot be named outside its module, but a whole-value store through `&mut FormattingData` would reset it
        from util import whole_value_stores
        wv = whole_value_stores(prog, "pasfmt_core::lang::FormattingData")
        rep.check(not wv, "C07.b", "no-whole-value-store:FormattingData", "a FormattingData is overwritten as a whole (which also resets its ignore mark): %s" % [(short(b.npath), what) for b, _, what in wv[:3]],
                  where=wv[0][1] if wv else None, instance={"whole_value_stores": len(wv)})
        # C07.e line voiding uses all(is_marked) on the ignore marker
        R2 = "C07.e"
        va = fib.calls_to(LANG + "LogicalLine::void_and_drain")
        from panic import dominating_conditions
        okv = len(va) == 1
        if okv:
            conds = dominating_conditions(fib, va[0].bb)
            okv = any(c[0] == "call" and c[1].endswith("::all") and c[3] is True for c in conds)
        rep.check(okv, R2, "void-only-if-all-ignored", "a logical line is voided without `all tokens ignored` (a partly ignored line would lose formatting of its other tokens)",
                  instance={"guard": "Iterator::all(is_marked)"})
        cl = [b for b in prog.closures_of(FMT + "Formatter::format_into_buf")]
        allcl = [b for b in cl if any(c.callee == FMT + "TokenMarker::is_marked" for c in b.calls())]
        rep.floor(R2, "closures testing is_marked in format_into_buf", len(allcl), 2)
    # C07.c reconstruct's ignored arm
    R = "C07.c"
    cl = prog.body(RECON + "::{closure#0}")
    if rep.check(cl is not None, R, "anchor:reconstruct-closure", "reconstruct closure not found"):
        from panic import dominating_conditions
        pushes, _ = buf_pushes(prog, RECON + "::{closure#0}")
        ign_pushes = []
        for (c, kind, ao) in pushes:
            if c.body is not cl:
                continue
            conds = dominating_conditions(cl, c.bb)
            if any(x[0] == "call" and x[1].endswith("is_ignored") and x[3] is True for x in conds):
                ign_pushes.append((c, ao))
        # per path of the ignored arm: what is written in front of the token's text is the original whitespace, preceded at most by the
        # safety-net line break (only when the flag may be set and the kept whitespace has no line break of its own)
        import c02 as _c02
        try:
            tb = _c02.emission_table(prog, cl)
        except Exception as e:
            tb = None
            rep.fail(R, "ignored-arm-pushes", "emission closure is not a loop-free classifier any more: %s" % e)
        ups = cl.j.get("upvars", [])
        fk = [i for i, u in enumerate(ups) if "must_break" in str(u)]
        flag = "arg1.%d" % fk[0] if fk else None
        bad, nign, shapes = [], 0, set()
        for (cons, _res), calls in zip(tb.rows if tb else [], tb.calls if tb else []):
            cd = {}
            for c in cons:
                if c[0] == "cond":
                    cd.setdefault(c[1], c[2])
            ign = [v for k, v in cd.items() if k.startswith("is_ignored(")]
            if not ign or ign[0] == 0:
                continue
            nign += 1
            seq = []
            for n2, a in calls:
                sn = n2.split("::")[-1]
                if sn in ("push_str", "push", "for_each", "extend", "write_str", "insert_str") or _layout_is_repeat(prog, n2):
                    arg = a[-1] if a else ""
                    seq.append("newline" if "get_newline_str(" in arg else "whitespace" if re.match(r"^get_leading_whitespace\(arg2\.0\)$", arg) else
                               "content" if re.match(r"^get_content\(arg2\.0\)$", arg) else "%s(%s)" % (sn, arg[:50]))
            shapes.add(tuple(seq))
            if seq == ["whitespace", "content"]:
                continue
            if seq == ["newline", "whitespace", "content"]:
                has_nl = [v for k, v in cd.items() if k.startswith("contains(get_leading_whitespace(")]
                if (flag is None or cd.get(flag) != 0) and has_nl and has_nl[0] == 0:
                    continue
                bad.append("a line break is added in front of a verbatim token although %s" % ("the kept whitespace was not tested for one" if not has_nl else "nothing requires it"))
                continue
            bad.append("writes %s" % seq)
        rep.check(nign >= 2 and not bad, R, "ignored-arm-pushes", "on %d of %d paths of the ignored arm, reconstruct does not write {[safety-net line break] original whitespace, text}: %s" % (len(bad), nign, bad[:2]),
                  instance={"ignored_paths": nign, "shapes": sorted(" ".join(x) for x in shapes)})
        # no counter is read on the ignored arm
        cnt_reads = []
        for f in ("newlines_before", "indentations_before", "continuations_before", "spaces_before"):
            for a in prog.field_accesses(LANG + "FormattingData", f, within={cl.npath}):
                conds = dominating_conditions(cl, a[1])
                if any(x[0] == "call" and x[1].endswith("is_ignored") and x[3] is True for x in conds):
                    cnt_reads.append(f)
        rep.check(not cnt_reads, R, "ignored-arm-reads-no-counter", "the ignored arm of reconstruct reads formatting counters: %s" % cnt_reads)
    import c02
    c02.line_break_test_of_safety_net(prog, rep, "C07.c")
    # C07.d both ignorers registered; asm lines fully marked; wrapper skips asm lines
    R = "C07.d"
    mf = prog.body("pasfmt::make_formatter")
    if rep.check(mf is not None, R, "anchor:make_formatter", "make_formatter not found"):
        ig = [c.t.get("callee_args", [None, None])[1] for c in mf.calls() if (c.callee or "").endswith("AddTokenIgnorer::token_ignorer")]
        want = {"pasfmt_core::rules::formatting_toggle::FormattingToggler", "pasfmt_core::rules::ignore_asm_instructions::IgnoreAsmIstructions"}
        rep.check(set(map(norm, ig)) == want, R, "ignorers-registered", "registered token ignorers: %s" % ig, instance={"ignorers": sorted(short(norm(x)) for x in ig)})
    asm_ignorer_marks(prog, rep, R, "C07.i")
    fl = prog.body("pasfmt_core::rules::optimising_line_formatter::InternalOptimisingLineFormatter::format_line")
    if rep.check(fl is not None, R, "anchor:format_line", "format_line not found"):
        from panic import dominating_conditions
        fos = fl.calls_to("pasfmt_core::rules::optimising_line_formatter::InternalOptimisingLineFormatter::find_optimal_solution")
        ok = len(fos) == 1
        if ok:
            conds = dominating_conditions(fl, fos[0].bb)
            ok = any(c[0] == "call" and c[1].endswith("eq") and c[3] is False for c in conds)
            consts = [v for a, v in enum_variants_mentioned(fl) if a.endswith("LogicalLineType")]
            ok &= consts == ["AsmInstruction"]
        rep.check(ok, R, "wrapper-skips-asm-lines", "format_line searches a wrapping for AsmInstruction lines", instance={"guard": "line_type != AsmInstruction"})
    # C07.g every logical line finished while parsing asm instructions carries the AsmInstruction type
    asm_lines_typed(prog, rep, "C07.g")
    # C07.j .. and no other line does: a type set for a line that turned out to be empty does not survive finish_logical_line
    finished_line_type_does_not_survive(prog, rep, "C07.j")
    # C07.h "code outside these regions is still formatted": the child lines of a line that lies entirely inside a region
    import layout as _layout
    _layout.children_of_voided_lines_are_laid_out(prog, rep, "C07.h")
    # C07.f toggler constants
    R = "C07.f"
    vocab = toggle_vocabulary(prog)
    want = {("//", "exact"), ("(*", "exact"), ("{", "exact"), ("pasfmt", "icase"), ("on", "icase"), ("off", "icase")}
    rep.check(vocab == want, R, "toggle-vocabulary",
              "the words the toggle recogniser compares comment text with, and how (exact / ignoring ASCII case), changed: unexpected %s, missing %s" % (sorted(vocab - want), sorted(want - vocab)),
              instance={"vocabulary": sorted("%s:%s" % x for x in vocab)})
    b = prog.body("pasfmt_core::rules::formatting_toggle::parse_pasfmt_directive_comment_contents")
    if b is not None:
        seq = [c.callee.split("::")[-1] for c in b.calls() if (c.callee or "").startswith("pasfmt_core::rules::formatting_toggle::")]
        rep.check(seq == ["strip_prefix_bytes", "strip_prefix_icase", "strip_prefix_bytes1", "parse_pasfmt_toggle"], R, "toggle-grammar", "toggle grammar changed: %s" % seq,
                  instance={"sequence": seq})
    tg = "<pasfmt_core::rules::formatting_toggle::FormattingToggler as pasfmt_core::traits::TokenIgnorer>::ignore_tokens"
    b = prog.body(tg)
    if rep.check(b is not None, R, "anchor:FormattingToggler", "FormattingToggler::ignore_tokens not found"):
        marks = b.calls_to(FMT + "TokenMarker::mark")
        pts = b.calls_to("pasfmt_core::rules::formatting_toggle::parse_toggle")
        ok = len(marks) == 1 and len(pts) == 1
        if ok:
            facts = dominating_variant_facts(prog, b, pts[0].bb)
            ok = any(f[2] == ("Comment",) for f in facts)
            # argument of parse_toggle is this token's content
            ok &= "get_content(" in canon(b, pts[0].args[0])
        rep.check(ok, R, "toggle-only-in-comments", "FormattingToggler no longer parses toggles from (and only from) comment tokens' content")
        its = sorted(c.callee.split("::")[-1] for c in b.calls() if (c.callee or "").startswith("core::iter::") or (c.callee or "").startswith("core::slice::"))
        rep.check(its == ["enumerate", "into_iter", "iter", "next"], R, "toggle-scans-all-tokens-in-order", "FormattingToggler iterates tokens with %s" % its, instance={"chain": its})
        toggler_loop_discipline(prog, rep, R, b)


def toggler_loop_discipline(prog, rep, R, b):
    """The region scan visits every token (the only exit of the loop is the exhausted iterator), decides
    each token by `ignored | on_toggle_comment`, and `ignored` changes only on an explicit Off / On."""
    from progress import bfs_cycle
    loops = b.loops()
    if not rep.check(len(loops) == 1, R, "toggle:one-loop", "FormattingToggler::ignore_tokens must have exactly one loop (found %d)" % len(loops)):
        return
    h, L = next(iter(loops.items()))
    # exits of the loop
    exits = [(x, s) for x in L for s in b.succ[x] if s not in L and b.blocks[s]["term"]["k"] != "unreachable"]
    nxt = [c for c in b.calls() if c.callee == "core::iter::traits::iterator::Iterator::next" and c.bb in L]
    ok = len(nxt) == 1
    if ok:
        sw = nxt[0].t["target"]
        t = b.blocks[sw]["term"]
        none_tgt = [tb for v, tb in t["targets"] if v == 0] if t["k"] == "switch" else []
        ok = len(exits) == 1 and exits[0][0] == sw and none_tgt and exits[0][1] == none_tgt[0]
    rep.check(ok, R, "toggle:scan-ends-only-when-tokens-exhausted", "the toggle scan can stop before the last token (break / return inside the loop): tokens after that point — e.g. the end-of-file token of an "
              "unterminated `pasfmt off` region — would not be kept verbatim", where="%s:%d" % (b.file, b.line), instance={"loop_exits": len(exits), "exit": "iterator exhausted"})
    # transition table of one iteration: (token kind, parse_toggle result, flag before) -> (flag after, marked?)
    from table import Table, TooComplex, render
    sw = nxt[0].t["target"] if nxt else None
    some = None
    if sw is not None and b.blocks[sw]["term"]["k"] == "switch":
        tt = b.blocks[sw]["term"]
        some = ([tb for v, tb in tt["targets"] if v == 1] or [tt["otherwise"]])[0]
    # the loop-carried flag: the bool local written both outside the loop (initial value) and inside it
    flags = []
    for i, lc in enumerate(b.locals):
        if lc.get("ty") != "bool":
            continue
        defs = [d for d in b.defs.get(i, []) if d[0] == "assign"]
        if any(d[1] in L for d in defs) and any(d[1] not in L for d in defs):
            flags.append(i)
    if not rep.check(some is not None and len(flags) == 1, R, "toggle:anchor-loop-state", "the scan's loop-carried region flag could not be identified (candidates: %d)" % len(flags)):
        return
    ign = flags[0]
    init = [d for d in b.defs.get(ign, []) if d[0] == "assign" and d[1] not in L]
    init_false = len(init) == 1 and init[0][3]["rv"]["k"] == "use" and init[0][3]["rv"]["op"].get("bool") is False
    try:
        tb = Table(prog, b, start=some, stop={h}, state=[ign], inline=1)
    except TooComplex as e:
        rep.fail(R, "toggle:transition-table", "one iteration of the toggle scan is not a loop-free classifier: %s" % e)
        return
    flagname = "var:" + (b.locals[ign].get("name") or "tmp")
    bad = []
    seen = set()
    for (cons, res), calls in zip(tb.rows, tb.calls):
        tog = [c[2] for c in cons if c[0] == "is" and c[1].endswith("@Some.0") and c[2] in ("On", "Off")]
        tog = tog[0] if tog else None
        before = [c[2] for c in cons if c[0] == "cond" and c[1] == flagname]
        before = None if not before else (before[0] != 0)
        if res.kind != "agg" or res.a[0] != "state":
            # the iteration leaves the function (return inside the loop): reported by the exit rule above
            bad.append({"toggle": None, "flag_before": None, "flag_after": "returns from inside the scan", "marked": False})
            continue
        out = res.a[2][0]
        after = out.a if out.kind == "const" else ("same" if out.kind == "place" and out.a == flagname else "?")
        marked = any(n.endswith("TokenMarker::mark") for n, _ in calls)
        comment = any(c[0] == "is" and c[2] == "Comment" for c in cons)
        # parse_toggle is applied to this token's own content (with inlining the content accessor shows up as a call on the element)
        parsed = any(n.endswith("parse_toggle") for n, a in calls) and any(n.endswith("get_content") and a and a[0].endswith("@Some.0.1") for n, a in calls)
        seen.add((tog, before))
        if tog == "Off":
            ok1 = after is True and marked and comment and parsed
        elif tog == "On":
            # the On comment belongs to the region it ends; an On comment outside any region is ordinary commentary and is formatted
            ok1 = after is False and comment and parsed and before is not None and marked == before
        else:
            ok1 = after == "same" and before is not None and marked == before
        if not ok1:
            bad.append({"toggle": tog, "flag_before": before, "flag_after": str(after), "marked": marked})
    rep.check(init_false and not bad and {("Off", None), ("On", None)} <= {(a2, None) for a2, _ in seen} and len(tb.rows) >= 4, R, "toggle:transition-table",
              "one step of the toggle scan is not: Off comment -> region on, marked; On comment -> region off, marked iff it ends a region; anything else -> region unchanged, marked iff inside the region (flag initially off); deviating paths: %s" % bad[:3],
              where="%s:%d" % (b.file, b.line), instance={"paths": len(tb.rows), "initially_off": init_false, "deviating": bad[:3]})
    marks = [c for c in b.calls() if c.callee == FMT + "TokenMarker::mark"]
    rep.check(len(marks) >= 1 and all(canon(b, m.args[1]).endswith("@Some.0.0") for m in marks), R, "toggle:marks-this-token", "mark() is not called with the index of the token at hand", instance={"mark_calls": len(marks)})


def check_c01d(prog, rep):
    """C01.d — the text-rebuilding normalisers leave out input pieces only under guards that imply the piece is blank."""
    import strings
    strings.skip_discipline(prog, rep, "C01.d")
    # C01.e — whitespace is regenerated from counters, so whatever the lexer counts as leading whitespace must be blank
    import lexer_rules
    lexer_rules.blank_definition(prog, rep, "C01.e")
    lexer_rules.blank_scanner_stops_only_at_non_blank(prog, rep, "C01.e")


EXACT_COMPARERS = ("strip_prefix", "strip_suffix", "starts_with", "ends_with", "eq", "ne", "find", "rfind", "contains", "split_once", "rsplit_once", "matches", "trim_start_matches",
                   "trim_end_matches", "split", "cmp")


def toggle_vocabulary(prog, mod="pasfmt_core::rules::formatting_toggle::"):
    """{(word, 'exact' | 'icase')}: every string / character constant that the bodies of the toggle module (and the constant arrays
    declared in it) hand to a comparison, with the kind of comparison — wherever in the module the comparison is written.
    A module helper counts as case-insensitive when all comparisons in it (and in what it calls inside the module) are
    eq_ignore_ascii_case."""
    memo = {}

    def cls_of(callee, depth=0):
        nm = callee.split("::")[-1]
        if nm == "eq_ignore_ascii_case":
            return "icase"
        if nm in EXACT_COMPARERS and not callee.startswith(mod):
            return "exact"
        if callee.startswith(mod) and depth < 4:
            if callee in memo:
                return memo[callee]
            memo[callee] = None
            subs = set()
            for cb in [x for x in prog.bodies.values() if x.npath == callee or x.npath.startswith(callee + "::")]:
                for c in cb.calls():
                    k = cls_of(norm(c.t.get("resolved") or c.callee or ""), depth + 1)
                    if k:
                        subs.add(k)
            memo[callee] = "icase" if subs == {"icase"} else ("exact" if subs else None)
            return memo[callee]
        return None
    vocab = set()
    for b in prog.bodies.values():
        if not b.npath.startswith(mod):
            continue
        for c in b.calls():
            callee = norm(c.t.get("resolved") or c.callee or "")
            words = const_args(b, c)
            if not words:
                continue
            k = cls_of(callee)
            if k is None:
                continue        # logging / formatting / construction, not a comparison
            for w in words:
                vocab.add((w, k))
    for path, ca in prog.const_arrays.items():
        if not path.startswith(mod):
            continue
        owner = path.rsplit("::", 1)[0]
        kinds = set()
        for cb in [x for x in prog.bodies.values() if x.npath == owner or x.npath.startswith(owner + "::")]:
            for c in cb.calls():
                k = cls_of(norm(c.t.get("resolved") or c.callee or ""))
                if k and not const_args(cb, c):
                    kinds.add(k)          # a comparison whose pattern is not a literal: fed from the array
        for e in ca.get("elems", []):
            w = e.get("str") if "str" in e else ((e["char"] if isinstance(e["char"], str) else chr(e["char"])) if "char" in e else None)
            if w is not None:
                for k in (kinds or {"unused"}):
                    vocab.add((w, k))
    return vocab


def _subterms(x):
    """all sub-expressions `F(a,..)` / `F{a,..}` of a canonical expression text, as (name, [args])"""
    from table import split_call
    out, st = [], [x]
    while st:
        e = st.pop()
        e2 = e
        if e2.endswith("}") and "{" in e2 and "(" not in e2.split("{")[0]:
            i = e2.find("{")
            e2 = e2[:i] + "(" + e2[i + 1:-1] + ")"
        sc = split_call(e2)
        if sc is None:
            # strip projections `X.0@Some.0`
            m = re.match(r"^(.*[)}])[.@\w]+$", e)
            if m:
                st.append(m.group(1))
            continue
        out.append(sc)
        st.extend(sc[1])
    return out


def _layout_is_repeat(prog, n):
    import layout as _ly
    return _ly.is_repeat_push_helper(prog, n)


def asm_ignorer_marks(prog, rep, R, R2):
    """The asm ignorer, whatever its loops look like (iterator chain with closures, or `for` loops): (C07.d) every mark it makes is made
    for a line whose type was tested to be AsmInstruction — by a dominating `==` / `!=` / `matches!` test or by a `filter` with that
    predicate on the way to the marking closure — and under no other condition than that test, the iteration itself and the line
    having tokens; every token listed in the line is marked.  (C07.i) it also marks the closed span first..=last of the line:
    conditional directives written inside an instruction, and the tokens of the branch they exclude, are on other logical lines and
    would otherwise be moved to lines of their own and re-cased."""
    from panic import dominating_conditions
    ia = "<pasfmt_core::rules::ignore_asm_instructions::IgnoreAsmIstructions as pasfmt_core::traits::TokenIgnorer>::ignore_tokens"
    b = prog.body(ia)
    if not rep.check(b is not None, R, "anchor:IgnoreAsmIstructions", "IgnoreAsmIstructions::ignore_tokens not found"):
        return
    fam = [b] + [x for x in prog.bodies.values() if x.npath.startswith(ia + "::")]
    MARK = FMT + "TokenMarker::mark"

    def clos(body, a):
        return norm(body.locals[a["place"]["l"]].get("closure") or "") if a["k"] in ("copy", "move") and not a["place"]["p"] else ""

    def parent_call(x):
        """(parent body, the call that receives closure x)"""
        if "::{closure" not in x.npath:
            return None
        par = prog.body(x.npath.rsplit("::{closure", 1)[0])
        for d in (par.calls() if par is not None else []):
            if any(clos(par, a) == x.npath for a in d.args):
                return par, d
        return None

    def is_asm_pred(f):
        consts = [v for a, v in enum_variants_mentioned(f) if a.endswith("LogicalLineType")]
        return consts == ["AsmInstruction"] and any((c.target or "").endswith("PartialEq>::eq") or (c.callee or "") == "core::cmp::PartialEq::eq" for c in f.calls()) \
            and not any((c.callee or "").endswith("::ne") or (c.callee or "").endswith("Not::not") for c in f.calls())

    def classify(x, bb):
        """dominating conditions of bb in x as (asm-test?, other conditions)"""
        asm, other = False, []
        only_asm = [v for a, v in enum_variants_mentioned(x) if a.endswith("LogicalLineType")] == ["AsmInstruction"]
        for cd in dominating_conditions(x, bb):
            if cd[0] == "call" and only_asm and ((cd[1].endswith("::eq") and cd[3] is True) or (cd[1].endswith("::ne") and cd[3] is False)):
                asm = True
            elif cd[0] == "call" and (cd[1].endswith("::eq") or cd[1].endswith("::ne")) and only_asm:
                other.append("the line type is NOT AsmInstruction")
            else:
                other.append("%s %s" % (cd[1] if cd[0] == "call" else cd[0], str(cd[2:4])[:60]))
        for f in dominating_variant_facts(prog, x, bb):
            if "get_line_type(" in f[0]:
                if f[1] == "is" and f[2] == ("AsmInstruction",):
                    asm = True
                else:
                    other.append("line type %s %s" % (f[1], f[2]))
            elif re.match(r"^next\(", f[0]) or re.search(r"\b(first|last)\(", f[0]):
                continue                      # the iteration itself / the line has tokens
            else:
                other.append("%s %s %s" % (f[0][:50], f[1], f[2]))
        return asm, other

    def chain(x, bb, depth=0):
        """(asm-test found?, other conditions) accumulated from the mark site up to ignore_tokens"""
        asm, other = classify(x, bb)
        pc = parent_call(x) if depth < 4 else None
        if pc:
            par, d = pc
            it = canon(par, d.args[0]) if d.args else ""
            if "filter(" in it:
                for fc in par.calls():
                    if (fc.callee or "").endswith("Iterator::filter") and len(fc.args) == 2:
                        f = prog.body(clos(par, fc.args[1]))
                        if f is not None and is_asm_pred(f):
                            asm = True
                        elif f is not None:
                            other.append("filter with another predicate")
            a2, o2 = chain(par, d.bb, depth + 1)
            asm, other = asm or a2, other + o2
        return asm, other

    def iterated(x, c):
        a = canon(x, c.args[1])
        m = re.match(r"^\*?next\(into_iter\((.+)\)\)@Some\.0$", a)
        if m:
            return x, m.group(1)
        pc = parent_call(x)
        if a in ("arg2", "deref(arg2)", "*arg2") and pc and (pc[1].callee or "").endswith("for_each"):
            return pc[0], canon(pc[0], pc[1].args[0])
        return x, a
    marks = [(x, c) for x in fam for c in x.calls() if c.callee == MARK]
    rep.floor(R, "mark sites of the asm ignorer", len(marks), 1)
    every, span, info = [], [], []
    for x, c in marks:
        asm, other = chain(x, c.bb)
        hb, it = iterated(x, c)
        info.append(it[:120])
        rep.check(asm, R, "asm:marks-only-for-asm-lines:%s" % short(x.npath), "IgnoreAsmIstructions marks tokens without having tested that the line's type is AsmInstruction (in %s)" % short(x.npath),
                  where=c.where(), instance={"site": short(x.npath)})
        rep.check(not other, R, "asm:no-asm-line-is-skipped:%s" % short(x.npath),
                  "IgnoreAsmIstructions marks the tokens of an AsmInstruction line only under a further condition (%s): an instruction line for which it does not hold is formatted" % other[:2],
                  where=c.where(), instance={"site": short(x.npath), "conditions": other[:3]})
        core = it
        while True:
            m = re.match(r"^(?:iter|into_iter|deref|copied|cloned)\((.*)\)$", core)
            if not m:
                break
            core = m.group(1)
        if core.startswith("get_tokens("):
            every.append(c)
        if "new(" in it or "RangeInclusive" in it:
            # the closed range is built from the first and the last token of the line's own list
            og = Origins(hb)
            for rc in hb.calls():
                if (rc.callee or "").endswith("RangeInclusive::new") and len(rc.args) == 2:
                    def from_call(op, name):
                        return any(o[0] == "call" and str(o[2]).endswith(name) for o in og.of_operand(op))
                    if from_call(rc.args[0], "::first") and from_call(rc.args[1], "::last"):
                        span.append(c)
    rep.check(bool(every), R, "asm:marks-every-token-of-asm-lines", "IgnoreAsmIstructions no longer marks every token listed in the AsmInstruction line (iterated for marking: %s)" % info,
              where="%s:%d" % (b.file, b.line), instance={"iterated": info})
    rep.check(bool(span), R2, "asm:marks-the-closed-span-of-the-line",
              "IgnoreAsmIstructions marks only the tokens listed in the AsmInstruction line, not the span first..=last: a conditional directive written inside an instruction (and the excluded branch) "
              "is on a logical line of its own, is formatted (own line, upper-cased) and the instruction line is not emitted byte for byte",
              where="%s:%d" % (b.file, b.line), instance={"iterated": info})


def finished_line_type_does_not_survive(prog, rep, R):
    """finish_logical_line leaves the parser's current line untyped on every way out: either the line is pushed away and a fresh
    `Unknown` line becomes current, or (nothing to finish) the type set for it is taken back.  Otherwise the AsmInstruction type set
    before the last finish of an asm block stays on the empty current line, the closing `end;` is collected into it, is marked by
    the asm ignorer and is emitted with the input's line break and indentation instead of being formatted."""
    P = "pasfmt_core::defaults::parser::InternalDelphiLogicalLineParser::"
    LL = "pasfmt_core::defaults::parser::LocalLogicalLine"
    b = prog.inlined(P + "finish_logical_line", keep=("get_context_level", "consolidate_portability_directives", "set_logical_line_type"))
    if not rep.check(b is not None, R, "anchor:finish_logical_line", "finish_logical_line not found"):
        return
    og = Origins(b)

    def variants(op):
        out = set()
        for x in og.of_operand(op):
            out.add(str(x[3]) if x[0] == "agg" else (str(x[2]) if x[0] == "const" and len(x) > 2 else "?"))
        if op["k"] == "const" and "enum_variant" in op:
            out = {op["enum_variant"]}
        return out
    resets, other = set(), []
    for bb, i, s in b.stmts():
        if s["k"] != "assign":
            continue
        if s["dst"]["p"] and s["dst"]["p"][-1].get("k") == "field" and s["dst"]["p"][-1].get("name") == "line_type":
            vs = variants(s["rv"]["op"]) if s["rv"]["k"] == "use" else {"?"}
            (resets.add(bb) if vs and all(v.endswith("Unknown") for v in vs) else other.append((bb, sorted(vs))))
        if s["rv"]["k"] == "aggregate" and norm(s["rv"].get("adt", "")) == LL:
            k = s["rv"]["fields"].index("line_type") if "line_type" in s["rv"].get("fields", []) else None
            vs = variants(s["rv"]["ops"][k]) if k is not None else {"?"}
            (resets.add(bb) if vs and all(v.endswith("Unknown") for v in vs) else other.append((bb, sorted(vs))))
    for c in b.calls():
        if (c.target or "") == P + "set_logical_line_type":
            other.append((c.bb, ["set_logical_line_type"]))
    rets = b.return_blocks()
    leak = [r for r in rets if r in b.reach_from(0, avoid=resets, include_start=True) and 0 not in resets]
    rep.check(not leak and not other, R, "finish-leaves-the-current-line-untyped",
              "finish_logical_line can return with a line type still set on the parser's current line (%s): the type set for a line that turned out to be empty is inherited by the "
              "tokens collected next — after an asm block the closing `end;` becomes an AsmInstruction line and is emitted as written"
              % ("return reachable without `line_type = Unknown` / a fresh Unknown line" if leak else "typed store %s" % other[:2]),
              where="%s:%d" % (b.file, b.line), instance={"reset_sites": len(resets), "return_blocks": len(rets)})
    rep.floor(R, "sites in finish_logical_line that leave the current line Unknown", len(resets), 1)


def asm_lines_typed(prog, rep, R):
    """Inside parse_asm_instructions, the last event before every finish_logical_line (on every path from the entry or from the previous
    finish) is set_logical_line_type(AsmInstruction): otherwise a line of instructions is left untyped, is not marked by the asm ignorer
    and gets re-spaced and re-wrapped."""
    P = "pasfmt_core::defaults::parser::InternalDelphiLogicalLineParser::"
    b = prog.body(P + "parse_asm_instructions")
    if not rep.check(b is not None, R, "anchor:parse_asm_instructions", "parse_asm_instructions not found"):
        return

    def events_of_body(body, depth=0):
        """per block: list of 'set' / 'finish' / 'other-type' events caused by its call"""
        ev = {}
        for c in body.calls():
            tgt = c.target or ""
            if tgt == P + "set_logical_line_type":
                vs = [a.get("enum_variant") for a in c.args if a["k"] == "const"]
                if not vs:
                    o = Origins(body).of_operand(c.args[1])
                    vs = [(x[3] if x[0] == "agg" else (x[2] if x[0] == "const" else None)) for x in o]
                ev[c.bb] = ["set"] if vs == ["AsmInstruction"] or (vs and all(str(v).endswith("AsmInstruction") for v in vs)) else ["other-type"]
            elif tgt == P + "finish_logical_line":
                ev[c.bb] = ["finish"]
            else:
                # a call of one of this function's own closures: splice the closure's event sequence (straight-line closures only)
                for cal in prog.callees_of_site(c):
                    cb = prog.body(cal)
                    own_closure = cb is not None and cb.kind == "Closure" and cb.npath.startswith(b.npath + "::")
                    # .. or of a small loop-free method of the parser (the closure turned into a method)
                    small_method = cb is not None and cb.kind != "Closure" and cb.npath.startswith(P) and cb.npath != b.npath and not cb.loops() and len(cb.blocks) <= 40
                    if (own_closure or small_method) and depth < 2:
                        sub = events_of_body(cb, depth + 1)
                        if sub:
                            order = sorted(sub, key=lambda x: len(cb.dom.get(x, ())))
                            linear = all(cb.dominates(order[i], order[i + 1]) and cb.postdominates(order[i + 1], order[i]) for i in range(len(order) - 1))
                            seq = [e for bb2 in order for e in sub[bb2]]
                            ev[c.bb] = seq if linear else ["finish"]     # unknown order: treat as a finish without a preceding set
        return ev
    ev = events_of_body(b)
    fins = [bb for bb, e in ev.items() if "finish" in e]
    if not rep.check(len(fins) >= 1, R, "finish-sites", "parse_asm_instructions never finishes a logical line"):
        return
    # blocks after which the current line is typed / untyped
    typed_after = {bb for bb, e in ev.items() if e and e[-1] == "set"}
    # a finish event is fine if, within its own block's sequence, the event right before it is a set
    bad = []
    for bb in fins:
        seq = ev[bb]
        for i, e in enumerate(seq):
            if e != "finish":
                continue
            if i > 0:
                if seq[i - 1] != "set":
                    bad.append((bb, "finished right after %s" % seq[i - 1]))
                continue
            # first event of the block: every way into the block must come from a block that leaves the line typed
            starts = [("entry", 0)] + [("the line finished in bb%d" % f, s2) for f in fins for s2 in b.succ[f] if ev[f][-1] != "set"]
            for why, st in starts:
                if st == bb and why == "entry" and bb != 0:
                    continue
                if st in typed_after and st != bb:
                    continue
                if st == bb or b.can_reach_avoiding(st, {bb}, typed_after - {bb}):
                    bad.append((bb, "reachable from %s without set_logical_line_type(AsmInstruction)" % why))
                    break
    rep.check(not bad, R, "every-finished-asm-line-is-typed", "parse_asm_instructions can finish a logical line that was not given the AsmInstruction type: %s" % bad[:3],
              where="%s:%d" % (b.file, b.line), instance={"finish_sites": len(fins), "events": {str(k): v for k, v in sorted(ev.items())}})


NORMALISER_BUILDERS = ["pasfmt_core::rules::comment_contents::format_line_comment", "pasfmt_core::rules::comment_contents::format_compiler_directive"]


def check_c01f(prog, rep, R="C01.f"):
    """C01.f — the loop-free text re-assemblers append consecutive sub-slices of the token's own text that cover it completely
    (symbolic slice algebra, rules/slices.py); the only other material is blank characters, an ASCII case mapping of a piece, a whole
    copy, and truncation to trim_ascii_end."""
    import slices

    def is_content(t):
        return t[0] == "call" and t[1].endswith("::get_content") and t[2] == (("arg", 1),)

    for name in NORMALISER_BUILDERS:
        b = prog.body(name)
        if not rep.check(b is not None, R, "anchor:" + short(name), "%s not found" % short(name)):
            continue
        ev = slices.SliceEval(prog, b, is_content)
        mark = len(slices.VAR_READS)
        makers = [c for c in b.calls() if c.callee in ("alloc::string::String::with_capacity", "alloc::string::String::new")]
        onego = [c for c in b.calls() if (c.callee or "") in ("alloc::slice::concat", "alloc::slice::join", "alloc::slice::<impl [T]>::concat", "alloc::slice::<impl [T]>::join")]
        if not makers and len(onego) == 1:
            makers = onego            # the new text is assembled in one go from an array of pieces
        if not rep.check(len(makers) == 1, R, "one-builder:" + short(name), "%s builds %d strings (one reviewed)" % (short(name), len(makers))):
            continue
        pcs = slices.pieces_of_concat(prog, b, makers[0], ev) if makers == onego else slices.pieces_of(prog, b, makers[0], ev)
        # trailing blanks may be cut where the property allows it: everywhere for C01 (blanks are not protected), for C02 only in line comments
        ok, desc, problems = slices.check_partition(b, pcs, ev, allow_trailing_trim=(not R.startswith("C02") or name.endswith("format_line_comment")))
        unstable = slices.unstable_var_reads(b, mark)
        rep.check(ok and not unstable and len([p for p in pcs if p[1] != "blank"]) >= 2, R, "partition:" + short(name),
                  "the text built in %s is not a partition of the token's text: %s%s" % (short(name), "; ".join(problems), ("; variables re-assigned after being read: %s" % unstable) if unstable else ""),
                  where="%s:%d" % (b.file, pcs[0][0].line if pcs else 0), instance={"builder": short(name), "pieces": desc})
        # every other operation on a String in this body
        seen_ops = set()
        for c in b.calls():
            if c.bb == makers[0].bb:
                continue
            for ai, a in enumerate(c.args):
                if a["k"] in ("copy", "move") and not a["place"]["p"] and b.locals[a["place"]["l"]]["ty"] in ("&mut alloc::string::String", "&mut core::option::Option<alloc::string::String>", "alloc::string::String"):
                    nm = (c.callee or "?").split("::")[-1]
                    seen_ops.add(nm)
                    if nm in ("push_str", "push", "extend", "set_content", "Some", "drop", "drop_in_place"):
                        continue
                    if nm == "truncate":
                        tt = slices.t_operand(b, c.args[1], 0, (), c.bb)
                        recv = slices.t_operand(b, c.args[0], 0, (), c.bb)
                        inner = slices.blank_end_trim(prog, tt[2][0]) if tt[0] == "call" and tt[1] == "core::str::len" else None
                        good = inner is not None
                        if good:
                            while inner[0] == "call" and inner[1].split("::")[-1] in ("deref", "as_str", "deref_mut"):
                                inner = inner[2][0]
                            good = inner == recv
                        rep.check(good, R, "truncate:" + short(name), "String::truncate in %s is not a truncation of the string to itself minus blank characters (<= U+0020, U+3000) at its end, e.g. `s.truncate(s.trim_ascii_end().len())` (got %s)" % (short(name), slices.show(tt)), where=c.where(),
                                  instance={"truncate": "to trim_ascii_end of the same string"})
                        continue
                    if nm == "get_or_insert_with":
                        ct = slices.t_operand(b, c.args[1], 0, (), c.bb)
                        good = ct[0] == "agg" and ct[1].startswith("closure:") and all(is_content(x) for x in ct[2]) and len(ct[2]) == 1
                        if good:
                            cb = prog.body(ct[1][len("closure:"):])
                            calls = [x.callee for x in cb.calls()] if cb is not None else []
                            good = calls in (["alloc::string::ToString::to_string"], ["alloc::borrow::ToOwned::to_owned"], ["core::convert::From::from"], ["alloc::string::String::from"])
                        rep.check(good, R, "whole-copy:" + short(name), "the fallback value in %s is not a whole copy of the token's text" % short(name), where=c.where(), instance={"fallback": "content.to_string()"})
                        continue
                    rep.fail(R, "string-op:%s:%s" % (short(name), nm), "unreviewed operation %s on a String in %s" % (c.callee, short(name)), where=c.where())
        rep.ok(R, {"builder": short(name), "string_ops": sorted(seen_ops)})
        # what reaches set_content is one of these strings
        for c in b.calls_to("pasfmt_core::lang::Token::set_content"):
            o = Origins(b).of_operand(c.args[1])
            src = set()
            for x in o:
                if x[0] == "call" and x[1] == makers[0].bb:
                    src.add("built")
                elif x[0] == "agg" and x[3].endswith("Option::Some"):
                    oo = Origins(b).of_operand(b.blocks[x[1]]["stmts"][x[2]]["rv"]["ops"][0]) if x[2] != "term" else set()
                    src |= {"built" if (y[0] == "call" and y[1] == makers[0].bb) else str(y) for y in oo}
                elif x[0] == "agg" and x[3].endswith("Option::None"):
                    src.add("none(filled by the whole-copy fallback)")
                elif x[0] == "call" and x[2].endswith("get_or_insert_with"):
                    src.add("none(filled by the whole-copy fallback)")
                else:
                    src.add(str(x))
            rep.check(src <= {"built", "none(filled by the whole-copy fallback)"} and "built" in src, R, "set_content-source:" + short(name), "set_content in %s receives %s" % (short(name), sorted(src)), where=c.where(),
                      instance={"builder": short(name), "set_content_from": sorted(src)})


ITEMWISE_COMPARERS = ("all_equal", "all_equal_value", "dedup", "dedup_by", "dedup_by_key", "eq", "ne", "cmp", "partial_cmp", "lt", "le", "gt", "ge", "max", "min",
                      "is_sorted", "all_unique", "duplicates", "unique", "tuple_windows", "position_max", "position_min")


def characters_compared_as_characters(prog, rep, R, prefixes=("pasfmt_core::rules::comment_contents::",)):
    """C02.j — the normalisers decide on *characters*: a separator line is a run of one repeated character, a comment already
    spaced is one whose first character is a blank.  Looking at the UTF-8 bytes instead gives the same answer only for tests of a
    byte against an ASCII constant / ASCII class (a byte < 0x80 never occurs inside a multi-byte sequence), lengths, and
    whole-slice equality.  So, in these bodies: (1) every comparison of a single byte (MIR binop on u8, or PartialEq/Ord on
    u8 / &u8) has an ASCII constant on one side; (2) library calls that compare the items of an iterator with each other
    (all_equal, dedup, eq, max, ...) run over chars, never over bytes."""
    n = 0
    bad = []

    def place_ty(b, pl):
        ty = b.local_ty(pl["l"]) or ""
        for pe in pl["p"]:
            if pe["k"] == "deref":
                ty = ty[5:] if ty.startswith("&mut ") else ty.lstrip("&")
            elif pe["k"] == "field" and pe.get("ty"):
                ty = pe["ty"]
            elif pe["k"] in ("index", "constindex"):
                ty = ty.strip("[]").split(";")[0]
            else:
                return ty
        return ty.strip()

    def op_ty(b, o):
        return "const" if o["k"] == "const" else place_ty(b, o["place"])

    def ascii_const(b, o):
        if o["k"] == "const":
            return isinstance(o.get("int"), int) and 0 <= o["int"] < 0x80
        vs = {x for x in Origins(b).of_operand(o)}
        return bool(vs) and all(x[0] == "const" and x[1] == "int" and 0 <= x[2] < 0x80 for x in vs)
    for b in prog.bodies.values():
        if not b.npath.startswith(prefixes):
            continue
        for bb, i, s in b.stmts():
            if s["k"] == "assign" and s["rv"]["k"] == "binop" and s["rv"]["op"] in ("Eq", "Ne", "Lt", "Le", "Gt", "Ge"):
                a, c = s["rv"]["a"], s["rv"]["b"]
                tys = [op_ty(b, a), op_ty(b, c)]
                if "u8" not in tys:
                    continue
                n += 1
                if not (ascii_const(b, a) or ascii_const(b, c)):
                    bad.append("%s:%s: a byte of the text is compared with %s" % (short(b.npath), s.get("line"), "another byte" if tys.count("u8") == 2 else "a non-ASCII constant"))
        for c in b.calls():
            nm = (c.callee or "").split("::")[-1]
            cargs = [str(x) for x in c.t.get("callee_args", [])]
            if (c.callee or "").startswith(("core::cmp::PartialEq::", "core::cmp::PartialOrd::", "core::cmp::Ord::")) and cargs and all(x.replace("&", "").strip() == "u8" for x in cargs[:2]):
                n += 1
                if not any(ascii_const(b, a) for a in c.args):
                    bad.append("%s:%s: bytes of the text are compared with each other (%s)" % (short(b.npath), c.line, nm))
            elif nm in ITEMWISE_COMPARERS and (c.callee or "").startswith(("core::iter::", "itertools::")):
                n += 1
                if cargs and ("Bytes" in cargs[0] or "u8" in cargs[0]):
                    bad.append("%s:%s: %s over the bytes of the text compares encoded bytes, not characters" % (short(b.npath), c.line, nm))
    rep.check(not bad, R, "characters-compared-as-characters", "a normaliser compares UTF-8 bytes of the token's text with each other: the answer then depends on how a character is encoded "
              "(`//══════════` is a run of one character but not of one byte, so it stops being a separator line and gets a space inserted): %s" % bad[:3],
              instance={"byte_or_item_comparisons": n, "violating": bad[:5]})
    rep.floor(R, "byte / item comparisons in the text normalisers", n, 19)


def documented_normalisations(prog, rep, R):
    """C02.h — token text changes only through the documented normalisations, each applied to its own token kind:
    who calls set_content, under which token-type facts, and what each caller hands over."""
    normaliser_values(prog, rep, R)
    check_c01f(prog, rep, R)
    import strings
    strings.skip_discipline(prog, rep, R)


def merge_key_is_the_whole_line(prog, rep, R):
    """C07.k — "the instruction lines of asm blocks are emitted byte for byte": the lines that the conditional-directive passes produce are
    merged by value in consolidate_pass_lines (a hash map keyed by the line).  Two passes that reach the same tokens with a different
    line type (a statement in the `begin` branch, an asm instruction in the `asm` branch) have produced two different lines, and both
    must survive: the asm-typed one is what IgnoreAsmInstructions marks.  Equality and hash of the key type therefore look at every field
    of the line — a key that leaves out the line type keeps the first-seen version only."""
    cp = prog.body("pasfmt_core::defaults::parser::consolidate_pass_lines")
    if not rep.check(cp is not None, R, "anchor:consolidate_pass_lines", "consolidate_pass_lines not found"):
        return
    key = None
    for l in cp.locals[1:cp.arg_count + 1]:
        m = re.search(r"HashMap<([\w:]+)", l["ty"])
        if m:
            key = norm(m.group(1))
    adt = prog.local_adts.get(key or "")
    if not rep.check(adt is not None, R, "anchor:merge-key-type", "the key type of the map consolidate_pass_lines merges lines in was not found (%s)" % key):
        return
    fields = [f["name"] for v in adt["variants"] for f in v.get("fields", [])]
    bad = []
    for trait, fn in (("core::cmp::PartialEq", "eq"), ("core::hash::Hash", "hash")):
        n = "<%s as %s>::%s" % (key, trait, fn)
        b = prog.body(n)
        if b is None:
            bad.append("%s::%s of %s not found" % (trait.split("::")[-1], fn, short(key)))
            continue
        fam = {n} | {x.npath for x in prog.closures_of(n)}
        for f in fields:
            acc = [a for a in prog.field_accesses(key, f, within=fam) if a[3] in ("read", "ref")]
            need = 2 if fn == "eq" else 1
            if len(acc) < need:
                bad.append("%s does not look at `%s`" % (fn, f))
    rep.check(not bad, R, "merge-key=every-field-of-the-line",
              "lines of different conditional-directive passes are merged by a key that is not the whole line: %s — two passes that type the same tokens differently (statement / asm instruction) "
              "are collapsed into the first-seen line, and the asm instruction is then formatted as Pascal" % bad[:3],
              where="%s:%d" % (adt["loc"]["file"], adt["loc"]["line"]), instance={"key": short(key), "fields": fields, "deviations": bad[:4]})


def normaliser_values(prog, rep, R):
    """C02.h / C01.i — who calls set_content, under which token-type facts, and what each caller hands over: keyword lower-casing hands
    over the case-mapped text of that same token (not a spelling looked up elsewhere: a lookup that matches more than the exact word
    replaces other characters than letter case), the comment helpers are reached only for their own token kinds."""
    from progress import dominating_variant_facts
    callers, extra, missing = set_content_callers(prog)
    rep.check(not extra and not missing, R, "who-calls:set_content", "token text is replaced outside the reviewed normalisers: unexpected %s, missing %s"
              % (sorted(short(x) for x in extra), sorted(short(x) for x in missing)), instance={"callers": sorted(short(x) for x in callers)})
    # keywords: lower-casing of the token's own text, on Keyword tokens only
    kw = [b for b in prog.bodies.values() if b.npath.endswith("LowercaseKeywords as pasfmt_core::traits::LogicalLineFileFormatter>::format")]
    if rep.check(len(kw) == 1, R, "anchor:LowercaseKeywords::format", "LowercaseKeywords::format not found"):
        from util import family_bodies as _fb
        nset = 0
        for b, _anchor, _chain in _fb(prog, kw[0]):
          for c in b.calls_to(SET_CONTENT):
            nset += 1
            val = canon(b, c.args[1])
            fx = [f for f in dominating_variant_facts(prog, b, c.bb) if "get_token_type(" in f[0]]
            only_kw = any(f[1] == "is" and f[2] and f[2][0] == "Keyword" for f in fx)
            same_tok = False
            if val.startswith("to_ascii_lowercase(get_content("):
                from panic import source_place, place_eq
                og = Origins(b)
                lows = [x for x in og.of_operand(c.args[1]) if x[0] == "call" and x[2].endswith("to_ascii_lowercase")]
                for lw in lows:
                    lsite = [s for s in b.calls() if s.bb == lw[1]][0]
                    gets = [x for x in og.of_operand(lsite.args[0]) if x[0] == "call" and x[2].endswith("get_content")]
                    for g in gets:
                        gsite = [s for s in b.calls() if s.bb == g[1]][0]
                        o1, o2 = og.of_operand(gsite.args[0]), og.of_operand(c.args[0])
                        # the same token: the element of the traversal, or the token parameter of the extracted per-token step
                        same_tok = o1 == o2 and len(o1) == 1 and all((x[0] == "call" and x[2].endswith("::next")) or x[0] == "param" for x in o1)
            rep.check(only_kw and same_tok, R, "keyword-lowercase", "LowercaseKeywords replaces text with %s under %s (expected to_ascii_lowercase of the same token's text, on Keyword tokens)" % (val, fx), where=c.where(),
                      instance={"value": "to_ascii_lowercase(own text)", "token_types": "Keyword"})
        rep.floor(R, "set_content sites of the keyword normaliser", nset, 1)
    # comments / directives: each helper is reached only for its own token kinds
    cf = [b for b in prog.bodies.values() if b.npath.endswith("CommentFormatter as pasfmt_core::traits::LogicalLineFileFormatter>::format")]
    if rep.check(len(cf) == 1, R, "anchor:CommentFormatter::format", "CommentFormatter::format not found"):
        b = cf[0]
        want = {"format_line_comment": ({"Comment"}, {"InlineLine", "IndividualLine"}), "format_compiler_directive": ({"CompilerDirective", "ConditionalDirective"}, None)}
        for helper, (outer, inner) in want.items():
            sites = [c for c in b.calls() if (c.callee or "").endswith("comment_contents::" + helper)]
            good = len(sites) == 1
            seen = None
            if not good:
                # the dispatch extracted into a function / closure of the formatter's family: its decision table says for which kinds the
                # helper is called (boolean helpers such as CommentKind::is_singleline expanded)
                from util import family_bodies
                from table import Table as _T, TooComplex as _TC
                for d_body, _anchor, _chain in family_bodies(prog, b):
                    if d_body is b or not any((c.callee or "").endswith("comment_contents::" + helper) for c in d_body.calls()):
                        continue
                    try:
                        td = _T(prog, d_body, inline=1, opaque=tuple(want))
                    except _TC:
                        continue
                    o, i = set(), set()
                    for (cons, res), calls in zip(td.rows, td.calls):
                        if not any(n.endswith("comment_contents::" + helper) for n, _a in calls):
                            continue
                        for c in cons:
                            if c[0] in ("is", "in") and ("token_type" in str(c[1])):
                                vals = {c[2]} if c[0] == "is" else set(c[2])
                                if "@Comment" in str(c[1]):
                                    i |= vals
                                elif "@" not in str(c[1]).split("token_type")[-1]:
                                    o |= vals
                    seen = (sorted(o), sorted(i))
                    good = o == outer and (inner is None or i == inner)
                    break
            elif good:
                fx = dominating_variant_facts(prog, b, sites[0].bb)
                o = set()
                i = set()
                for f in fx:
                    if f[1] in ("is", "in") and "get_token_type(" in f[0]:
                        if "@Comment" in f[0]:
                            i |= set(f[2])
                        else:
                            o |= set(f[2])
                seen = (sorted(o), sorted(i))
                good = o == outer and (inner is None or i == inner)
            rep.check(good, R, "dispatch:" + helper, "%s is applied to tokens of kinds %s (expected %s%s)" % (helper, seen, sorted(outer), "/" + str(sorted(inner)) if inner else ""),
                      instance={"helper": helper, "kinds": seen})
        others = {(c.callee or "").split("::")[-1] for c in b.calls() if "comment_contents::" in (c.callee or "")} - set(want)
        rep.check(not others, R, "dispatch:closed", "CommentFormatter::format calls further text helpers: %s" % sorted(others))


PROPERTIES = {
    "C01": (check_c01,
            "Structural clauses of C01: (a) the output is assembled by one for_each over FormattedTokens::tokens() (= tokens.iter().zip(fmt), no adapter); per token exactly one "
            "push of that token's get_content() on every path, every other push is blank material (newline/indent/continuation strings, the original leading whitespace, ' '), "
            "and nothing else mutates the buffer; (b) token text can change only in Token::set_content, called only by the four reviewed normalisers; tokens are constructed only "
            "by the lexer path; no whole-token overwrite/swap; the only sequence operations on token vectors are iteration/get/len, push in the lexer and retain in "
            "delete_marked_tokens; (c) no TokenRemover exists or is registered and deletion is guarded by any_marked(). "
            "(e) what the lexer counts as a token's leading whitespace is exactly the blank set; (f) symbolic slice algebra: format_line_comment and format_compiler_directive append consecutive sub-slices of the token's own text covering it completely, plus blanks / an ASCII case map / a whole copy / truncation to trim_ascii_end. "
            "Not decided: that try_rewrite_string keeps every character of every pushed line (loop invariant); lexer value-level losslessness (see C13). Added in round 7: (h) nothing is lost at the output boundary: no Write::write (partial write) in the pasfmt crates (shared with C16.i).", []),
    "C07": (check_c07,
            "Structural clauses of C07: (a) the only doors to `&mut Token` in FormattedTokens go through map_tok_ignored, whose decision table is Err(TokenIgnored) iff is_ignored; "
            "(b) the ignored flag is constructor-only, marks are never removed, the marker the ignorers fill is the one FormattedTokens is built from, before any formatter runs; "
            "(c) reconstruct's ignored arm pushes only the safety-net newline and the original leading whitespace (on every path) and reads no counter; (d) both ignorers are "
            "registered, every token of every AsmInstruction line is marked, the wrapper skips such lines; (e) whole-line voiding requires all tokens ignored; "
            "(f) toggle recognition constants and grammar; (g) every logical line finished in parse_asm_instructions is typed AsmInstruction on every path. Not decided: region extent as a function of comment text beyond these constants. Added later: (h) child lines of voided lines are still laid out; (i) the asm ignorer marks the closed span first..=last of every instruction line; (j) a line type does not survive finish_logical_line; (c) is per-path: {[safety-net line break] original whitespace}; (f) marks an On comment iff a region was open.", []),
}
