"""Helpers shared by the per-property rule modules."""
from facts import norm, Origins, IDENTITY_CALLEES, _rv_operands, _term_operands
from table import canon_operand, canon_place

ERR_ADAPTERS = {
    "anyhow::Context::with_context", "anyhow::Context::context",
    "anyhow::context::with_context", "anyhow::context::context",
    "core::result::Result::map_err", "core::result::Result::inspect_err",
    "core::ops::try_trait::Try::branch",
}
TRY_BRANCH = "core::ops::try_trait::Try::branch"
FROM_RESIDUAL = "core::ops::try_trait::FromResidual::from_residual"


def origins(body, extra=()):
    return Origins(body, extra_identity=set(ERR_ADAPTERS) | set(extra))


def canon(body, op):
    return canon_operand(body, op, {})


def call_result_users(body, site, extra_identity=()):
    """Call sites / statements that consume the value produced by `site` (through identity adapters)."""
    og = origins(body, extra_identity)
    users = []
    for c in body.calls():
        if c.bb == site.bb:
            continue
        for a in c.args:
            if a["k"] in ("copy", "move"):
                if any(o[0] == "call" and o[1] == site.bb for o in og.of_operand(a)):
                    users.append(c)
                    break
    return users


def question_propagated(body, site):
    """`site(..)?`: the result reaches Try::branch and the Break arm returns from_residual."""
    for u in call_result_users(body, site):
        if u.callee == TRY_BRANCH:
            return True
    # Try::branch is in the identity set, so look at it directly: some Try::branch call has the site among its arg origins
    og = Origins(body, extra_identity=set(ERR_ADAPTERS) - {TRY_BRANCH})
    for c in body.calls():
        if c.callee == TRY_BRANCH and c.args and c.args[0]["k"] in ("copy", "move"):
            if any(o[0] == "call" and o[1] == site.bb for o in og.of_operand(c.args[0])):
                return True
    return False


def local_reads(body, l):
    """(bb, what) for every read of local l (operands, refs, discriminant reads, call args), drops excluded."""
    out = []
    for bb, i, s in body.stmts():
        if s["k"] != "assign":
            continue
        rv = s["rv"]
        for op in _rv_operands(rv):
            if op["k"] in ("copy", "move") and (op["place"]["l"] == l or any(pe["k"] == "index" and pe["local"] == l for pe in op["place"]["p"])):
                out.append((bb, "operand"))
        if rv["k"] in ("ref", "rawptr", "discr") and rv["place"]["l"] == l:
            out.append((bb, rv["k"]))
        if s["dst"]["l"] == l and s["dst"]["p"]:
            out.append((bb, "partial-store"))
    for bb in sorted(body.reachable()):
        t = body.blocks[bb]["term"]
        for op in _term_operands(t):
            if op["k"] in ("copy", "move") and op["place"]["l"] == l:
                out.append((bb, "term"))
    return out


def result_consumed(body, site):
    """The Result produced by the call is used (matched, propagated, passed on or returned), not dropped."""
    dst = site.t["dst"]
    if dst["l"] == 0:
        return True
    return bool(local_reads(body, dst["l"]))


def ok_return_blocks(body):
    """blocks that assign `_0 = Result::Ok{..}` (or Option::Some)"""
    out = []
    for bb, i, s in body.stmts():
        if s["k"] == "assign" and s["dst"]["l"] == 0 and not s["dst"]["p"] and s["rv"]["k"] == "aggregate" \
                and s["rv"].get("agg") == "adt" and s["rv"].get("variant") in ("Ok",):
            out.append(bb)
    return out


def bool_conditions(prog, body, bb):
    from panic import dominating_conditions
    return dominating_conditions(body, bb)


def short(n):
    return (n or "").replace("pasfmt_core::defaults::", "").replace("pasfmt_core::rules::", "").replace("pasfmt_core::", "") \
        .replace("pasfmt_orchestrator::", "orch::")


def enum_variants_mentioned(body):
    """variant names that the body constructs or refers to as constants: aggregates `E::V{}` and promoted `&E::V`."""
    out = []
    for bb, i, s in body.stmts():
        if s["k"] != "assign":
            continue
        rv = s["rv"]
        if rv["k"] == "aggregate" and rv.get("agg") == "adt" and not rv["ops"]:
            out.append((norm(rv["adt"]), rv["variant"]))
        for op in _rv_operands(rv):
            if op["k"] == "const" and "enum_variant" in op:
                out.append((norm(op.get("adt", "")), op["enum_variant"]))
    for c in body.calls():
        for op in c.args:
            if op["k"] == "const" and "enum_variant" in op:
                out.append((norm(op.get("adt", "")), op["enum_variant"]))
    return out


def const_args(body, site):
    """string/char constants reaching the arguments of a call (through copies)"""
    og = Origins(body)
    out = []
    for a in site.args:
        for x in og.of_operand(a):
            if x[0] == "const" and x[1] in ("str", "char"):
                out.append(x[2] if x[1] == "str" else chr(x[2]))
    return out


def whole_value_stores(prog, type_name, crates=("pasfmt",)):
    """Program points that overwrite a whole value of ADT `type_name` through a reference / element place (`*r = v`, `v[i] = x`) or hand a
    `&mut T` to a function (swap/replace/take/clone_from ...): [(body, where, what)].  Field stores are not reported."""
    short_ty = type_name.split("::")[-1]
    out = []
    for b in prog.bodies.values():
        if not any(b.crate.startswith(c) for c in crates):
            continue
        for bb, i, s in b.stmts():
            if s["k"] == "assign" and s["dst"]["p"] and s["dst"]["p"][-1]["k"] in ("deref", "index", "constant_index"):
                ty = b.locals[s["dst"]["l"]]["ty"]
                inner = ty.replace("&mut ", "").replace("&", "").strip()
                if inner == type_name or inner.endswith("::" + short_ty) or inner == short_ty or ("<" + type_name + ">") in ty or ("[" + type_name + "]") in ty:
                    out.append((b, "%s:%d" % (b.file, abs(s.get("line", 0))), "store `*place = value`"))
        for c in b.calls():
            for a in c.args:
                if a["k"] in ("copy", "move") and not a["place"]["p"] and b.locals[a["place"]["l"]]["ty"] in ("&mut " + type_name,):
                    out.append((b, c.where(), "call %s(&mut %s)" % ((c.callee or "?"), short_ty)))
    return out


def small_value_class(prog, body, rv, _depth=0):
    """Abstract value of a stored u16 expression: a set of descriptors — ints, "[a,b]" for a clamp to constants, "min(_,k)", or the
    canonical text for anything else.  Calls of small loop-free workspace helpers are expanded through their decision table (so
    `clamp_helper(first, old)` with rows {1, 1, 2} is the set {1, 2})."""
    import re as _re
    from table import Table, TooComplex, render
    if rv["k"] == "use" and rv["op"]["k"] == "const" and "int" in rv["op"]:
        return {rv["op"]["int"]}
    if rv["k"] not in ("use", "cast"):
        return {"?" + rv["k"]}
    op = rv["op"]
    # a local assigned on several paths (`x = if c { a } else { b }`): the union of what each assignment can store
    if op["k"] in ("copy", "move") and not op["place"]["p"] and _depth < 3:
        ds = [d for d in body.defs.get(op["place"]["l"], []) if d[0] in ("assign", "call")]
        if len(ds) == 1 and ds[0][0] == "assign" and ds[0][3]["k"] == "assign" and ds[0][3]["rv"]["k"] in ("use", "cast") \
                and ds[0][3]["rv"]["op"]["k"] in ("copy", "move") and not ds[0][3]["rv"]["op"]["place"]["p"]:
            inner = small_value_class(prog, body, ds[0][3]["rv"], _depth + 1)
            if not any(isinstance(v, str) and (v == "tmp" or v.startswith("var:")) for v in inner):
                return inner
        if len(ds) > 1:
            out = set()
            for d in ds:
                if d[0] == "assign" and d[3]["k"] == "assign":
                    out |= small_value_class(prog, body, d[3]["rv"], _depth + 1)
                elif d[0] == "call":
                    t = d[2]
                    cal = norm(t.get("resolved") or t.get("callee") or "")
                    ints = [a.get("int") for a in t["args"][1:] if a["k"] == "const"]
                    if cal.split("::")[-1] == "clamp" and len(ints) == 2 and None not in ints:
                        out.add("[%s,%s]" % (ints[0], ints[1]))
                    elif cal.split("::")[-1] == "min" and len(ints) == 1 and ints[0] is not None:
                        out.add("min(_,%s)" % ints[0])
                    else:
                        out.add("call:" + cal.split("::")[-1])
                else:
                    out.add("?def")
            return out
    c = canon(body, op)
    m = _re.match(r"^clamp\(.*,(\d+),(\d+)\)$", c)
    if m:
        return {"[%s,%s]" % (m.group(1), m.group(2))}
    m = _re.match(r"^min\(.*,(\d+)\)$", c)
    if m:
        return {"min(_,%s)" % m.group(1)}
    if op["k"] in ("copy", "move") and not op["place"]["p"]:
        ds = [d for d in body.defs.get(op["place"]["l"], []) if d[0] in ("assign", "call")]
        if len(ds) == 1 and ds[0][0] == "call":
            t = ds[0][2]
            callee = prog.body(norm(t.get("resolved") or t.get("callee") or ""))
            if callee is not None and callee.crate.startswith("pasfmt") and not callee.loops() and len(callee.blocks) < 80:
                try:
                    tb = Table(prog, callee, inline=1)
                except TooComplex:
                    tb = None
                if tb is not None and tb.rows:
                    out = set()
                    for _, res in tb.rows:
                        r = render(res)
                        if _re.match(r"^\d+$", r):
                            out.add(int(r))
                        else:
                            m2 = _re.match(r"^call:clamp\(.*,(\d+),(\d+)\)$", r) or _re.match(r"^clamp\(.*,(\d+),(\d+)\)$", r)
                            out.add("[%s,%s]" % (m2.group(1), m2.group(2)) if m2 else r)
                    return out
    return {c}


def within(values, lo, hi):
    """every descriptor of small_value_class lies in [lo, hi]"""
    import re as _re
    for v in values:
        if isinstance(v, int):
            if not lo <= v <= hi:
                return False
            continue
        m = _re.match(r"^\[(\d+),(\d+)\]$", str(v))
        if m and lo <= int(m.group(1)) and int(m.group(2)) <= hi:
            continue
        return False
    return bool(values)


def fnptr_targets(prog, body, site):
    """The functions an indirect call `site` (callee None, `func` a local fn pointer) can reach, when that is decidable from the shape of
    the code: the pointer is a reified fn item (`f as fn(..)`) assigned locally, or the result of a workspace function all of whose
    returns are reified fn items (`fn token_lexer(&self) -> fn(..) { if c { a } else { b } }`).  None when it is anything else."""
    f = site.t.get("func")
    if not f or f["k"] not in ("copy", "move"):
        return None

    def reified(b, l, depth=0):
        out = set()
        for d in b.defs.get(l, []):
            if d[0] == "assign" and d[3]["k"] == "assign":
                rv = d[3]["rv"]
                if rv["k"] == "cast" and "ReifyFnPointer" in rv.get("cast", "") and rv["op"]["k"] == "const" and rv["op"].get("fn"):
                    out.add(norm(rv["op"]["fn"]))
                elif rv["k"] == "use" and rv["op"]["k"] in ("copy", "move") and not rv["op"]["place"]["p"] and depth < 4:
                    r = reified(b, rv["op"]["place"]["l"], depth + 1)
                    if r is None:
                        return None
                    out |= r
                else:
                    return None
            elif d[0] == "call":
                cal = prog.body(norm(d[2].get("resolved") or d[2].get("callee") or ""))
                if cal is None or not cal.crate.startswith("pasfmt") or depth >= 4:
                    return None
                r = reified(cal, 0, depth + 1)
                if r is None:
                    return None
                out |= r
            else:
                return None
        return out or None
    return reified(body, f["place"]["l"])


def family_bodies(prog, root, depth=2):
    """`root`, its closures and the workspace functions they call (up to `depth` levels): [(body, anchor block in root or None for root
    itself, [(body_i, call_i), ..] the calls that lead from root down to it)].  The anchor of a closure is the block of root that hands it
    to something (the adapter or the function that will run it); of a helper, the block of its call."""
    out = [(root, None, [])]
    seen = {root.npath}

    def scan(body, anchor_of, chain, d):
        if d <= 0:
            return
        for c in body.calls():
            a = anchor_of(c)
            cb = prog.body(c.resolved or c.callee or "")
            if cb is not None and cb.crate.startswith("pasfmt") and cb.kind != "Closure" and cb.npath not in seen:
                seen.add(cb.npath)
                out.append((cb, a, chain + [(body, c)]))
                scan(cb, lambda _c, a=a: a, chain + [(body, c)], d - 1)
            for arg in c.args:
                k = None
                if arg["k"] in ("copy", "move") and not arg["place"]["p"]:
                    clos = body.locals[arg["place"]["l"]].get("closure")
                    k = prog.body(norm(clos)) if clos else None
                elif arg["k"] == "const" and arg.get("fn"):
                    k = prog.body(norm(arg["fn"]))                 # a function item handed over: `iter.for_each(step)`
                    if k is not None and not k.crate.startswith("pasfmt"):
                        k = None
                if k is not None and k.npath not in seen:
                    seen.add(k.npath)
                    out.append((k, a, chain + [(body, c)]))
                    scan(k, lambda _c, a=a: a, chain + [(body, c)], d - 1)
    scan(root, lambda c: c.bb, [], depth)
    return out


def family_calls(prog, root, pred, depth=2):
    """Calls satisfying `pred(call)` made by `root`, by its closures, or by workspace functions they call (up to `depth` levels):
    [(anchor block in root, [(body, call), ..] from the root level down to the call itself)].  Lets ORDER rules written on root's CFG see
    through `iter.filter_map(|x| ..)` and helper extraction: what a closure or helper does happens `at` its anchor."""
    out = []
    for body, anchor, chain in family_bodies(prog, root, depth):
        for c in body.calls():
            if pred(c):
                out.append((c.bb if anchor is None else anchor, chain + [(body, c)]))
    return out
