"""C03 — idempotence: structural necessary conditions only.

The fixpoint relation itself (format(format(x)) == format(x)) is a statement about two executions and is NOT decided here.
What is decided are the mechanisms the property is anchored in, each of which must hold for the output to be a fixpoint:

  C03.a  the text normalisers are projections at the places where that is visible in the code: the blank that the line-comment
         normaliser inserts is accepted by every blank test with which the normaliser decides whether to insert one;
  C03.b  `unchanged` is exact text equality, in files mode (skip the write) and in check mode (the verdict), on the same pair
         (decoded input, formatter output) — shared with C16.e / C09.g;
  C03.c  every pass that can replace a token's text is registered before the pass that measures the text to wrap lines
         (otherwise the second run measures other widths than the first);
  C03.d  inside the wrapping pass, what was measured before the multi-line strings were rewritten is measured again before the
         lines are wrapped again, every rewrite is reported, and the line-start blanks are removed after the last wrapping
         (shared with C09.d, C11.e, C02.g);
  C03.e  the only layout fact of the input that survives into the output of a wrapped line — the blank-line group before it — is
         stored as clamp(_, 1, 2) of itself, a projection (shared with C06.a).
"""
import re

from facts import norm, Origins
from util import canon, short, const_args
from table import CHAR_MODELS

CC = "pasfmt_core::rules::comment_contents::"
SET_CONTENT = "pasfmt_core::lang::Token::set_content"


from engine import AliasReport


def c03a(prog, rep):
    R = "C03.a"
    b = prog.body(CC + "format_line_comment")
    if not rep.check(b is not None, R, "anchor:format_line_comment", "format_line_comment not found"):
        return
    fam = [b] + [x for x in prog.bodies.values() if x.npath.startswith(b.npath + "::")]
    for c in b.calls():
        cb = prog.body(norm(c.t.get("resolved") or c.callee or ""))
        if cb is not None and cb.npath.startswith(CC) and cb not in fam:
            fam.append(cb)
            fam += [x for x in prog.bodies.values() if x.npath.startswith(cb.npath + "::")]
    inserted = set()
    for x in fam:
        for c in x.calls():
            nm = (c.callee or "").split("::")[-1]
            if c.callee in ("alloc::string::String::push", "alloc::string::String::push_str", "alloc::string::String::insert", "alloc::string::String::insert_str"):
                for v in const_args(x, c):
                    inserted |= {ord(ch) for ch in v}
        # texts assembled in one go: constant pieces of the array
        for bb, i, s in x.stmts():
            if s["k"] == "assign" and s["rv"]["k"] == "aggregate" and s["rv"].get("agg") == "array":
                for op in s["rv"]["ops"]:
                    for o in Origins(x).of_operand(op):
                        if o[0] == "const" and o[1] == "str":
                            inserted |= {ord(ch) for ch in o[2]}
    guards = []
    for x in fam:
        for c in x.calls():
            nm = (c.callee or "").split("::")[-1]
            if nm in CHAR_MODELS and ("char" in (c.callee or "") or "num" in (c.callee or "") or "ascii" in (c.callee or "")):
                guards.append(("class", nm, short(x.npath)))
        for bb, i, s in x.stmts():
            if s["k"] == "assign" and s["rv"]["k"] == "binop" and s["rv"]["op"] in ("Eq", "Ne"):
                a, c2 = s["rv"]["a"], s["rv"]["b"]
                for k, o in ((a, c2), (c2, a)):
                    if k["k"] == "const" and isinstance(k.get("int"), int) and o["k"] in ("copy", "move"):
                        ty = x.local_ty(o["place"]["l"]) or ""
                        if ty.replace("&", "").strip() in ("u8", "char") or o["place"]["p"]:
                            if 0 < k["int"] < 0x80 and k["int"] != 10:      # (10 = the separator length threshold is a usize compare, excluded by the type test)
                                guards.append(("equals", k["int"], short(x.npath)))
    bad = []
    for ch in sorted(inserted):
        for g in guards:
            okg = CHAR_MODELS[g[1]](ch) if g[0] == "class" else (ch == g[1])
            if not okg:
                bad.append("the inserted U+%04X is not accepted by the blank test %s in %s" % (ch, g[1] if g[0] == "class" else "== %d" % g[1], g[2]))
    rep.check(not bad, R, "inserted-blank-satisfies-the-insertion-guard",
              "the line-comment normaliser inserts a character after the slashes that its own `is there a blank already?` test does not accept: the second run inserts another one (%s)" % bad[:2],
              where="%s:%d" % (b.file, b.line), instance={"inserted": ["U+%04X" % c for c in sorted(inserted)], "blank_tests": sorted({str(g[1]) for g in guards})})
    rep.floor(R, "characters inserted by the line-comment normaliser", len(inserted), 1)
    rep.floor(R, "blank tests in the line-comment normaliser", len(guards), 1)


TRAILING_TRIMMERS = ("trim_ascii_end", "trim_end", "trim_ascii", "trim", "trim_end_matches", "trim_right", "trim_right_matches")
TRANSPARENT_VIEWS = ("chars", "bytes", "as_bytes", "char_indices", "deref", "iter", "into_iter", "as_str", "as_ref", "borrow")
PREFIX_ONLY = ("next", "first", "starts_with", "strip_prefix", "split_at_checked", "first_chunk", "split_first")


def c03j(prog, rep):
    """C03.j — the line-comment normaliser removes trailing blanks and inserts a blank after the slashes unless a test on the comment's
    text says otherwise (it is a separator line ..).  For the result to be a fixpoint, such a test gives the same answer for the text
    as it is and for the text as the normaliser leaves it: in every bool helper of the normaliser that takes the comment text, a
    property of the whole text (its length, all its characters, its end) is measured on the text with the trailing blanks removed
    (`trim_ascii_end` ..); the untrimmed text is only trimmed, or looked at from the front (`chars().next()`, `starts_with`).  A length
    threshold taken before trimming accepts `//-----     ` as a separator in the first run and not `//-----` in the second."""
    R = "C03.j"
    b = prog.body(CC + "format_line_comment")
    if not rep.check(b is not None, R, "anchor:format_line_comment", "format_line_comment not found"):
        return
    fam = [x for x in prog.bodies.values() if x.npath.startswith(b.npath + "::")]
    for c in b.calls():
        cb = prog.body(norm(c.t.get("resolved") or c.callee or ""))
        if cb is not None and cb.npath.startswith(CC) and cb not in fam and cb is not b:
            fam.append(cb)
            fam += [x for x in prog.bodies.values() if x.npath.startswith(cb.npath + "::")]
    trims = [c for c in b.calls() if (c.callee or "").split("::")[-1] in TRAILING_TRIMMERS]
    if not rep.check(bool(trims), R, "anchor:trailing-trim", "the line-comment normaliser no longer removes trailing blanks (the rule is about tests that must agree with that)"):
        return
    n = 0
    for x in fam:
        sp = [i for i in range(1, x.arg_count + 1) if re.match(r"^&('\w+ )?str$", x.locals[i]["ty"])]
        if x.locals[0]["ty"] != "bool" or len(sp) != 1:
            continue
        n += 1
        arg = "arg%d" % sp[0]
        # the helper may be handed the text already trimmed: then every call site passes a trimmed value
        sites = [c for c in prog.who_calls(x.npath) if c.body.crate.startswith("pasfmt") and len(c.args) >= sp[0]]
        if sites and all(re.search(r"\b(%s)\(" % "|".join(TRAILING_TRIMMERS), canon(c.body, c.args[sp[0] - 1])) for c in sites):
            rep.ok(R, {"helper": short(x.npath), "receives": "the text without its trailing blanks at all %d call sites" % len(sites)})
            continue
        bad = []
        for c in x.calls():
            nm = (c.callee or "").split("::")[-1]
            for a in c.args:
                t = canon(x, a)
                if not re.search(r"\b%s\b" % arg, t):
                    continue
                if re.search(r"\b(%s)\(" % "|".join(TRAILING_TRIMMERS), t):
                    continue                                     # measured on the text without its trailing blanks
                if re.search(r"\b(%s)\(" % "|".join(PREFIX_ONLY), t) or nm in PREFIX_ONLY:
                    continue                                     # looks at the front only / derived from what was seen there
                if nm in TRAILING_TRIMMERS or nm in TRANSPARENT_VIEWS:
                    continue
                bad.append("%s(%s)" % (nm, t[:40]))
        rep.check(not bad, R, "whole-text-tests-on-the-trimmed-text:%s" % short(x.npath),
                  "%s decides about the comment by %s on the text that still has its trailing blanks, which the same normaliser removes: the answer can differ for its own output "
                  "(`//-----     ` is a separator in the first run, `//-----` is not in the second, which inserts a blank)" % (short(x.npath), bad[:3]),
                  where="%s:%d" % (x.file, x.line), instance={"helper": short(x.npath), "untrimmed_whole_text_measures": bad[:4]})
    rep.floor(R, "bool helpers of the line-comment normaliser that take the comment text", n, 1)


def c03c(prog, rep):
    R = "C03.c"
    mf = prog.body("pasfmt::make_formatter")
    if not rep.check(mf is not None, R, "anchor:make_formatter", "make_formatter not found"):
        return
    regs = []
    for c in mf.calls():
        cal = c.callee or ""
        if cal.startswith("pasfmt_core::formatter::Add") and cal.split("::")[-1] in ("file_formatter", "line_formatter", "lines_formatter"):
            args = c.t.get("callee_args") or []
            regs.append((c, str(args[-1]) if args else "?"))
    if not rep.check(len(regs) >= 3, R, "anchor:registered-formatters", "fewer than three formatter registrations found in make_formatter (%d)" % len(regs)):
        return
    setters = {x.body.npath for x in prog.who_calls(SET_CONTENT)}
    info = []
    for c, ty in regs:
        tshort = re.sub(r"<.*$", "", ty)
        roots = [k for k in prog.bodies if k.startswith("<" + tshort + " as ") or k.startswith("<" + tshort + "<")]
        reach = prog.reachable_from(roots) if roots else set()
        changes = bool(reach & setters)
        measures = any(k.endswith("InternalOptimisingLineFormatter::find_optimal_solution") for k in reach)
        info.append((c, tshort, changes, measures, bool(roots)))
    meas = [x for x in info if x[3]]
    if not rep.check(len(meas) == 1, R, "anchor:measuring-pass", "expected exactly one registered pass that searches line wrappings (found %s)" % [short(x[1]) for x in meas]):
        return
    m = meas[0]
    n = 0
    for c, tshort, changes, measures, found in info:
        if measures:
            continue
        if tshort.endswith("FormatterSelector"):
            # selects per-line formatters given by a closure of make_formatter: judged by what that closure can return (EofNewline does not touch text)
            continue
        rep.check(found, R, "resolved:" + short(tshort), "the trait impl of the registered pass %s was not found" % short(tshort))
        if changes:
            n += 1
            before = mf.dominates(c.bb, m[0].bb) and c.bb != m[0].bb
            rep.check(before, R, "text-changing-pass-before-measuring:" + short(tshort),
                      "%s can replace token text but is registered after the pass that measures token text to wrap lines: the first run wraps by the old widths, the second by the new ones" % short(tshort),
                      where=c.where(), instance={"pass": short(tshort), "registered_before": short(m[1])})
    rep.floor(R, "text-changing passes registered before the wrapper", n, 2)


def check_c03(prog, rep, tier, cfg):
    import layout
    import orch
    c03a(prog, rep)
    c03j(prog, rep)
    # C03.b — `unchanged` is exact equality of (decoded input, formatter output), in files mode and in check mode
    orch.unchanged_skip_is_exact(prog, rep, "C03.b")
    orch.c16e(prog, AliasReport(rep, [("C16.e", r"^check_formatting:table|compares-input-with-output|^anchor:check", "C03.b")]))
    c03c(prog, rep)
    # C03.l — the file pasfmt has just written holds exactly the encoded output: the length the file is cut to is the number of bytes
    # write_file reports, taken after the write succeeded.  A length computed from the text (UTF-8 bytes) leaves NUL or stale bytes behind
    # the formatted text under a single-byte encoding, and the next run sees a file that is not its own output (shared with C16.b)
    orch.c16b(prog, rep, "C03.l")
    # C03.d — second wrapping pass measures what the first pass left
    layout.zeroing_after_wrapping(prog, rep, "C03.d")
    layout.rewrite_is_reported(prog, rep, "C03.d")
    # C03.g — the first wrapping pass, the refresh before the second one and the multi-line measure use one unit of width
    layout.width_measures_agree(prog, rep, "C03.g")
    # C03.i — the reflow starts where the first pass started
    layout.reflow_root_is_first_pass_root(prog, rep, "C03.i")
    layout.check_c09(prog, AliasReport(rep, [("C09.d", r".", "C03.d")]), tier, cfg)
    # C03.k — what is kept verbatim is a fixpoint only if it is copied, not re-normalised: in front of an ignored token the emission step
    # writes the original whitespace as it is (shared with C07.c) — a rewrite of its line breaks that is not idempotent (`split('\n')`
    # + join with CRLF keeps the old CR) grows on every run
    import text as _text3
    _text3.check_c07(prog, AliasReport(rep, [("C07.c", r".", "C03.k")]), tier, cfg)
    # C03.f — measurements memoised by the first wrapping pass do not outlive the text they were taken from (shared with C11.d; 1 known finding)
    layout.check_c11(prog, AliasReport(rep, [("C11.d", r".", "C03.f")]), tier, cfg)
    # C03.e — the surviving layout fact is a projection
    # C03.h — a line is wrapped a second time after its strings were rewritten: every decision of the second solution overwrites all three
    # counters, so nothing the first solution stored (an indentation for a token that is now continued) survives into the output, where
    # the next run — which wraps once — would not produce it (shared with C06.b)
    layout.check_c06(prog, AliasReport(rep, [("C06.a", r"newline-count-read-only-as-clamp|whitespace-reduced-to-counts|anchor:reconstruct_solution|anchor:FormattingData::from", "C03.e"),
                                             ("C06.b", r"^every-decision-overwrites|^one-decision-loop", "C03.h")]), tier, cfg)


PROPERTIES = {
    "C03": (check_c03,
            "Structural necessary conditions of idempotence, one per mechanism the property is anchored in: (a) the blank the line-comment normaliser inserts is accepted by its own "
            "blank test; (b) `unchanged` is exact equality of (decoded input, formatter output) in files mode and check mode; (c) every pass that can replace token text is registered "
            "before the pass that measures it; (d) after the multi-line strings were rewritten the cached lengths are re-read, every rewrite is reported, line-start blanks are removed "
            "after the last wrapping; (e) the surviving layout fact (blank-line group) is stored as clamp(_,1,2). The fixpoint relation between two runs is NOT decided. Added in round 7: (g) the three places that measure token text for the width comparison use the same measure.", []),
}
