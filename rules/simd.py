"""The vectorised identifier scanner (find_identifier_end_avx2), read as an expression over one byte lane.

The canonical text of the operand of `movemask` is parsed into a tree and (a) classified structurally (which leaves reach the mask),
(b) evaluated per lane for every ASCII byte value: compare / logic intrinsics, splats, constant arithmetic, RangeInclusive::new /
start / end and the scanner's own nested helpers (their result expression with the arguments substituted).  Both rules that talk
about the scanner (C04.h: steps over ASCII only; C13.b: agrees with the scalar scanner on ASCII) are stated on this reading, not on
the way the function happens to be written."""
import re
from facts import norm
from util import canon

LX = "pasfmt_core::defaults::lexer::"
LOGIC = {"_mm256_or_si256": lambda a, b: a | b, "_mm256_and_si256": lambda a, b: a & b, "_mm256_xor_si256": lambda a, b: a ^ b,
         "_mm256_andnot_si256": lambda a, b: (~a & 0xFF) & b}
COMPARE = ("_mm256_cmpeq_epi8", "_mm256_cmpgt_epi8")
MOVEMASK = ("_mm256_movemask_epi8",)


class CannotEvaluate(Exception):
    pass


def parse_expr(t):
    """canonical text `f(a,g(b),c)` -> (name, [children]) ; leaves -> (text, [])"""
    t = t.strip()
    i = t.find("(")
    if i <= 0 or not t.endswith(")") or not re.match(r"^[A-Za-z_][\w:<>]*$", t[:i]):
        return (t, [])
    depth, args, cur = 0, [], ""
    for ch in t[i + 1:-1]:
        if ch in "([{":
            depth += 1
        elif ch in ")]}":
            depth -= 1
        if ch == "," and depth == 0:
            args.append(cur)
            cur = ""
        else:
            cur += ch
    if cur.strip():
        args.append(cur)
    return (t[:i], [parse_expr(a) for a in args])


def scanner_family(prog):
    b = prog.body(LX + "find_identifier_end_avx2")
    if b is None:
        return None, {}
    fam = {b.npath: b}
    for x in prog.bodies.values():
        if x.npath.startswith(b.npath + "::"):
            fam[x.npath] = x
    return b, fam


def ret_expr(x):
    """canonical text of what a loop-free helper returns"""
    for c in x.calls():
        if c.t.get("dst") and c.t["dst"]["l"] == 0 and not c.t["dst"]["p"]:
            return "%s(%s)" % ((c.callee or "?").split("::")[-1], ",".join(canon(x, a) for a in c.args))
    for bb, i, st in x.stmts():
        if st["k"] == "assign" and st["dst"]["l"] == 0 and not st["dst"]["p"] and st["rv"]["k"] == "use":
            return canon(x, st["rv"]["op"])
    return None


def helper_of(fam, name):
    hb = [x for k, x in fam.items() if k.endswith("::" + name)]
    return hb[0] if hb else None


def is_raw(node):
    nm, ch = node
    return nm.startswith("_mm256_loadu") or nm.startswith("_mm256_load_") or nm.startswith("_mm256_lddqu")


def raw_leaves(node, fam, depth=0):
    """[] if the vector value is built from byte comparisons only (combined by and / or / andnot / xor); else the leaves that reach it
    without passing a comparison (`RAW` for the chunk itself, the text of anything else)"""
    nm, ch = node
    if nm in COMPARE:
        return []
    if nm in LOGIC:
        return [r for c in ch for r in raw_leaves(c, fam, depth)]
    if is_raw(node):
        return ["RAW"]
    hb = helper_of(fam, nm)
    if hb is not None and depth < 3 and ch:
        re_ = ret_expr(hb)
        if re_ is None:
            return ["%s(..)" % nm]
        out = []
        for r in raw_leaves(parse_expr(re_), fam, depth + 1):
            m = re.match(r"^arg(\d+)$", r)
            if m and int(m.group(1)) <= len(ch):
                out += raw_leaves(ch[int(m.group(1)) - 1], fam, depth + 1)
            else:
                out.append(r)
        return out
    return [nm if not ch else "%s(..)" % nm]


def _i8(v):
    v &= 0xFF
    return v - 256 if v >= 128 else v


def lane(node, x, env, fam, depth=0):
    """value of one byte lane (0..255), or a python int / ('range', lo, hi) for scalar sub-expressions, when the chunk's lane holds x"""
    nm, ch = node
    if is_raw(node):
        return x
    if not ch:
        if nm in env:
            return env[nm]
        if re.match(r"^-?\d+$", nm):
            return int(nm)
        m = re.match(r"^(.*)\.\d+$", nm)          # `.0` of a checked operation
        if m and m.group(1) in env:
            return env[m.group(1)]
        raise CannotEvaluate(nm)
    a = [lane(c, x, env, fam, depth) for c in ch] if nm not in () else []
    if nm in ("_mm256_set1_epi8",):
        return a[0] & 0xFF
    if nm == "_mm256_cmpeq_epi8":
        return 0xFF if (a[0] & 0xFF) == (a[1] & 0xFF) else 0
    if nm == "_mm256_cmpgt_epi8":
        return 0xFF if _i8(a[0]) > _i8(a[1]) else 0
    if nm in LOGIC:
        return LOGIC[nm](a[0] & 0xFF, a[1] & 0xFF)
    if nm in ("new",) and len(a) == 2:
        return ("range", a[0], a[1])
    if nm in ("start", "end") and isinstance(a[0], tuple):
        return a[0][1 if nm == "start" else 2]
    if nm in ("deref", "cast", "from", "into", "clone") and len(a) == 1:
        return a[0]
    if nm in ("Add", "AddWithOverflow"):
        return a[0] + a[1]
    if nm in ("Sub", "SubWithOverflow"):
        return a[0] - a[1]
    hb = helper_of(fam, nm)
    if hb is not None and depth < 4:
        re_ = ret_expr(hb)
        if re_ is None:
            raise CannotEvaluate(nm)
        return lane(parse_expr(re_), x, {"arg%d" % (i + 1): v for i, v in enumerate(a)}, fam, depth + 1)
    raise CannotEvaluate(nm)


def classification(prog):
    """What the scanner does with a chunk -> dict(
         main, fam,
         topbit: [(body, call)]   movemask / testz of the raw chunk (the non-ASCII test),
         step:   [(body, call, text)] movemask calls whose operand is a computed mask,
         raw:    leaves of the step masks that are not comparisons,
         polarity: +1 (bit set = identifier byte) / -1 (bit set = not an identifier byte) / None,
         accepts: set of ASCII bytes the step mask classifies as identifier bytes (None if it cannot be evaluated), error)"""
    b, fam = scanner_family(prog)
    if b is None:
        return None
    out = {"main": b, "fam": fam, "topbit": [], "step": [], "raw": [], "polarity": None, "accepts": None, "error": None}
    for x in fam.values():
        params = {"arg%d" % (i + 1) for i in range(x.arg_count)}
        for c in x.calls():
            nm = (c.callee or "").split("::")[-1]
            args = [canon(x, a) for a in c.args]
            if nm in MOVEMASK:
                node = parse_expr(args[0])
                if is_raw(node) or (args[0] in params and x is not b):
                    out["topbit"].append((x, c))
                else:
                    out["step"].append((x, c, args[0]))
            elif nm == "_mm256_testz_si256" and len(args) == 2:
                if any(re.search(r"set1_epi8\(-128\)", a) for a in args) and any(is_raw(parse_expr(a)) or a in params for a in args):
                    out["topbit"].append((x, c))
    for x, c, text in out["step"]:
        out["raw"] += raw_leaves(parse_expr(text), fam)
    # polarity from the consumer of the bit mask in the main body
    for c in b.calls():
        nm = (c.callee or "").split("::")[-1]
        if nm in ("trailing_ones", "trailing_zeros", "leading_ones", "leading_zeros") and c.args:
            t = canon(b, c.args[0])
            if "movemask" in t or any(k.split("::")[-1] + "(" in t for k in fam if k != b.npath):
                out["polarity"] = +1 if nm.endswith("ones") else -1
    if len(out["step"]) == 1:
        x, c, text = out["step"][0]
        env = {}
        try:
            acc = set()
            for v in range(128):
                e = dict(env)
                if x is not b:
                    e.update({"arg%d" % (i + 1): v for i in range(x.arg_count)})     # the helper's chunk parameter holds the lane
                bit = (lane(parse_expr(text), v, e, fam) & 0x80) != 0
                if out["polarity"] == -1:
                    bit = not bit
                if bit:
                    acc.add(v)
            out["accepts"] = acc
        except (CannotEvaluate, IndexError, TypeError, KeyError) as ex:
            out["error"] = str(ex)
    return out


def guard_ok(cl):
    """the non-ASCII test decides, before any chunk is classified, between classifying and leaving the vector loop"""
    b = cl["main"]
    fam = cl["fam"]
    step_sites = [c.bb for x, c, _ in cl["step"] if x is b]
    helpers_with_step = {x.npath for x, c, _ in cl["step"] if x is not b}
    helpers_with_topbit = {x.npath for x, c in cl["topbit"] if x is not b}
    guards = [c for x, c in cl["topbit"] if x is b]
    for c in b.calls():
        t = norm(c.t.get("resolved") or c.callee or "")
        if t in helpers_with_step:
            step_sites.append(c.bb)
        if t in helpers_with_topbit and t not in helpers_with_step:
            guards.append(c)
    if not step_sites or not guards:
        return False, None
    loops = b.loops()
    for g in guards:
        L = [Ls for h, Ls in loops.items() if g.bb in Ls]
        if not L or not all(b.dominates(g.bb, s) and g.bb != s for s in step_sites):
            continue
        for sbb in sorted(b.reach_from(g.bb, include_start=True)):
            t = b.blocks[sbb]["term"]
            if t["k"] == "switch" and sbb in L[0] and b.dominates(g.bb, sbb) and all(b.dominates(sbb, s) for s in step_sites):
                succ = [y for _, y in t["targets"]] + [t["otherwise"]]
                if any(not any(s in b.reach_from(y, avoid=set(loops), include_start=True) for s in step_sites) for y in succ):
                    return True, g
    return False, guards[0] if guards else None


SIGNED = {"i8": 8, "i16": 16, "i32": 32, "i64": 64}
WIDTH = {"u8": 8, "u16": 16, "u32": 32, "u64": 64, "u128": 128, "usize": 64, "i8": 8, "i16": 16, "i32": 32, "i64": 64, "i128": 128, "isize": 64}


def sign_extended_masks(prog):
    """`movemask(..) as u64` (or the result of a helper that returns it): a bit mask held in a signed integer widened directly — the
    sign bit (byte 31 of the chunk) is copied into all the new upper bits.  [(body, where, text)]"""
    b, fam = scanner_family(prog)
    out = []
    if b is None:
        return out
    mask_fns = {x.npath.split("::")[-1] for x in fam.values() if x is not b and any((c.callee or "").split("::")[-1] in MOVEMASK and c.t.get("dst") and c.t["dst"]["l"] == 0 for c in x.calls())}
    for x in fam.values():
        for bb, i, st in x.stmts():
            if st["k"] != "assign" or st["rv"]["k"] != "cast" or st["rv"].get("cast") != "IntToInt" or st["rv"]["op"]["k"] not in ("copy", "move"):
                continue
            src_ty = x.locals[st["rv"]["op"]["place"]["l"]]["ty"] if not st["rv"]["op"]["place"]["p"] else ""
            dst_ty = st["rv"].get("ty", "")
            if src_ty in SIGNED and WIDTH.get(dst_ty, 0) > SIGNED[src_ty]:
                t = canon(x, st["rv"]["op"])
                nm = t.split("(")[0]
                if nm in MOVEMASK or nm in mask_fns:
                    out.append((x, "%s:%d" % (x.file, st.get("line", x.line)), "%s as %s" % (t[:50], dst_ty)))
    return out
