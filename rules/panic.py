"""C04.b — panic-site audit.

Enumerates every panic-capable site in scope (all non-const bodies of pasfmt-core plus
orchestrator/src/file_formatter.rs) and requires each to be
  * auto-verified by a structural guard the checker re-derives on every run, or
  * listed in rules/panic_sites.json with a reviewed one-line invariant; the entry is keyed by
    (body, kind, canonical operands), so any change of the site's operands or a new site is reported.
"""
import json
import re
import os
from collections import defaultdict

from facts import norm, Origins, _rv_operands
from table import canon_place, canon_local, render_const

HERE = os.path.dirname(os.path.abspath(__file__))
INVENTORY = os.path.join(HERE, "panic_sites.json")

PANIC_CALLEES = {
    "core::option::Option::unwrap": "unwrap",
    "core::option::Option::expect": "expect",
    "core::result::Result::unwrap": "unwrap",
    "core::result::Result::expect": "expect",
    "core::result::Result::unwrap_err": "unwrap",
    "core::result::Result::expect_err": "expect",
    "core::cell::RefCell::borrow": "refcell",
    "core::cell::RefCell::borrow_mut": "refcell",
    "core::str::split_at": "split_at",
    "core::str::split_at_mut": "split_at",
    "core::slice::split_at": "split_at",
    "core::slice::split_at_mut": "split_at",
    "alloc::vec::Vec::remove": "vec-index",
    "alloc::vec::Vec::swap_remove": "vec-index",
    "alloc::vec::Vec::insert": "vec-index",
    "alloc::vec::Vec::drain": "range",
    "alloc::vec::Vec::split_off": "vec-index",
    "alloc::string::String::truncate": "char-boundary",
    "alloc::string::String::insert": "char-boundary",
    "alloc::string::String::insert_str": "char-boundary",
    "alloc::string::String::remove": "char-boundary",
    "alloc::string::String::drain": "char-boundary",
    "alloc::string::String::replace_range": "char-boundary",
    "core::slice::copy_from_slice": "len-eq",
    "core::slice::swap": "vec-index",
    "core::iter::traits::iterator::Iterator::step_by": "nonzero",
    "core::slice::chunks": "nonzero",
    "core::slice::windows": "nonzero",
    "core::num::pow": "arith-lib",
    "alloc::str::repeat": "capacity",
    "core::char::from_digit": "radix",
    "core::char::methods::to_digit": "radix",
}
INDEX_CALLEES = {
    "core::ops::index::Index::index": "index",
    "core::ops::index::IndexMut::index_mut": "index",
}


def in_scope(b):
    if b.j.get("const_fn"):
        return False
    return b.crate in ("pasfmt_core.lib", "pasfmt_canary.lib") or b.file == "orchestrator/src/file_formatter.rs"


def short(n):
    return n.replace("pasfmt_core::defaults::", "").replace("pasfmt_core::rules::", "").replace("pasfmt_core::", "") \
            .replace("pasfmt_orchestrator::", "orch::")


def op_canon(body, op):
    if op["k"] == "const":
        return render_const(op)
    return canon_place(body, op["place"], {})


class Site:
    def __init__(self, body, bb, kind, desc, line, ops=None, term=None):
        self.body = body
        self.bb = bb
        self.kind = kind
        self.desc = desc if len(desc) <= 180 else desc[:180] + "~"
        self.line = line
        self.ops = ops or []
        self.term = term
        self.ordinal = 0

    @property
    def key(self):
        return "%s|%s|%s#%d" % (short(self.body.npath), self.kind, self.desc, self.ordinal)

    def where(self):
        return "%s:%d" % (self.body.file, self.line)


def enumerate_sites(prog, include_add=False, scope=None):
    sites = []
    for k in sorted(prog.bodies):
        b = prog.bodies[k]
        if not (scope or in_scope)(b):
            continue
        local = []
        for bb in sorted(b.reachable()):
            t = b.blocks[bb]["term"]
            if t["k"] == "call":
                cal = norm(t.get("callee") or "")
                res = norm(t.get("resolved") or "") if t.get("resolved") else ""
                line = abs(t.get("line", 0))
                kind = None
                if cal in PANIC_CALLEES:
                    kind = PANIC_CALLEES[cal]
                elif cal in INDEX_CALLEES:
                    # only slice/Vec/str/String indexing panics (HashMap index too)
                    kind = "index"
                elif cal.startswith("core::panicking::") or cal.startswith("std::rt::begin_panic") or cal == "core::option::unwrap_failed" \
                        or cal == "core::result::unwrap_failed" or cal == "core::option::expect_failed":
                    kind = "panic"
                if kind is None:
                    continue
                if kind == "panic" and t.get("line", 0) < 0 and False:
                    continue
                args = [op_canon(b, a) for a in t["args"]]
                nm = (res or cal).split("::")[-1]
                if kind == "panic":
                    desc = cal.split("::")[-1]
                    # message constants make the descriptor more specific
                    for a in t["args"]:
                        if a["k"] == "const" and "str" in a:
                            desc += ":" + a["str"][:40]
                elif kind == "index":
                    recv_ty = b.locals[t["args"][0]["place"]["l"]]["ty"] if t["args"] and t["args"][0]["k"] in ("copy", "move") else "?"
                    idx_ty = b.locals[t["args"][1]["place"]["l"]]["ty"] if len(t["args"]) > 1 and t["args"][1]["k"] in ("copy", "move") else "const"
                    desc = "%s[%s] recv=%s idx=%s" % (_ty_short(recv_ty), _ty_short(idx_ty), args[0] if args else "?", args[1] if len(args) > 1 else "?")
                else:
                    desc = "%s(%s)" % (nm, ",".join(args))
                local.append(Site(b, bb, kind, desc, line, t["args"], t))
            elif t["k"] == "assert":
                msg = t["msg"]
                line = abs(t.get("line", 0))
                ops = [op_canon(b, o) for o in t["ops"]]
                if msg == "bounds":
                    local.append(Site(b, bb, "bounds", "len=%s idx=%s" % (ops[0], ops[1]), line, t["ops"], t))
                elif msg.startswith("overflow:Sub"):
                    local.append(Site(b, bb, "sub", "%s - %s" % (ops[0], ops[1]), line, t["ops"], t))
                elif msg in ("divzero", "remzero"):
                    local.append(Site(b, bb, msg, "/ %s" % ops[-1], line, t["ops"], t))
                elif msg.startswith("overflow:"):
                    if include_add:
                        local.append(Site(b, bb, "arith", "%s %s" % (msg, ops), line, t["ops"], t))
                elif msg in ("misaligned", "nullptr"):
                    continue
                else:
                    local.append(Site(b, bb, "assert-other", msg, line, t["ops"], t))
        # ordinals among equal (kind, desc) in block order
        cnt = defaultdict(int)
        for s in local:
            s.ordinal = cnt[(s.kind, s.desc)]
            cnt[(s.kind, s.desc)] += 1
        sites.extend(local)
    return sites


def _ty_short(t):
    t = t.replace("&mut ", "").replace("&", "")
    for pre in ("alloc::vec::", "alloc::string::", "core::ops::range::", "std::collections::hash::map::", "pasfmt_core::"):
        t = t.replace(pre, "")
    return t


# ----------------------------------------------------------------------------- auto guards

CMP = {"Lt", "Le", "Gt", "Ge", "Eq", "Ne"}


def dominating_conditions(body, bb):
    """[(binop, a_operand, b_operand, truth, cond_block)] for comparison results that are switched on in a
    block dominating bb with exactly one outcome reaching bb; also bool-returning calls:
    ('call', callee, args, truth, block)."""
    out = []
    for s in sorted(body.dom.get(bb, ())):
        if s == bb:
            continue
        t = body.blocks[s]["term"]
        if t["k"] != "switch" or t["discr"]["k"] not in ("copy", "move") or t["discr"]["place"]["p"]:
            continue
        d = t["discr"]["place"]["l"]
        if body.locals[d]["ty"] != "bool":
            continue
        # which outcomes reach bb
        reach = []
        for v, tgt in t["targets"]:
            if tgt == bb or bb in body.reach_from(tgt, avoid={s}, include_start=True):
                reach.append(v)
        ot = t["otherwise"]
        if ot == bb or bb in body.reach_from(ot, avoid={s}, include_start=True):
            reach.append("o")
        if len(reach) != 1:
            continue
        truth = (reach[0] == "o") if [v for v, _ in t["targets"]] == [0] else (reach[0] == 1 if reach[0] != "o" else None)
        if truth is None:
            continue
        out.extend(_expand_bool(body, d, truth, s, 0))
    return out


def _expand_bool(body, d, truth, blk, depth):
    """Resolve what boolean local d computes (comparison / call / negation)."""
    res = []
    if depth > 4:
        return res
    defs = [x for x in body.defs.get(d, []) if x[0] in ("assign", "call")]
    if len(defs) != 1:
        return res
    df = defs[0]
    if df[0] == "assign" and df[3]["k"] == "assign":
        rv = df[3]["rv"]
        if rv["k"] == "binop" and rv["op"] in CMP:
            res.append(("cmp", rv["op"], rv["a"], rv["b"], truth, df[1]))
        elif rv["k"] == "unop" and rv["op"] == "Not" and rv["a"]["k"] in ("copy", "move") and not rv["a"]["place"]["p"]:
            res.extend(_expand_bool(body, rv["a"]["place"]["l"], not truth, blk, depth + 1))
        elif rv["k"] == "use" and rv["op"]["k"] in ("copy", "move") and not rv["op"]["place"]["p"]:
            res.extend(_expand_bool(body, rv["op"]["place"]["l"], truth, blk, depth + 1))
    elif df[0] == "call":
        t = df[2]
        res.append(("call", norm(t.get("resolved") or t.get("callee") or ""), t["args"], truth, df[1]))
    return res


def source_place(body, op, depth=0):
    """Follow single-definition copies back to the place the value was read from.
    Returns (place, reading_block) or None."""
    if op["k"] not in ("copy", "move"):
        return None
    pl = op["place"]
    if pl["p"] or depth > 8:
        return resolve_place(body, pl)
    l = pl["l"]
    if 1 <= l <= body.arg_count:
        return pl
    defs = [d for d in body.defs.get(l, []) if d[0] in ("assign", "call")]
    if len(defs) == 1 and defs[0][0] == "assign" and defs[0][3]["k"] == "assign":
        rv = defs[0][3]["rv"]
        if rv["k"] == "use" and rv["op"]["k"] in ("copy", "move"):
            return source_place(body, rv["op"], depth + 1)
    return pl


def resolve_place(body, pl, depth=0):
    """Rewrite `(*r).f` with `r = &q` (single definition) to `q.f`, repeatedly."""
    while depth < 10:
        depth += 1
        l = pl["l"]
        if 1 <= l <= body.arg_count or not pl["p"] or pl["p"][0]["k"] != "deref":
            return pl
        defs = [d for d in body.defs.get(l, []) if d[0] in ("assign", "call")]
        if len(defs) != 1 or defs[0][0] != "assign" or defs[0][3]["k"] != "assign":
            return pl
        rv = defs[0][3]["rv"]
        if rv["k"] == "ref":
            pl = {"l": rv["place"]["l"], "p": list(rv["place"]["p"]) + list(pl["p"][1:])}
        elif rv["k"] == "use" and rv["op"]["k"] in ("copy", "move"):
            pl = {"l": rv["op"]["place"]["l"], "p": list(rv["op"]["place"]["p"]) + list(pl["p"])}
        else:
            return pl
    return pl


def place_eq(p1, p2):
    if p1["l"] != p2["l"] or len(p1["p"]) != len(p2["p"]):
        return False
    for a, b in zip(p1["p"], p2["p"]):
        if a["k"] != b["k"]:
            return False
        if a["k"] == "field" and a["idx"] != b["idx"]:
            return False
        if a["k"] == "index" and a["local"] != b["local"]:
            return False
        if a["k"] == "downcast" and a["idx"] != b["idx"]:
            return False
    return True


def same_value(body, op1, op2, at_blocks=None):
    """Do two operands read the same storage?  Equal constants, or values copied (through
    single-definition temporaries) from structurally the same place.  Stability of that place between
    the two reads is checked separately (`stable`)."""
    if op1["k"] == "const" or op2["k"] == "const":
        if op1["k"] == "const" and op2["k"] == "const":
            return render_const(op1) == render_const(op2)
        return False
    s1 = source_place(body, op1)
    s2 = source_place(body, op2)
    return s1 is not None and s2 is not None and place_eq(s1, s2)


def no_redef_between(body, local, from_bb, to_bb):
    """No full definition of `local` in a block lying on a path from_bb -> to_bb (exclusive of from_bb's own
    statements before the guard; conservative: any def in a block strictly between, or in to_bb)."""
    mid = body.reach_from(from_bb) & body.reach_to(to_bb)
    for d in body.defs.get(local, []):
        if d[0] in ("assign", "call") and d[1] in mid and d[1] != from_bb:
            # a def in to_bb before the assert is the computation of the subtraction temp itself; skip temps
            return False
    return True


def base_local(op):
    return op["place"]["l"] if op["k"] in ("copy", "move") else None


def stable(body, op, from_bb, to_bb):
    """The storage the operand was read from cannot change between from_bb and to_bb."""
    if op["k"] == "const":
        return True
    pl = source_place(body, op)
    l = pl["l"]
    if any(pe["k"] == "deref" for pe in pl["p"]):
        return not mutation_between(body, pl, from_bb, to_bb)
    if pl["p"]:
        # field of a local aggregate: any (partial) store to the local in between
        mid = (body.reach_from(from_bb) & body.reach_to(to_bb))
        for d in body.defs.get(l, []):
            if d[1] in mid and d[1] != from_bb:
                return False
        return True
    return no_redef_between(body, l, from_bb, to_bb)


def mutation_between(body, place, from_bb, to_bb):
    mid = (body.reach_from(from_bb) & body.reach_to(to_bb)) | {to_bb}
    fld = [pe.get("name") for pe in place["p"] if pe["k"] == "field"]
    for x in mid:
        for s in body.blocks[x]["stmts"]:
            if s["k"] == "assign" and s["dst"]["l"] == place["l"] and s["dst"]["p"]:
                f2 = [pe.get("name") for pe in s["dst"]["p"] if pe["k"] == "field"]
                if f2[:len(fld)] == fld or fld[:len(f2)] == f2:
                    return True
        t = body.blocks[x]["term"]
        if t["k"] == "call" and x != to_bb:
            for a in t["args"]:
                if a["k"] in ("copy", "move") and body.locals[a["place"]["l"]]["ty"].startswith("&mut "):
                    return True
    return False


def guard_sub(prog, site):
    """a - b cannot underflow: a dominating comparison establishes a >= b (or a > 0 with b == 1...)."""
    body = site.body
    t = site.term
    a, b = t["ops"]
    conds = dominating_conditions(body, site.bb)
    # the assert's operands are the operands of the SubWithOverflow in the same block
    for c in conds:
        if c[0] != "cmp":
            continue
        _, op, x, y, truth, cb = c
        rel = None
        # normalise to a statement "L REL R" that is known true
        if not truth:
            op = {"Lt": "Ge", "Le": "Gt", "Gt": "Le", "Ge": "Lt", "Eq": "Ne", "Ne": "Eq"}[op]
        ok = False
        if same_value(body, x, a) and same_value(body, y, b) and op in ("Ge", "Gt"):
            ok = True
        elif same_value(body, x, b) and same_value(body, y, a) and op in ("Le", "Lt"):
            ok = True
        elif b["k"] == "const" and b.get("int") == 1:
            if same_value(body, x, a) and y["k"] == "const" and ((op == "Gt" and y.get("int", -1) >= 0) or (op == "Ge" and y.get("int", 0) >= 1) or (op == "Ne" and y.get("int") == 0)):
                ok = True
            elif same_value(body, y, a) and x["k"] == "const" and ((op == "Lt" and x.get("int", -1) >= 0) or (op == "Le" and x.get("int", 0) >= 1) or (op == "Ne" and x.get("int") == 0)):
                ok = True
        elif b["k"] == "const" and y["k"] == "const" and same_value(body, x, a) and "int" in b and "int" in y:
            if (op == "Ge" and y["int"] >= b["int"]) or (op == "Gt" and y["int"] >= b["int"] - 1):
                ok = True
        if ok and stable(body, a, cb, site.bb) and stable(body, b, cb, site.bb):
            return "sub-guarded by dominating %s(%s, %s)" % (op, op_canon(body, x), op_canon(body, y))
    # len(S) - i where i is the position of a match found by a library search *in S itself*: std documents these as byte offsets
    # into the haystack, so i <= len(S)  (find / rfind / (r)match_indices / char_indices on S)
    if a["k"] in ("copy", "move") and b["k"] in ("copy", "move"):
        ca, cb2 = op_canon(body, a), op_canon(body, b)
        m = re.match(r"^len\((.+)\)$", ca)
        if m:
            S = re.escape(m.group(1))
            pats = [r"^r?find\(%s,.*\)@Some\.0$" % S,
                    r"^(nth|next|next_back|last|nth_back)\((rev\()?r?match_indices\(%s,.*\)\)?.*\)@Some\.0\.0$" % S,
                    r"^(nth|next|next_back|last|nth_back)\((rev\()?char_indices\(%s\)\)?.*\)@Some\.0\.0$" % S]
            if any(re.match(p2, cb2) for p2 in pats):
                return "sub-guarded: the subtrahend is the offset of a match found by a std search in the very string whose length is the minuend"
    # len(S) - len(T(S, ..)) where T returns a sub-slice of its receiver (trim*, strip_*): a part is not longer than the whole
    if a["k"] in ("copy", "move") and b["k"] in ("copy", "move"):
        ca, cb2 = op_canon(body, a), op_canon(body, b)
        m = re.match(r"^len\((.+)\)$", ca)
        m2 = re.match(r"^len\((trim\w*|strip_prefix|strip_suffix)\((.+)\)(?:@Some\.0)?\)$", cb2)
        if m and m2:
            inner = m2.group(2)
            if inner == m.group(1) or inner.startswith(m.group(1) + ","):
                return "sub-guarded: the subtrahend is the length of a sub-slice (%s) of the very string whose length is the minuend" % m2.group(1)
    # a = len(v) and a dominating `!v.is_empty()` with b == 1
    if b["k"] == "const" and b.get("int") == 1 and a["k"] in ("copy", "move"):
        ca = op_canon(body, a)
        for c in conds:
            if c[0] == "call" and c[1].endswith("::is_empty") and c[4] is False:
                recv = op_canon(body, c[2][0]) if c[2] else ""
                if ca in ("len(%s)" % recv,) and stable(body, a, c[5], site.bb):
                    return "sub-guarded: len of a collection known non-empty"
    return None


def guard_unwrap(prog, site):
    """unwrap on a value that a dominating test showed to be Some/Ok: same local (or same canonical
    expression with stable operands) tested by is_some()/is_ok()/discriminant."""
    body = site.body
    t = site.term
    arg = t["args"][0]
    if arg["k"] not in ("copy", "move"):
        return None
    target = canon_place(body, arg["place"], {})
    for c in dominating_conditions(body, site.bb):
        if c[0] == "call" and c[1].split("::")[-1] in ("is_some", "is_ok") and c[4] is True and c[2]:
            tested = op_canon(body, c[2][0])
            if tested == target and stable(body, arg, c[5], site.bb):
                return "unwrap dominated by %s() on the same value" % c[1].split("::")[-1]
    # discriminant facts
    from progress import dominating_variant_facts
    for key, kind, vs in dominating_variant_facts(prog, body, site.bb):
        if kind == "is" and vs[0] in ("Some", "Ok") and key == target:
            return "unwrap dominated by a match on the same value = %s" % vs[0]
    return None


def guard_bounds(prog, site):
    """index < len: dominating comparison, or index produced by a range/enumerate over the same length."""
    body = site.body
    ln, idx = site.term["ops"]
    for c in dominating_conditions(body, site.bb):
        if c[0] != "cmp":
            continue
        _, op, x, y, truth, cb = c
        if not truth:
            op = {"Lt": "Ge", "Le": "Gt", "Gt": "Le", "Ge": "Lt", "Eq": "Ne", "Ne": "Eq"}[op]
        if ((op == "Lt" and same_value(body, x, idx) and same_value(body, y, ln)) or
                (op == "Gt" and same_value(body, y, idx) and same_value(body, x, ln))) and stable(body, idx, cb, site.bb):
            return "index < len by dominating comparison"
    return None


def guard_div(prog, site):
    """division/remainder by a non-zero constant: the Div/Rem statement that the assert protects has a
    constant right operand != 0."""
    body = site.body
    tgt = site.term["target"]
    for blk in (site.bb, tgt):
        for s in body.blocks[blk]["stmts"]:
            if s["k"] == "assign" and s["rv"]["k"] == "binop" and s["rv"]["op"] in ("Div", "Rem"):
                b = s["rv"]["b"]
                if b["k"] == "const" and b.get("int", 0) != 0:
                    return "divisor is the non-zero constant %s" % b["int"]
    return None


def guard_bounds_u8(prog, site):
    """index into a 256-element table with an index cast from u8."""
    body = site.body
    ln, idx = site.term["ops"]
    if ln["k"] == "const" and ln.get("int") == 256 and idx["k"] in ("copy", "move") and not idx["place"]["p"]:
        defs = [d for d in body.defs.get(idx["place"]["l"], []) if d[0] == "assign"]
        if len(defs) == 1 and defs[0][3]["rv"]["k"] == "cast":
            src = defs[0][3]["rv"]["op"]
            if src["k"] in ("copy", "move"):
                pl = src["place"]
                ty = pl["p"][-1].get("ty") if pl["p"] and pl["p"][-1]["k"] == "field" else None
                if ty is None:
                    # deref of &u8 or plain u8 local
                    lt = body.locals[pl["l"]]["ty"]
                    ty = lt.replace("&", "").replace("mut ", "").strip()
                if ty == "u8":
                    return "u8 index into a 256-entry table"
    return guard_bounds(prog, site)


TOKEN_GUARDS = {
    "pasfmt_core::defaults::parser::InternalDelphiLogicalLineParser::get_current_token_type",
    "pasfmt_core::defaults::parser::InternalDelphiLogicalLineParser::get_current_keyword_kind",
    "pasfmt_core::defaults::parser::InternalDelphiLogicalLineParser::get_current_token_index",
}
TOKEN_INDEX = "pasfmt_core::defaults::parser::InternalDelphiLogicalLineParser::get_current_token_index"


def may_advance_set(prog):
    """Bodies that may (transitively) store to the parser's pass_index."""
    hit = getattr(prog, "_may_advance", None)
    if hit is not None:
        return hit
    from progress import block_has_cursor_store
    base = set()
    for k, b in prog.bodies.items():
        if any(block_has_cursor_store(b, bb) for bb in b.reachable()):
            base.add(k)
    rev = defaultdict(set)
    for k, es in prog.callgraph.items():
        for e in es:
            rev[e].add(k)
    seen = set(base)
    st = list(base)
    while st:
        x = st.pop()
        for y in rev[x]:
            if y not in seen:
                seen.add(y)
                st.append(y)
    prog._may_advance = seen
    return seen


def call_may_advance(prog, body, t):
    """Could this call move the parser's token cursor?  Resolved local callees are looked up in the
    transitive writer set; unresolved callables count only if they receive a `&mut` argument."""
    from progress import is_impure_call
    from facts import Site
    site = Site(body, -1, t)
    tg = prog.callees_of_site(site)
    local = [x for x in tg if x in prog.bodies]
    ma = may_advance_set(prog)
    if any(x in ma for x in local):
        return True
    if t.get("resolved") is None or t.get("callee") is None:
        return is_impure_call(body, t)
    if not local and not (norm(t.get("callee") or "").startswith("pasfmt")):
        # external function: cannot reach the parser's private field unless handed a &mut parser
        for a in t["args"]:
            if a["k"] in ("copy", "move"):
                ty = body.locals[a["place"]["l"]]["ty"]
                if "&mut " in ty and "InternalDelphiLogicalLineParser" in ty:
                    return True
        return False
    return False


def token_present_at(prog, body, bb):
    """A dominating test shows `current token = Some` (via get_current_token_type / get_current_keyword_kind /
    get_current_token_index on self) with no `&mut` call on any path from that test to bb."""
    from progress import dominating_variant_facts, is_impure_call
    facts = list(dominating_variant_facts(prog, body, bb))
    # `guard() == Some(k)` (or `!= .. { return }`) written as a comparison of two Options: equal to a `Some` is `Some`
    for cnd in dominating_conditions(body, bb):
        if cnd[0] == "call" and cnd[1] in ("core::cmp::PartialEq::eq", "core::cmp::PartialEq::ne") and cnd[3] == cnd[1].endswith("::eq") and len(cnd[2]) == 2:
            ab = [op_canon(body, a) for a in cnd[2]]
            for g, o in (ab, ab[::-1]):
                if o.startswith("Option::Some{") and "@" not in g:
                    facts.append((g, "is", ("Some",)))
    for key, kind, vs in facts:
        if kind != "is" or vs[0] != "Some" or "@" in key:
            continue
        if not (key.startswith("get_current_token_type(") or key.startswith("get_current_keyword_kind(") or key.startswith("get_current_token_index(")):
            continue
        # locate the guard call blocks (same callee, dominating bb)
        for c in body.calls():
            if c.target in TOKEN_GUARDS and body.dominates(c.bb, bb) and c.target.split("::")[-1] == key.split("(")[0]:
                mid = (body.reach_from(c.bb) & body.reach_to(bb)) - {c.bb, bb}
                bad = False
                for x in mid:
                    tx = body.blocks[x]["term"]
                    if tx["k"] == "call" and call_may_advance(prog, body, tx) and body.can_reach_avoiding(c.bb, {x}, {bb}) \
                            and body.can_reach_avoiding(x, {bb}, {c.bb}):
                        bad = True
                        break
                if not bad:
                    return True
    return False


def entry_clean(body, bb):
    """no call with a `&mut` argument on any path entry -> bb"""
    mid = body.reach_to(bb) - {bb}
    for x in mid:
        tx = body.blocks[x]["term"]
        if tx["k"] == "call" and call_may_advance(PROG[0], body, tx):
            return False
    return True


PROG = [None]


def guard_token_unwrap(prog, site, depth=0):
    PROG[0] = prog
    return _guard_token_unwrap(prog, site, depth)


def _guard_token_unwrap(prog, site, depth=0):
    """`self.get_current_token_index().unwrap()`: a current token exists — shown by a dominating guard in
    this body, or (when nothing mutating precedes the site) at every call site of this body, up to 2 levels."""
    body = site.body if hasattr(site, "body") else site[0]
    bb = site.bb if hasattr(site, "bb") else site[1]
    if hasattr(site, "term"):
        t = site.term
        a = t["args"][0]
        if a["k"] not in ("copy", "move"):
            return None
        if not canon_place(body, a["place"], {}).startswith("get_current_token_index(arg1)"):
            return guard_unwrap(prog, site)
    if token_present_at(prog, body, bb):
        return "caller-guard: current token = Some established in %s" % short(body.npath)
    if depth >= 2 or not entry_clean(body, bb):
        return None
    callers = prog.who_calls(body.npath)
    if not callers:
        return None
    names = []
    for c in callers:
        r = _guard_token_unwrap(prog, (c.body, c.bb), depth + 1)
        if not r:
            return None
        names.append(short(c.body.npath).split("::")[-1])
    return "caller-guard: current token = Some established at every call site (%s)" % ", ".join(sorted(set(names)))


def guard_index_after_ascii_prefix(prog, site):
    """`S[n..]` with n = S.bytes().take_while(P).count() and P false for every byte >= 0x80: the n bytes in front are all ASCII, so n is
    at most len(S) and the next byte (if any) starts a character."""
    m = re.match(r"^str\[RangeFrom<usize>\] recv=(.+) idx=RangeFrom\{count\(take_while\(bytes\((.+)\),closure\{.*\}\)\)\}$", site.desc)
    if not m or m.group(1) != m.group(2):
        return None
    body = site.body
    from table import Table, TooComplex, run_concrete, eval_desc, vdesc, Unknown
    for c in body.calls():
        if (c.callee or "").split("::")[-1] != "take_while" or len(c.args) != 2 or c.args[1]["k"] not in ("copy", "move"):
            continue
        if op_canon(body, c.args[0]) != "bytes(%s)" % m.group(1):
            continue
        cb = prog.body(norm(body.locals[c.args[1]["place"]["l"]].get("closure") or ""))
        if cb is None or cb.loops():
            return None
        try:
            tb = Table(prog, cb, inline=1)
            for v in range(0x80, 0x100):
                res, _ = run_concrete(tb, {"arg%d" % cb.arg_count: v})
                if bool(eval_desc(vdesc(res), {"arg%d" % cb.arg_count: v})):
                    return None
        except (TooComplex, Unknown):
            return None
        return "index-guarded: the offset counts a prefix of bytes accepted by a predicate that rejects every non-ASCII byte"
    return None


AUTO = {"sub": guard_sub, "unwrap": guard_token_unwrap, "expect": guard_unwrap, "bounds": guard_bounds_u8,
        "divzero": guard_div, "remzero": guard_div, "index": guard_index_after_ascii_prefix}


def _loose(key):
    import re as _re
    return _re.sub(r"\{closure#\d+\}", "{closure}", key)


def load_inventory():
    if not os.path.exists(INVENTORY):
        return {}
    return json.load(open(INVENTORY))["sites"]


def check_b(prog, rep, cfg):
    R = "C04.b"
    sites = enumerate_sites(prog)
    inv = load_inventory()
    inv_loose = {}
    for k0 in inv:
        if "{closure#" in k0:
            inv_loose.setdefault(_loose(k0), k0)
    used = set()
    counts = defaultdict(int)
    auto_n = 0
    reviewed_n = 0
    for s in sites:
        counts[s.kind] += 1
        why = None
        fn = AUTO.get(s.kind)
        if fn is not None:
            try:
                why = fn(prog, s)
            except Exception as e:  # pragma: no cover - fail closed below
                why = None
        if why:
            auto_n += 1
            rep.ok(R, {"site": s.key, "line": s.line, "guard": "verified: " + why})
            continue
        ent = inv.get(s.key)
        if ent is None and "{closure#" in s.key:
            # closures are numbered in source order: a closure added or removed in front renumbers the others.  The entry is identified by
            # function, kind and canonical operands; the closure's number is not part of what was reviewed.
            lk = _loose(s.key)
            if lk in inv_loose:
                ent = inv[inv_loose[lk]]
                used.add(inv_loose[lk])
        if ent is not None:
            used.add(s.key)
            if ent.get("finding"):
                rep.fail(R, "site:" + s.key, "known defect site: %s" % ent["finding"], where=s.where())
            else:
                reviewed_n += 1
                rep.ok(R, {"site": s.key, "line": s.line, "guard": "reviewed: " + ent["guard"]})
            continue
        rep.fail(R, "site:" + s.key,
                 "panic-capable site without a verified guard or reviewed inventory entry: %s in %s (%s) — add a guard the "
                 "checker can derive (dominating comparison / is_some / checked_* / get()) or review it into rules/panic_sites.json"
                 % (s.kind, short(s.body.npath), s.desc), where=s.where(), instance={"site": s.key})
    if cfg == "default":
        stale = sorted(set(inv) - used)
        # entries whose guard became auto-verified or whose site disappeared are reported as notes, not violations
        if stale:
            rep.note("inventory entries without a matching unverified site (site gone or now auto-verified): %d" % len(stale))
        rep.floor(R, "panic-capable sites enumerated", len(sites), 150)
    rep.analysed["panic_sites"] = dict(counts)
    rep.analysed["panic_sites_auto_verified"] = auto_n
    rep.analysed["panic_sites_reviewed"] = reviewed_n
    return sites


def unsaturated_counter_arith(prog, adt, fields, crates=("pasfmt",)):
    """`+` / `*` (checked-in-debug, wrapping-in-release arithmetic) on a narrow integer one of whose operands is read from one of the counter
    fields `fields` of `adt`: [(body, where, operator, canonical operands)].  Such counters are filled with saturating conversions, so
    they can hold the type's maximum; only max / min / saturating_* / widening casts may combine them."""
    from table import canon_operand
    out = []
    for b in prog.bodies.values():
        if not any(b.crate.startswith(c) for c in crates) or "::tests::" in b.npath or "core::fmt::Debug" in b.npath:
            continue
        for bb, i, st in b.stmts():
            if st["k"] != "assign" or st["rv"]["k"] != "binop":
                continue
            op = st["rv"]["op"].replace("WithOverflow", "").replace("Unchecked", "")
            if op not in ("Add", "Mul"):
                continue
            texts = [canon_operand(b, st["rv"][k], {}) for k in ("a", "b")]
            tys = set()
            for k in ("a", "b"):
                o = st["rv"][k]
                if o["k"] in ("copy", "move"):
                    tys.add(b.local_ty(o["place"]["l"]) if not o["place"]["p"] else str(o["place"]["p"][-1].get("ty")))
                else:
                    tys.add(o.get("ty"))
            if not (tys & {"u8", "u16", "i8", "i16"}):
                continue
            # an operand that is the field itself (not a value computed from it by max / min / a cast)
            hit = [t for t in texts if any(t.endswith("." + f) for f in fields)]
            reads = False
            for k in ("a", "b"):
                o = st["rv"][k]
                if o["k"] in ("copy", "move"):
                    from facts import Origins as _Og
                    for x in _Og(b).of_operand(o):
                        if x[0] in ("field", "place") and any(str(x[-1]).endswith(f) for f in fields):
                            reads = True
            if hit or reads:
                out.append((b, "%s:%d" % (b.file, abs(st.get("line", 0))), op, texts))
    return out


FD_COUNTERS = ("spaces_before", "newlines_before", "indentations_before", "continuations_before")


def check_g(prog, rep):
    """C04.g — "never aborts with an internal error": the layout counters of FormattingData are u16 values filled with saturating conversions
    (a gap of 65535 blanks or line breaks is stored as 65535), so they are combined only with operations that cannot overflow: max, min,
    saturating_*, comparisons, or after widening.  A plain `+` / `*` on two of them panics in a build with overflow checks and wraps to a
    small number without them (a wrapped gap of 0 glues two tokens together)."""
    R = "C04.g"
    sites = unsaturated_counter_arith(prog, "pasfmt_core::lang::FormattingData", FD_COUNTERS)
    rep.check(not sites, R, "counters-combined-without-overflow",
              "a layout counter of FormattingData (a saturated u16) is an operand of a plain `%s` in %s (%s): with a gap of 65535 blanks / line breaks in the input the sum overflows — "
              "a panic with overflow checks, a wrapped (small) count without them" % ((sites[0][2], short(sites[0][0].npath), " , ".join(t[:50] for t in sites[0][3])) if sites else ("", "", "")),
              where=sites[0][1] if sites else None, instance={"sites": len(sites)})
    n = sum(1 for b in prog.bodies.values() if b.crate.startswith("pasfmt") for a in [0] if any(f in str(s_) for _, _, s_ in b.stmts() for f in ("spaces_before",)))
    rep.floor(R, "bodies that mention the layout counters", n, 5)
    # the wrapper's own pair of counters (LineWhitespace: indentations, continuations of a line, u16): one per broken context the line is
    # nested in, so tens of thousands of unclosed brackets reach the maximum — they are combined with saturating operations too, and a
    # wider sum is not narrowed with a truncating `as u16`  [defect #40]
    LW = "pasfmt_core::rules::optimising_line_formatter::types::LineWhitespace"
    sites2 = [x for x in unsaturated_counter_arith(prog, LW, ("indentations", "continuations"))
              if not any("get_level(" in t for t in x[3])]      # (+ a line's nesting level: bounded by the parser's recursion depth, reviewed)
    rep.check(not sites2, R, "line-whitespace-combined-without-overflow",
              "a counter of LineWhitespace (u16, one per broken context around the line) is an operand of a plain `%s` in %s (%s): a line inside more than 65535 broken contexts overflows it — "
              "a panic with overflow checks, a wrapped (small) indentation without them" % ((sites2[0][2], short(sites2[0][0].npath), " , ".join(t[:50] for t in sites2[0][3])) if sites2 else ("", "", "")),
              where=sites2[0][1] if sites2 else None, instance={"sites": len(sites2)})
    narrowed = []
    for b in prog.bodies.values():
        if not b.crate.startswith("pasfmt_core") or "optimising_line_formatter" not in b.npath or "::tests::" in b.npath:
            continue
        for bb, i, st in b.stmts():
            if st["k"] == "assign" and st["rv"]["k"] == "cast" and st["rv"].get("cast") == "IntToInt" and st["rv"].get("ty") == "u16" and st["rv"]["op"]["k"] in ("copy", "move") \
                    and not st["rv"]["op"]["place"]["p"] and b.locals[st["rv"]["op"]["place"]["l"]]["ty"] in ("u64", "usize", "u32"):
                t = canon_operand(b, st["rv"]["op"]) if False else None
                from util import canon as _canon
                t = _canon(b, st["rv"]["op"])
                if t.startswith("sum(") or t.startswith("count(") or t.startswith("fold("):
                    narrowed.append("%s: %s as u16" % (short(b.npath), t[:50]))
    rep.check(not narrowed, R, "sums-not-truncated-to-u16", "a sum over the contexts of a line is narrowed with a truncating `as u16` (%s): above 65535 it wraps to a small number" % narrowed[:2],
              instance={"truncating_narrowings": len(narrowed)})



def check_h(prog, rep):
    """C04.h — the vectorised identifier scanner hands its position to the scalar scanner, which slices the text there (`input[offset..]`
    panics inside a character).  The position stays on a character boundary because the vector loop steps over ASCII bytes only:
    (1) before a chunk is classified, a test on the top bit of every byte (`testz(splat(0x80), chunk)` / `movemask(chunk)`, in the loop
    or in a nested helper) decides between classifying the chunk and leaving the loop for the scalar scanner; (2) the per-byte mask
    that decides how far to step is built from byte comparisons of the chunk (cmpeq / cmpgt, combined with and / or / andnot) — the raw
    chunk itself never reaches it (its top bits are set exactly in the bytes of multi-byte characters, which would then be stepped
    over 32 bytes at a time).  Read off the canonical expression of `movemask`'s operand with the scanner's helpers expanded (simd.py)."""
    R = "C04.h"
    import simd
    cl = simd.classification(prog)
    if cl is None:
        rep.note("C04.h: no AVX2 identifier scanner in this configuration")
        return
    b = cl["main"]
    if not rep.check(len(cl["step"]) >= 1, R, "anchor:movemask", "the vector scanner no longer turns a computed byte mask into a bit mask with movemask (the rule is about how that mask is built)"):
        return
    raw = sorted(set(cl["raw"]))
    rep.check(not raw, R, "step-mask-from-comparisons-only",
              "the mask that decides how many bytes the vector scanner steps over contains %s, not only byte comparisons: the top bit of a raw byte is set in every byte of a multi-byte "
              "character, so the scanner steps through such characters in 32-byte chunks and can hand the scalar scanner a position inside a character (slice panic)"
              % ["the loaded chunk itself" if r == "RAW" else r for r in raw][:2],
              where=cl["step"][0][1].where(), instance={"mask": cl["step"][0][2][:80], "raw_leaves": raw[:3]})
    ok, guard = simd.guard_ok(cl)
    rep.check(ok, R, "non-ascii-chunk-leaves-the-vector-loop",
              "the vector scanner no longer leaves its loop for the scalar scanner when a chunk contains a byte with the top bit set (a test `testz(splat(0x80), chunk)` / `movemask(chunk)` "
              "in front of the classification): it can then step over part of a multi-byte character", where=guard.where() if guard else "%s:%d" % (b.file, b.line),
              instance={"top_bit_test": (guard.callee or "").split("::")[-1] if guard else None})


def check_i(prog, rep):
    """C04.i — building a formatter from a configuration cannot panic.  The front-end library (`pasfmt.lib`: the conversions
    `From<&FormattingConfig>` for the core's settings, the assembly of the formatter, the configuration type's own methods) runs before
    the first byte of input is read, with every value a configuration file or `-C` may hold.  Every panic-capable site in it — unwrap /
    expect / index / slice, a division, and any arithmetic that is checked in a build with overflow checks (`u8 * u8` of two option
    values) — needs a guard the checker derives (the guards of C04.b); the unchanged tree has none at all.  `continuation_indents *
    tab_width` without saturation aborts every run under `tab_width=16, continuation_indents=16`, whatever the input."""
    R = "C04.i"
    # serde's derives (`pasfmt::_::<impl ..>`, anonymous-const impls) are expansions of a foreign macro: they count fields with constant
    # `0 + 1 + 1 ..` under the demo feature and are not part of building a formatter
    scope = lambda b: b.crate == "pasfmt.lib" and not b.j.get("const_fn") and "::tests::" not in b.npath and "::_::" not in b.npath
    bodies = [b for b in prog.bodies.values() if scope(b)]
    conv = [b for b in bodies if "ReconstructionSettings" in b.npath and "From<&" in b.npath.replace(" ", "")] or [b for b in bodies if "ReconstructionSettings" in b.npath and "from" in b.npath.split("::")[-1]]
    rep.check(bool(conv), R, "anchor:conversion-in-scope", "the conversion of FormattingConfig into ReconstructionSettings is not among the %d front-end bodies scanned" % len(bodies))
    rep.floor(R, "front-end library bodies scanned", len(bodies), 22)
    sites = enumerate_sites(prog, include_add=True, scope=scope)
    n_auto = 0
    for s in sites:
        fn = AUTO.get(s.kind)
        why = None
        if fn is not None:
            try:
                why = fn(prog, s)
            except Exception:
                why = None
        if why:
            n_auto += 1
            rep.ok(R, {"site": s.key, "guard": "verified: " + why})
            continue
        rep.fail(R, "site:" + s.key, "building the formatter from a configuration can panic: %s in %s (%s) — a value every configuration may hold reaches an operation "
                 "that aborts (with overflow checks) or wraps (without); use saturating_* / checked_* or widen first" % (s.kind, short(s.body.npath), s.desc),
                 where=s.where(), instance={"site": s.key})
    rep.ok(R, {"front_end_bodies": len(bodies), "panic_capable_sites": len(sites), "verified_by_guard": n_auto})
    # the enumeration itself is exercised on the fixture crate (checked arithmetic must be seen there)
    fx = enumerate_sites(prog, include_add=True, scope=lambda b: b.crate == "pasfmt_canary.lib")
    if any(b.crate == "pasfmt_canary.lib" for b in prog.bodies.values()):
        rep.check(any(x.kind == "arith" for x in fx), R, "fixture:checked-arithmetic-is-enumerated", "no checked arithmetic found in the fixture crate: the enumeration of overflow checks is broken")
