"""E3 — compile-fail witnesses (thorough tier).

witness/src/lib.rs holds doc-tests that use pasfmt's public API as an outside crate: each `compile_fail,E0xxx` block must be rejected
with exactly that error code and its twin (same program, offending line replaced) must compile.  The crate is instantiated with a path
dependency on the tree under analysis and run with `cargo +nightly test --doc --offline` (the stable toolchain ignores error codes).
Nothing of pasfmt is executed except by rustdoc's compile step of the two positive twins that contain no `fn main` body work."""
import hashlib
import json
import os
import re
import shutil
import subprocess

import extract

VERIF = extract.VERIF

# doc-test item -> (property, rule, what the fact means)
WITNESSES = {
    "TrackerSeesSharedTokens": [("C15", "C15.b", "the cursor tracker only sees `&FormattedTokens`"), ("C07", "C07.a", "no mutable token access through a shared FormattedTokens")],
    "IgnoredTokenHasNoMutableDoor": [("C07", "C07.a", "the Err arm of get_token_mut carries no token")],
    "IgnoredFlagIsPrivate": [("C07", "C07.b", "FormattingData.ignored is private")],
    "TokenTextIsPrivate": [("C01", "C01.b", "Token.content is private: set_content is the only door")],
    "FormatterIsSync": [("C18", "C18.b", "Formatter: Sync (and the assertion rejects RefCell<Formatter>)")],
    "FormatTakesSharedSelf": [("C18", "C18.d", "Formatter::format takes &self"), ("C16", "C16.f", "Formatter::format takes &self")],
}


def run_witnesses(repo):
    """{item: [(kind, ok)]} from a fresh doc-test run against `repo`; cached by the tree hash."""
    tag = hashlib.sha256(repo.encode()).hexdigest()[:8]
    work = os.path.join(extract.CACHE, "witness-" + tag)
    want = extract.tree_hash(repo, "witness") + hashlib.sha256(open(os.path.join(VERIF, "witness", "src", "lib.rs"), "rb").read()).hexdigest()
    stamp = os.path.join(work, "RESULT.json")
    if os.path.exists(stamp):
        try:
            st = json.load(open(stamp))
            if st.get("hash") == want:
                return st["results"], True
        except Exception:
            pass
    os.makedirs(os.path.join(work, "src"), exist_ok=True)
    shutil.copy(os.path.join(VERIF, "witness", "src", "lib.rs"), os.path.join(work, "src", "lib.rs"))
    open(os.path.join(work, "Cargo.toml"), "w").write(open(os.path.join(VERIF, "witness", "Cargo.toml.in")).read().replace("@REPO@", repo))
    shutil.copy(os.path.join(repo, "Cargo.lock"), os.path.join(work, "Cargo.lock"))
    env = dict(os.environ, CARGO_NET_OFFLINE="true", CARGO_TARGET_DIR=os.path.join(extract.CACHE, "target-witness"))
    env.pop("RUSTC_WORKSPACE_WRAPPER", None)
    env.pop("RUSTFLAGS", None)
    r = subprocess.run(["cargo", "+nightly", "test", "--doc", "--offline"], cwd=work, env=env, stdout=subprocess.PIPE, stderr=subprocess.STDOUT, text=True)
    results = {}
    for m in re.finditer(r"^test src/lib\.rs - (\w+) \(line \d+\)( - compile fail)? \.\.\. (\w+)", r.stdout, re.M):
        results.setdefault(m.group(1), []).append(("compile_fail" if m.group(2) else "twin", m.group(3) == "ok"))
    if not results:
        raise extract.ExtractError("the witness crate did not build or ran no doc-tests:\n%s" % r.stdout[-3000:])
    json.dump({"hash": want, "results": results}, open(stamp, "w"))
    return results, False


def run(prop, rep, tier):
    mine = {k: v for k, v in WITNESSES.items() if any(p == prop for p, _, _ in v)}
    if not mine:
        return
    if tier != "thorough":
        rep.note("compile-fail witnesses (%s) are evaluated in the thorough tier only" % ", ".join(sorted(mine)))
        return
    try:
        results, cached = run_witnesses(extract.REPO)
    except extract.ExtractError as e:
        rep.fail(prop + ".infra", "witness-build", str(e)[-1500:])
        return
    for item, uses in sorted(mine.items()):
        for p, rule, what in uses:
            if p != prop:
                continue
            got = results.get(item, [])
            kinds = sorted(k for k, _ in got)
            need_fail = "compile_fail" in open(os.path.join(VERIF, "witness", "src", "lib.rs")).read().split("pub struct " + item)[0].rsplit("pub struct ", 1)[-1]
            ok = bool(got) and all(o for _, o in got) and "twin" in kinds and (not need_fail or "compile_fail" in kinds)
            bad = [k for k, o in got if not o]
            rep.check(ok, rule, "witness:" + item, "type-level fact no longer holds — %s: %s" % (what, ("the %s program%s" % (" and ".join(bad), " now compiles / no longer compiles as required") if bad else "witness not run")),
                      where="witness/src/lib.rs (%s)" % item, instance={"witness": item, "fact": what, "programs": kinds, "from_cache": cached})
