"""C13 — scanning is lossless and follows the lexical rules (structural clauses)."""
import re
from facts import norm, Origins, _rv_operands
from progress import dominating_variant_facts
from table import Table, TooComplex, render
from util import canon, short, origins, enum_variants_mentioned

LX = "pasfmt_core::defaults::lexer::"
LANG = "pasfmt_core::lang::"


def consts_in(body, kinds=("int", "char")):
    """all integer / char constants appearing as operands in a body (statements, call args, switch values excluded)"""
    out = []
    for bb, i, s in body.stmts():
        if s["k"] != "assign":
            continue
        for op in _rv_operands(s["rv"]):
            if op["k"] == "const":
                for k in kinds:
                    if k in op:
                        out.append((k, op[k]))
    for c in body.calls():
        for op in c.args:
            if op["k"] == "const":
                for k in kinds:
                    if k in op:
                        out.append((k, op[k]))
    # values matched by SwitchInt on a char / integer scrutinee (`matches!(c, '_' | ..)`)
    for bb in sorted(body.reachable()):
        t = body.blocks[bb]["term"]
        if t["k"] == "switch" and t["discr"]["k"] in ("copy", "move"):
            pl = t["discr"]["place"]
            ty = body.locals[pl["l"]]["ty"]
            if pl["p"]:
                ty = ty.lstrip("&").replace("mut ", "") if all(pe["k"] == "deref" for pe in pl["p"]) else ""
            kind = "char" if ty == "char" else ("int" if ty in ("u8", "u16", "u32", "usize", "i32") else None)
            if kind in kinds:
                for v, _ in t["targets"]:
                    out.append((kind, v))
    return out


def hir_variant(e):
    """('Variant', payload-or-None) of an enum constructor expression in the HIR const tree."""
    if "path" in e:
        return e["path"].split("::")[-1], None
    if "call" in e and "path" in e["call"]:
        return e["call"]["path"].split("::")[-1], e["args"]
    return None, None


def check_c13(prog, rep, tier, cfg):
    c13a(prog, rep)
    c13b(prog, rep)
    c13c(prog, rep)
    c13d(prog, rep)
    c13e(prog, rep)
    c13f(prog, rep)
    c13g(prog, rep)
    c13h(prog, rep)
    c13i(prog, rep)
    c13j(prog, rep)
    c13k(prog, rep)
    c13l(prog, rep)


def c13g(prog, rep):
    """C13.g — the scanner's mode follows the tokens it hands out: LexState.in_asm is set to true exactly on the paths that return the
    keyword `asm`, by the functions that scan words.  A flag computed from anything else than the returned kind (the raw keyword
    lookup of a word that is then returned as an identifier — `Foo.Asm` —) switches the rest of the routine to the asm token rules."""
    R = "C13.g"
    writers = sorted({a[0].npath for a in prog.field_accesses(LX + "LexState", "in_asm") if a[3].startswith("write")})
    if not rep.check(len(writers) >= 1, R, "anchor:in_asm-writers", "no function writes LexState.in_asm"):
        return
    n = 0
    for w in writers:
        b = prog.body(w)
        try:
            tb = Table(prog, b, inline=1, opaque=("find_identifier_end", "get_word_token_type", "eq_ignore_ascii_case"))
        except TooComplex as e:
            rep.fail(R, "mode-table:" + short(w), "%s is no longer a loop-free classifier: %s" % (short(w), e))
            continue
        bad = []
        for (cons, res), eff in zip(tb.rows, tb.effects):
            flag = [render(v) for k, v in eff if k.endswith(".in_asm")]
            kind = res.a[2][1] if res.kind == "agg" and len(res.a[2]) == 2 else None
            if kind is None:
                bad.append("the result is not (offset, kind): %s" % render(res)[:60])
                continue
            rk = render(kind)
            raw = rk[5:] if rk.startswith("call:") else (rk[6:] if rk.startswith("place:") else rk)
            # the facts a path knows about the returned value: `v == Keyword(Asm)` (derived ==) or `matches!(v, Keyword(Asm))` (v is Keyword, v@Keyword.0 is Asm)
            is_asm = rk == "Keyword(Asm)" or any(c[0] == "is" and c[2] == "Asm" and str(c[1]) in (raw, raw + "@Keyword.0") for c in cons)
            not_asm = not is_asm and (rk in ("Identifier",) or rk.startswith("Keyword(") or any(c[0] == "not" and "Asm" in c[2] and str(c[1]) == raw for c in cons))
            n += 1
            if flag and flag[-1] == "True" and not is_asm:
                bad.append("asm mode is switched on while the token returned is %s" % rk[:50])
            if flag and flag[-1] not in ("True", "False"):
                bad.append("asm mode is set to %s, which is not decided by the returned kind" % flag[-1][:60])
            if w.endswith("identifier_or_keyword") and is_asm and (not flag or flag[-1] != "True"):
                bad.append("the keyword `asm` is returned without switching asm mode on")
        rep.check(not bad, R, "mode-follows-returned-kind:" + short(w), "%s: %s" % (short(w), bad[:2]), where="%s:%d" % (b.file, b.line), instance={"writer": short(w), "paths": len(tb.rows)})
    rep.floor(R, "paths of the word scanners classified", n, 4)


# conditional directives whose argument is an expression (Delphi: `{$IF expr}`, `{$ELSEIF expr}`); an expression may contain string
# literals, nested comments and nested directives, so the closing delimiter is the first one OUTSIDE those
EXPRESSION_DIRECTIVES = ("If", "Elseif")


def c13f(prog, rep):
    """Sibling agreement inside parse_directive_expr: every directive kind that takes an expression ends where the expression-aware
    scanner says.  (`$elseif` delimited like a block comment ends at the first `}` of a nested comment or literal; the rest of the
    directive is then cut into other tokens than after `$if`.)"""
    R = "C13.f"
    b = prog.body(LX + "parse_directive_expr")
    if not rep.check(b is not None, R, "anchor:parse_directive_expr", "parse_directive_expr not found"):
        return
    try:
        t = Table(prog, b, inline=1, opaque=("find_directive_expr_end", "find_block_comment_end", "conditional_directive_type"))
    except TooComplex as e:
        rep.fail(R, "parse_directive_expr:table", "parse_directive_expr is no longer a decision table: %s" % e)
        return
    info = prog.adts.get("pasfmt_core::lang::ConditionalDirectiveKind")
    allv = [x["name"] for x in info["variants"]] if info else []
    if not rep.check(set(EXPRESSION_DIRECTIVES) <= set(allv), R, "anchor:ConditionalDirectiveKind", "ConditionalDirectiveKind no longer has the variants %s" % (EXPRESSION_DIRECTIVES,)):
        return
    flag_of_kind = {}
    tables = []
    for path, ca in sorted(prog.const_arrays.items()):
        if not path.startswith(LX) or not isinstance(ca.get("elems"), list):
            continue
        rows_ = []
        for e in ca["elems"]:
            if isinstance(e, list):
                kinds_ = [x["path"].split("::")[-1] for x in e if isinstance(x, dict) and "ConditionalDirectiveKind::" in str(x.get("path", ""))]
                flags_ = [x for x in e if isinstance(x, bool)]
                if len(kinds_) == 1 and len(flags_) == 1:
                    rows_.append((kinds_[0], flags_[0]))
        if rows_ and len(rows_) == len(ca["elems"]):
            tables.append(dict(rows_))
    if len(tables) == 1:
        flag_of_kind = tables[0]
    scanner = {}
    for cons, res in t.rows:
        r = render(res)
        sc = sorted(set(re.findall(r"call:(find_\w+)\(", r)))
        covered = set(allv)
        some = False
        for c in cons:
            if "@Some.0" in str(c[1]):
                some = True
                if c[0] == "is":
                    covered &= {c[2]}
                elif c[0] == "in":
                    covered &= set(c[2])
                elif c[0] == "not":
                    covered -= set(c[2])
        if not some:
            continue
        # the choice may hang on a flag that conditional_directive_type looks up, with the kind, in a constant table of the lexer
        # (`(name, kind, has_expression)` rows): the kinds a flag value stands for are read off that table
        for c in cons:
            if c[0] == "cond" and "conditional_directive_type(" in str(c[1]) and flag_of_kind:
                want_flag = c[2] != 0
                covered &= {k for k, fl in flag_of_kind.items() if fl == want_flag}
        for v in covered:
            scanner.setdefault(v, set()).update(sc or {"?"})
    bad = {v: sorted(scanner.get(v, {"<no row>"})) for v in EXPRESSION_DIRECTIVES if scanner.get(v) != {"find_directive_expr_end"}}
    rep.check(not bad, R, "expression-directives-end-where-their-expression-ends",
              "a conditional directive that takes an expression is not delimited by the expression-aware scanner: %s (a `}` / `*)` inside a nested comment, directive or string literal of "
              "the expression then closes the directive; its siblings %s use find_directive_expr_end)" % (bad, [v for v in EXPRESSION_DIRECTIVES if v not in bad]),
              where="%s:%d" % (b.file, b.line), instance={"scanner_by_kind": {k: sorted(v) for k, v in sorted(scanner.items())}})
    rep.floor(R, "directive kinds with a delimiting scanner", len(scanner), 2)


def _rv_ops_all(rv):
    return [o for o in (rv.get("op"), rv.get("a"), rv.get("b")) if isinstance(o, dict)] + [o for o in rv.get("ops", []) if isinstance(o, dict)]


def c13h(prog, rep):
    """C13.h — "token boundaries of string literals agree with the Delphi lexical rules": a literal is a sequence of quoted segments and
    `#` escapes in any order and number, so the scanner may call a literal complete (SingleLine) only where one of its segment scanners
    has answered that nothing of the literal follows.  In text_literal every path to the construction of `TextLiteral(SingleLine)`
    passes the `Stop` arm of a test on the result of a segment scanner: a return that decides from the opening quotes alone (an even
    run of quotes, a closing quote ..) cuts an empty literal followed by `#13#10` into two tokens."""
    R = "C13.h"
    from progress import variant_arms
    b = prog.body(LX + "text_literal")
    if not rep.check(b is not None, R, "anchor:text_literal", "text_literal not found"):
        return
    done = {bb for bb, i, st in b.stmts() if st["k"] == "assign" and st["rv"]["k"] == "aggregate" and st["rv"].get("variant") == "SingleLine"
            and norm(st["rv"].get("adt", "")).endswith("TextLiteralKind")}
    stops = set()
    scanners = set()
    for sw, key, arms, other in variant_arms(prog, b):
        if "Stop" in arms and key.split("(")[0].startswith("consume_"):
            stops.add(arms["Stop"])
            scanners.add(key.split("(")[0])
    if not done:
        # the segment scanners themselves answer with the kind (`ControlFlow::Break(TextLiteralKind::SingleLine)` for "nothing of the literal
        # follows"), and text_literal only passes it on: the decision is a scanner's by construction
        inner = [x for x in prog.bodies.values() if x.npath.startswith(b.npath + "::consume_") and any(
            st["k"] == "assign" and st["rv"]["k"] == "aggregate" and st["rv"].get("variant") == "SingleLine" and norm(st["rv"].get("adt", "")).endswith("TextLiteralKind")
            for _, _, st in x.stmts())]
        inner += [x for x in prog.bodies.values() if x.npath.startswith(b.npath + "::consume_") and any(
            op.get("enum_variant") == "SingleLine" for _, _, st in x.stmts() if st["k"] == "assign" for op in _rv_ops_all(st["rv"]))]
        if rep.check(bool(inner), R, "single-line-literal-ends-where-a-segment-scanner-stops",
                     "TextLiteral(SingleLine) is built neither in text_literal behind a `Stop` answer of a segment scanner nor by a segment scanner itself",
                     where="%s:%d" % (b.file, b.line), instance={"form": "the segment scanners return the kind", "scanners": sorted({short(x.npath) for x in inner})}):
            return
        return
    if not rep.check(bool(done) and bool(stops), R, "anchor:segment-loop", "text_literal no longer builds SingleLine after testing its segment scanners for `Stop` (done=%d, stop arms=%d)" % (len(done), len(stops))):
        return
    early = [d for d in sorted(done) if b.can_reach_avoiding(0, {d}, stops)]
    rep.check(not early, R, "single-line-literal-ends-where-a-segment-scanner-stops",
              "text_literal can call a literal complete (TextLiteral(SingleLine)) on a path on which no segment scanner has answered `Stop`: escapes or quoted segments that follow "
              "directly (an empty literal followed by #13#10) are cut off into a token of their own", where="%s:%d" % (b.file, b.line),
              instance={"segment_scanners": sorted(scanners), "stop_arms": len(stops), "completions": len(done)})


def c13j(prog, rep, R="C13.j"):
    """C13.j — a multi-line literal (`'''` .. `'''`) is a token of its own that ends with its closing quotes: once text_literal has decided
    that the literal is of kind MultiLine, none of the segment scanners of single-line literals (`#` escapes, further quoted segments)
    runs any more.  The string formatter relies on it (the last line of the token is blanks and quotes, otherwise the literal is left
    alone): `'''#13#10` taken as one token is never re-indented, while the wrapper still moves its opening quotes."""
    from util import family_bodies
    b = prog.body(LX + "text_literal")
    if not rep.check(b is not None, R, "anchor:text_literal", "text_literal not found"):
        return

    def builds_multiline(x):
        out = []
        for bb, i, st in x.stmts():
            if st["k"] != "assign":
                continue
            rv = st["rv"]
            if rv["k"] == "aggregate" and rv.get("variant") == "MultiLine" and norm(rv.get("adt", "")).endswith("TextLiteralKind"):
                out.append(bb)
            elif any(op.get("enum_variant") == "MultiLine" for op in _rv_ops_all(rv)):
                out.append(bb)
        return out
    sites = set(builds_multiline(b))
    scanners = set()
    for body, anchor, _chain in family_bodies(prog, b, depth=2):
        if body is b:
            continue
        if anchor is not None and builds_multiline(body) and "::consume_" not in body.npath:
            sites.add(anchor)
    scan_calls = {c.bb for c in b.calls() if "::consume_" in norm(c.t.get("resolved") or c.callee or "") and norm(c.t.get("resolved") or c.callee or "").startswith(b.npath)}
    if not rep.check(bool(sites), R, "anchor:MultiLine", "text_literal no longer builds TextLiteral(MultiLine)"):
        return
    late = sorted(s0 for s0 in sites if b.reach_from(s0, include_start=False) & scan_calls)
    rep.check(not late, R, "multi-line-literal-ends-with-its-closing-quotes",
              "after text_literal has decided that a literal is of kind MultiLine it can still run a segment scanner of single-line literals: `#` escapes or quoted segments written directly "
              "behind the closing quotes become part of the token, its last line is no longer blanks and quotes, and the string formatter leaves the literal's indentation alone",
              where="%s:%d" % (b.file, b.line), instance={"decision_points": len(sites), "segment_scanner_calls": len(scan_calls)})


def c13k(prog, rep, R="C13.k"):
    """C13.k — "a character string is one token": `#13#10`, `#$D#$A`, `#%1#%0` written one after the other belong to the same literal.  The
    segment scanner of text_literal that takes a *run* of `#` character codes (the one with a loop) answers `Continue` — go on with the
    next kind of segment — only where it has looked at the byte at the current position and found no further `#`: on every path of one
    iteration (its helpers expanded) that returns Continue nothing has been consumed.  An arm that returns right after its digits
    (`return consume_prefixed_digits(..)`) ends the run after one hex / binary code, and the wrapper may break the line inside the
    constant."""
    from table import Table, TooComplex, render
    b = prog.body(LX + "text_literal")
    if not rep.check(b is not None, R, "anchor:text_literal", "text_literal not found"):
        return
    scanners = [x for x in prog.bodies.values() if x.npath.startswith(b.npath + "::consume_") and x.kind != "Closure" and x.loops()]
    if not rep.check(len(scanners) >= 1, R, "anchor:run-scanner", "text_literal has no segment scanner with a loop any more (the scanner of consecutive `#` character codes)"):
        return
    n = 0
    for x in scanners:
        heads = set(x.loops())
        bad = []
        try:
            for h in sorted(heads):
                tb = Table(prog, x, start=h, stop=heads, inline=1, max_paths=6000)
                for (cons, res), eff, end in zip(tb.rows, tb.effects, tb.ends):
                    if end is None and res is not None and render(res).split("(")[0] == "Continue":      # ParseState::Continue / ControlFlow::Continue(())
                        n += 1
                        if eff:
                            bad.append("returns Continue after consuming (%s)" % "; ".join(str(e)[:50] for e in eff[:2]))
        except TooComplex as e:
            rep.fail(R, "run-scanner:table:" + short(x.npath), "one iteration of %s can no longer be enumerated path by path: %s" % (short(x.npath), e))
            continue
        rep.check(not bad, R, "run-of-character-codes-ends-only-at-a-non-hash:%s" % short(x.npath),
                  "%s: %s — the run of `#` character codes ends there although another `#` may follow: `'a'#$D#$A'b'` is cut into `'a'#$D` and `#$A'b'`" % (short(x.npath), bad[:2]),
                  where="%s:%d" % (x.file, x.line), instance={"scanner": short(x.npath), "paths_returning_Continue": n})
    rep.floor(R, "paths of the run scanner that return Continue", n, 1)


def _eval_u64(desc, word):
    """value of an integer / boolean description over one 64-bit word (wrapping arithmetic); raises ValueError for anything else"""
    from table import split_call
    M = (1 << 64) - 1
    d = desc.strip()
    if d.startswith("place:") or d.startswith("sym:") or d.startswith("call:"):
        d = d.split(":", 1)[1]
    if re.match(r"^-?\d+$", d):
        return int(d) & M
    sc = split_call(d)
    if not sc:
        raise ValueError(d[:40])
    nm, args = sc[0].split("::")[-1], sc[1]
    if nm in ("from_ne_bytes", "from_le_bytes", "from_be_bytes"):
        return word if nm != "from_be_bytes" else int.from_bytes(word.to_bytes(8, "little"), "big")
    a = [_eval_u64(x, word) for x in args]
    two = {"Add": lambda x, y: (x + y) & M, "AddWithOverflow": lambda x, y: (x + y) & M, "wrapping_add": lambda x, y: (x + y) & M, "Sub": lambda x, y: (x - y) & M,
           "wrapping_sub": lambda x, y: (x - y) & M, "BitAnd": lambda x, y: x & y, "BitOr": lambda x, y: x | y, "BitXor": lambda x, y: x ^ y,
           "Shl": lambda x, y: (x << (y & 63)) & M, "Shr": lambda x, y: x >> (y & 63), "Mul": lambda x, y: (x * y) & M, "wrapping_mul": lambda x, y: (x * y) & M,
           "Eq": lambda x, y: int(x == y), "Ne": lambda x, y: int(x != y), "Lt": lambda x, y: int(x < y), "Le": lambda x, y: int(x <= y), "Gt": lambda x, y: int(x > y), "Ge": lambda x, y: int(x >= y)}
    if nm in two and len(a) == 2:
        return two[nm](a[0], a[1])
    if nm == "Not" and len(a) == 1:
        return (~a[0]) & M
    raise ValueError(nm)


def swar_scanners(prog, prefix):
    """[(body, bytes accepted by the word trick only, error)] for every function under `prefix` that loads a word of input in a loop"""
    from table import Table, TooComplex, run_concrete, eval_desc, vdesc, Unknown
    out = []
    for b in prog.bodies.values():
        if not b.npath.startswith(prefix) or "::tests::" in b.npath or "avx2" in b.npath or not b.loops():
            continue
        loads = [c for c in b.calls() if (c.callee or "").split("::")[-1] in ("from_ne_bytes", "from_le_bytes", "from_be_bytes") and "u64" in str(c.t.get("callee_args", "")) + (c.callee or "") + b.locals[c.t["dst"]["l"]]["ty"]]
        if not loads:
            continue
        # the bytewise predicate of the same function: a bool closure over one byte
        preds = []
        for x in prog.bodies.values():
            if x.npath.startswith(b.npath + "::{closure") and x.locals[0]["ty"] == "bool" and not x.loops():
                ps = [i for i in range(1, x.arg_count + 1) if x.locals[i]["ty"].replace("&", "").strip() == "u8"]
                if len(ps) == 1:
                    preds.append((x, ps[0]))
        heads = set(b.loops())
        bad, err = [], None
        try:
            if not preds:
                raise ValueError("no bytewise predicate in the function")
            ptb = Table(prog, preds[0][0], inline=1)

            def accepts(v):
                res, _ = run_concrete(ptb, {"arg%d" % preds[0][1]: v})
                return bool(eval_desc(vdesc(res), {"arg%d" % preds[0][1]: v}))
            good = [v for v in range(256) if accepts(v)]
            filler = good[0]
            for h in sorted(heads):
                tb = Table(prog, b, start=h, stop=heads, inline=1, max_paths=4000)
                for (cons, res), end in zip(tb.rows, tb.ends):
                    conds = [(str(c[1]), c[2]) for c in cons if c[0] == "cond" and re.search(r"from_(ne|le|be)_bytes\(", str(c[1]))]
                    if end is None or not conds:
                        continue
                    for lane_i in range(8):
                        for v in range(256):
                            word = 0
                            for k in range(8):
                                word |= (v if k == lane_i else filler) << (8 * k)
                            if all((_eval_u64(t, word) != 0) == (want != 0) for t, want in conds) and not accepts(v):
                                bad.append(v)
        except (TooComplex, Unknown, ValueError, IndexError, KeyError) as e:
            err = str(e)[:80]
        out.append((b, sorted(set(bad)), err))
    return out


def c13l(prog, rep, R="C13.l"):
    """C13.l — sibling agreement of a word-at-a-time fast path with the bytewise scanner behind it.  Where a scanner of the lexer loads
    several bytes of the input as one integer (`u64::from_ne_bytes` ..) and steps over the whole word when a bit trick says so, every
    byte value the trick accepts is a byte the bytewise predicate of the same function accepts: the conditions on the path that goes
    on with the next word are evaluated for every byte value in every lane (the other lanes holding a byte both accept).  A nibble
    trick for digits that also passes `* + , - . /` takes `1234567+7` for one number."""
    found = swar_scanners(prog, LX)
    for b, bad, err in found:
        rep.check(not bad and err is None, R, "word-at-a-time:%s" % short(b.npath),
                  "%s steps over a whole word of input when a bit trick accepts it, but the trick %s: a token boundary then depends on how the text is aligned in 8-byte words"
                  % (short(b.npath), ("cannot be evaluated (%s)" % err) if err else "also accepts the bytes %s, which the bytewise scanner of the same function does not" % sorted({chr(v) if 32 <= v < 127 else hex(v) for v in bad})[:8]),
                  where="%s:%d" % (b.file, b.line), instance={"scanner": short(b.npath), "accepted_by_the_trick_only": bad[:8]})
    rep.note("C13.l: %d word-at-a-time scanners in the lexer" % len(found))
    # positive fixture: the rule is dormant on the unchanged tree, so it is exercised on the canary crate in every run
    import canary as _canary
    _canary.swar(rep, R)


def c13a(prog, rep):
    R = "C13.a"
    wt = prog.body(LX + "whitespace_and_token")
    if rep.check(wt is not None, R, "anchor:whitespace_and_token", "whitespace_and_token not found"):
        sp = wt.calls_to("core::str::split_at")
        cw = wt.calls_to(LX + "count_leading_whitespace")
        if rep.check(len(sp) == 1 and len(cw) == 1, R, "one-split-one-count", "whitespace_and_token must call split_at and count_leading_whitespace exactly once each"):
            rep.check(canon(wt, sp[0].args[0]) == "arg1" and canon(wt, cw[0].args[0]) == "arg1", R, "split-and-count-on-the-input", "split_at / count_leading_whitespace no longer operate on the function's input parameter")
            end_o = origins(wt).of_operand(sp[0].args[1])
            srcs = set()
            for x in end_o:
                if x[0] == "call" and x[2] == "<fnptr>":
                    # `let lex_next = state.token_lexer(); lex_next(args)`: the functions the pointer can be
                    from util import fnptr_targets
                    site = [c for c in wt.calls() if c.bb == x[1]]
                    srcs |= (fnptr_targets(prog, wt, site[0]) if site else None) or {"<fnptr>"}
                elif x[0] == "call":
                    srcs.add(x[2])
            rep.check(srcs == {LX + "lex_token", LX + "lex_asm_token"} and all(x[0] == "call" for x in end_o), R, "split-at-sublexer-end",
                      "the split offset is not exactly the end offset returned by the sub-lexer: %s" % sorted(map(str, end_o)), instance={"split_offset_origin": ["lex_token", "lex_asm_token"]})
            # the returned pair is (suffix, LexedToken{ws_count, prefix, type})
            ok = False
            for bb, i, s in wt.stmts():
                if s["k"] == "assign" and s["rv"]["k"] == "aggregate" and s["rv"].get("adt", "").endswith("LexedToken"):
                    f = dict(zip(s["rv"]["fields"], s["rv"]["ops"]))
                    ok = canon(wt, f["whitespace_count"]) == "count_leading_whitespace(arg1)" and canon(wt, f["token_content"]).startswith("split_at(arg1,") \
                        and canon(wt, f["token_content"]).endswith(".0")
            rep.check(ok, R, "token=prefix", "LexedToken is not {count_leading_whitespace(input), prefix of split_at(input, end)}", instance={"token_content": "split_at(input,end).0"})
            rets = []
            for bb, i, s in wt.stmts():
                if s["k"] == "assign" and s["rv"]["k"] == "aggregate" and s["rv"].get("agg") == "tuple" and len(s["rv"]["ops"]) == 2:
                    c0 = canon(wt, s["rv"]["ops"][0])
                    if c0.startswith("split_at("):
                        rets.append(c0)
            rep.check(len(rets) == 1 and rets[0].endswith(".1"), R, "remaining=suffix", "the remaining input is not the suffix of the same split_at: %s" % rets, instance={"remaining": "split_at(input,end).1"})
            # sub-lexer starts after the counted blanks
            la = [s for _, _, s in wt.stmts() if s["k"] == "assign" and s["rv"]["k"] == "aggregate" and s["rv"].get("adt", "").endswith("LexArgs")]
            ok = len(la) == 1
            if ok:
                f = dict(zip(la[0]["rv"]["fields"], la[0]["rv"]["ops"]))
                ok = canon(wt, f["input"]) == "arg1" and canon(wt, f["offset"]) == "count_leading_whitespace(arg1)"
            rep.check(ok, R, "sublexer-gets-input-and-blank-count", "LexArgs is not {input, offset: count_leading_whitespace(input)}")
    lx = prog.body(LX + "lex")
    if rep.check(lx is not None, R, "anchor:lex", "lex not found"):
        pushes = lx.calls_to("alloc::vec::Vec::push")
        wts = lx.calls_to(LX + "whitespace_and_token")
        eofs = lx.calls_to(LX + "eof")
        if rep.check(len(pushes) == 2 and len(wts) == 1 and len(eofs) == 1, R, "lex:two-pushes", "lex must push once per scanned token and once for Eof (pushes=%d, scans=%d, eof=%d)" % (len(pushes), len(wts), len(eofs))):
            loops = lx.loops()
            inloop = [c for c in pushes if any(c.bb in L for L in loops.values())]
            after = [c for c in pushes if c not in inloop]
            ok = len(inloop) == 1 and len(after) == 1
            if ok:
                c_in = canon(lx, inloop[0].args[1])
                c_af = canon(lx, after[0].args[1])
                ok = c_in.startswith("to_final_token(whitespace_and_token(") and "@Some.0.1" in c_in and c_af.startswith("to_final_token(eof(") and c_af.endswith(".1)")
            rep.check(ok, R, "lex:push-scanned-then-eof", "lex does not push to_final_token(scanned token) in the loop and to_final_token(eof token) after it",
                      instance={"in_loop": "to_final_token(whitespace_and_token(input,..).1)", "after_loop": "to_final_token(eof(input).1)"})
            # the loop-carried input (the `mut input` parameter) is replaced only by the remainder returned by the scan
            stores = [(bb, s) for bb, i, s in lx.stmts() if s["k"] == "assign" and s["dst"]["l"] == 1 and not s["dst"]["p"]]
            vals = sorted(canon_rv(lx, s) for bb, s in stores)
            good = len(vals) == 1 and "whitespace_and_token(" in vals[0] and vals[0].endswith("@Some.0.0")
            rep.check(good, R, "lex:input=remaining", "the loop-carried input of lex is assigned something other than the scan's remainder: %s" % vals, instance={"stores": vals})
            eo = canon(lx, eofs[0].args[0])
            rep.check(eo == "arg1", R, "lex:eof-on-the-remainder", "eof() is not called on the loop-carried input: %s" % eo)
            rep.check(canon(lx, wts[0].args[0]) == "arg1", R, "lex:scan-the-carried-input", "whitespace_and_token is not called on the loop-carried input")
    # Eof is constructed only by eof(), which splits at the blank count
    makers = set()
    for k, b in prog.bodies.items():
        if b.crate != "pasfmt_core.lib":
            continue
        for a, v in enum_variants_mentioned(b):
            if a == LANG + "RawTokenType" and v == "Eof" and not b.j.get("const_fn"):
                # only *constructions* count: aggregates; comparisons use promoted refs (&Eof)
                for bb, i, s in b.stmts():
                    if s["k"] == "assign" and s["rv"]["k"] == "aggregate" and s["rv"].get("variant") == "Eof" and norm(s["rv"].get("adt", "")) == LANG + "RawTokenType":
                        makers.add(k)
    rep.check(makers == {LX + "eof"}, R, "Eof-constructed-only-in-eof", "RawTokenType::Eof is constructed in %s" % sorted(short(m) for m in makers), instance={"makers": sorted(short(m) for m in makers)})
    tf = prog.body(LX + "to_final_token")
    if rep.check(tf is not None, R, "anchor:to_final_token", "to_final_token not found"):
        rn = tf.calls_to(LANG + "RawToken::new")
        ok = len(rn) == 1
        if ok:
            a = [canon(tf, x) for x in rn[0].args]
            ok = a[0] == "arg1.token_content" and a[2] == "arg1.token_type" and a[1].startswith("unwrap_or_else(try_into(arg1.whitespace_count)")
        rep.check(ok, R, "to_final_token:fields-pass-through", "to_final_token does not pass content / blank count / type through unchanged")
    lc = prog.body(LX + "lex_complete")
    if rep.check(lc is not None, R, "anchor:lex_complete", "lex_complete not found"):
        ok = len(lc.calls_to(LX + "lex")) == 1 and len(lc.calls_to("core::str::is_empty")) == 1
        rep.check(ok, R, "lex_complete:asserts-empty-remainder", "lex_complete no longer checks that nothing remains")
    dl = prog.body("<pasfmt_core::defaults::lexer::DelphiLexer as pasfmt_core::traits::Lexer>::lex")
    if rep.check(dl is not None, R, "anchor:DelphiLexer::lex", "DelphiLexer::lex not found"):
        rep.check([c.callee for c in dl.calls()] == [LX + "lex_complete"], R, "DelphiLexer=lex_complete", "DelphiLexer::lex is not exactly lex_complete(input): %s" % [c.callee for c in dl.calls()])


def canon_rv(body, s):
    from table import canon_operand, canon_place
    rv = s["rv"]
    if rv["k"] == "use":
        return canon_operand(body, rv["op"], {})
    if rv["k"] == "ref":
        return canon_place(body, rv["place"], {})
    return rv["k"]


def c13b(prog, rep):
    R = "C13.b"
    avx = prog.body(LX + "find_identifier_end_avx2")
    gen = prog.find(r"lexer::find_identifier_end_generic::\{closure#0\}$")
    if not rep.check(avx is not None and len(gen) == 1, R, "anchor:identifier-end-routines", "find_identifier_end_avx2 / generic closure not found"):
        return
    gen = gen[0]
    # The scalar predicate, evaluated on every ASCII character and on non-ASCII probes
    from table import Table, TooComplex, run_concrete, eval_desc, vdesc, Unknown
    import simd
    scalar, serr = None, None
    cp = [i for i in range(1, gen.arg_count + 1) if gen.locals[i]["ty"].replace("&", "").strip() == "char"]
    try:
        tb = Table(prog, gen, inline=1)
        scalar = set()
        for ch in list(range(128)) + [0x80, 0xE9, 0x2003, 0x3000, 0x3001, 0x1F600]:
            res, _ = run_concrete(tb, {"arg%d" % cp[0]: ch})
            if bool(eval_desc(vdesc(res), {"arg%d" % cp[0]: ch})):
                scalar.add(ch)
    except (TooComplex, Unknown, IndexError, KeyError, TypeError) as e:
        serr = str(e)
    want = {ord(c) for c in "abcdefghijklmnopqrstuvwxyzABCDEFGHIJKLMNOPQRSTUVWXYZ0123456789_"}
    rep.check(scalar is not None and {c for c in scalar if c < 128} == want and {0x80, 0xE9, 0x2003, 0x3001, 0x1F600} <= scalar and 0x3000 not in scalar, R, "generic-char-constants",
              "the scalar identifier predicate does not accept exactly [A-Za-z0-9_] and every non-ASCII character but U+3000: %s" % (serr or sorted(hex(c) for c in (scalar ^ want) if c < 128)[:6]),
              instance={"ascii_accepted": "".join(chr(c) for c in sorted(c for c in (scalar or ()) if c < 128)), "probes": 134})
    gchars = sorted({v for k, v in consts_in(gen, ("char",))})
    # The vector scanner, read per byte lane (simd.py): which ASCII bytes its step mask takes for identifier bytes
    cl = simd.classification(prog)
    if rep.check(cl is not None and cl["accepts"] is not None and cl["polarity"] is not None, R, "avx2-classification", "the byte classification of the AVX2 routine cannot be read off its movemask operand: %s"
                 % (cl and (cl["error"] or "steps=%d polarity=%s" % (len(cl["step"]), cl["polarity"])))):
        acc = cl["accepts"]
        rep.check(scalar is not None and acc == {c for c in scalar if c < 128}, R, "AGREE:avx2=generic(ascii)",
                  "AVX2 and scalar routines disagree on ASCII identifier characters: only one of them accepts %s" % sorted(repr(chr(c)) for c in (acc ^ {c for c in (scalar or ()) if c < 128}))[:8],
                  instance={"avx2": "".join(chr(c) for c in sorted(acc)), "polarity": cl["polarity"]})
    # a bit mask held in movemask's signed result is not widened with sign extension (`mask as u64` copies the bit of byte 31 into all the
    # upper bits: two masks combined that way hide the second chunk's zeros whenever the first chunk is full)
    sx = simd.sign_extended_masks(prog)
    rep.check(not sx, R, "avx2-mask-widened-without-sign-extension", "the AVX2 routine widens a movemask result held in a signed integer directly (%s): the sign bit (byte 31 of the chunk) "
              "fills the new upper bits, so the bits of a second chunk or-ed in there are lost and the identifier end is reported too late" % (sx[0][2] if sx else ""),
              where=sx[0][1] if sx else None, instance={"sign_extending_widenings": len(sx)})
    # AVX2 defers to the scalar routine for the tail and on any non-ASCII byte
    tails = avx.calls_to(LX + "find_identifier_end_generic")
    rep.check(len(tails) == 1, R, "avx2-tail=generic", "the AVX2 routine does not finish with find_identifier_end_generic")
    ok = False
    if cl is not None and tails:
        ok, guard = simd.guard_ok(cl)
        if ok:
            # leaving the loop on that test leads to the scalar routine, at the unchanged offset of the chunk
            ok = any(tails[0].bb in avx.reach_from(y, avoid=set(avx.loops()), include_start=True) for y in avx.reach_from(guard.bb, include_start=True)
                     if not any(y in L for L in avx.loops().values()))
    rep.check(ok, R, "avx2-non-ascii=>generic", "a chunk containing a non-ASCII byte is not handed to the scalar routine")
    # the lexer's start-byte map agrees: identifier start ranges
    cm = prog.const_arrays.get(LX + "COMMON_LEXER_MAP")
    if rep.check(cm is not None and "expr" in cm, R, "anchor:COMMON_LEXER_MAP", "COMMON_LEXER_MAP initialiser not found"):
        rows = cm["expr"]["args"][0]
        starts = {}
        for r in rows:
            v, payload = hir_variant(r[0])
            h = r[1]["args"][0]["path"].split("::")[-1] if "call" in r[1] else None
            if v == "Range":
                lo, hi = [list(x.values())[0] for x in payload[0]["args"]]
                starts.setdefault(h, []).append((lo, hi))
            elif v == "List":
                for b in payload[0]["bytes"]:
                    starts.setdefault(h, []).append((b, b))
        ident = sorted(starts.get("identifier_or_keyword", []) + starts.get("identifier", []))
        rep.check(ident == [(65, 90), (95, 95), (97, 122)], R, "map:identifier-start-bytes", "identifier start bytes in the dispatch map are %s" % ident, instance={"identifier_start": ident})
        rep.check(sorted(starts.get("unicode_identifier", [])) == [(128, 255)], R, "map:non-ascii=>unicode_identifier", "non-ASCII start bytes are dispatched to %s" % starts.get("unicode_identifier"))
        rep.check(sorted(starts.get("dec_number_literal", [])) == [(48, 57)], R, "map:digits", "digit start bytes: %s" % starts.get("dec_number_literal"))
        covered = set()
        for h, rs in starts.items():
            for lo, hi in rs:
                covered |= set(range(lo, hi + 1))
        rep.analysed["dispatch_map_bytes_with_handler"] = len(covered)
        rep.floor(R, "dispatch map rows", len(rows), 27)
    blank_definition(prog, rep, R)
    blank_scanner_stops_only_at_non_blank(prog, rep, R)
    # dispatcher stores/uses only the two sibling routines
    det = prog.body(LX + "find_identifier_end_x86_64::detect")
    if rep.check(det is not None, R, "anchor:detect", "detect not found"):
        fns = set()
        for bb, i, s in det.stmts():
            if s["k"] == "assign" and s["rv"]["k"] == "cast" and s["rv"]["op"]["k"] == "const" and "fn" in s["rv"]["op"]:
                fns.add(norm(s["rv"]["op"]["fn"]))
        rep.check(fns == {LX + "find_identifier_end_avx2", LX + "find_identifier_end_generic"}, R, "detect-selects-siblings", "detect can select %s" % sorted(short(f) for f in fns),
                  instance={"candidates": sorted(short(f) for f in fns)})
        fd = [c for c in det.calls() if "is_feature_detected" in (c.callee or "") or "detect" in (c.callee or "")]
        rep.check(len(fd) >= 1, R, "avx2-only-if-detected", "detect no longer asks for the avx2 CPU feature")


def blank_scanner_stops_only_at_non_blank(prog, rep, R):
    """Maximal munch for blanks: count_leading_whitespace returns only at a position where the next character is evidently not blank.
    Every path to its return (one iteration of each scanning loop, and the loop-free paths) is classified: the value hands the rest
    to the complete per-character scanner (count_unicode_whitespace, whose predicate is checked against the blank set separately);
    or the input is exhausted; or the byte / character tested last is, by the comparisons on the path, outside {<= U+0020, U+3000}
    (for bytes: also not 0xE3, the lead byte of U+3000).  A scanner that takes the two kinds of blank in two consecutive runs stops
    in front of a blank that follows a run of the second kind: that blank becomes a token of its own and is emitted as it is."""
    from table import eval_desc, Unknown
    b = prog.body(LX + "count_leading_whitespace")
    if not rep.check(b is not None, R, "anchor:count_leading_whitespace", "count_leading_whitespace not found"):
        return
    headers = set(b.loops())
    tables = []
    try:
        tables.append(("entry", Table(prog, b, start=0, stop=headers, max_paths=2000)))
        for h in sorted(headers):
            tables.append(("loop@bb%d" % h, Table(prog, b, start=h, stop=headers, max_paths=2000)))
    except TooComplex as e:
        rep.fail(R, "blank-scanner:table", "count_leading_whitespace can no longer be enumerated path by path: %s" % e)
        return
    # library scans with a closure predicate P over the input's bytes / characters (`position`, `find`): `None` means that no element
    # satisfies P, the element at the returned index satisfies P, everything in front of it does not
    from table import run_concrete, vdesc
    scans = []
    for c in b.calls():
        nm = (c.callee or "").split("::")[-1]
        if nm in ("position", "find") and len(c.args) == 2 and c.args[1]["k"] in ("copy", "move") and not c.args[1]["place"]["p"]:
            cb = prog.body(norm(b.locals[c.args[1]["place"]["l"]].get("closure") or ""))
            if cb is None or cb.loops():
                continue
            try:
                ctb = Table(prog, cb, inline=1)
            except TooComplex:
                continue

            def pred(v, ctb=ctb, n=cb.arg_count):
                res, _ = run_concrete(ctb, {"arg%d" % n: v})
                return bool(eval_desc(vdesc(res), {"arg%d" % n: v}))
            scans.append((nm, canon(b, c.args[0]), pred))

    # `count(take_while(bytes(S), P))` = n: the n elements in front satisfy P, the element at n (if there is one) does not
    prefix_counts = []
    for c in b.calls():
        nm = (c.callee or "").split("::")[-1]
        if nm == "take_while" and len(c.args) == 2 and c.args[1]["k"] in ("copy", "move") and not c.args[1]["place"]["p"]:
            cb = prog.body(norm(b.locals[c.args[1]["place"]["l"]].get("closure") or ""))
            if cb is None or cb.loops():
                continue
            try:
                ctb = Table(prog, cb, inline=1)
            except TooComplex:
                continue

            def tpred(v, ctb=ctb, n=cb.arg_count):
                res, _ = run_concrete(ctb, {"arg%d" % n: v})
                return bool(eval_desc(vdesc(res), {"arg%d" % n: v}))
            prefix_counts.append((canon(b, c.args[0]), tpred))
            try:
                taken = [v for v in range(256) if tpred(v)]
                if ("bytes(" in canon(b, c.args[0])) and [v for v in taken if v > 0x20]:
                    pass_over = ["U+%04X" % v for v in taken if v > 0x20][:3]
                else:
                    pass_over = []
            except Unknown:
                pass_over = []
            if pass_over:
                prefix_counts[-1] = prefix_counts[-1] + (pass_over,)

    def stopped_at(text):
        """text = `get(as_bytes(S), count(take_while(bytes(S), closure)))..` -> the predicate the element there fails"""
        m = re.match(r"^get\((?:as_bytes|deref)?\(?(.+?)\)?,count\(take_while\((.+),closure[^)]*\)\)\)", text)
        if not m:
            return None
        for recv, tp, *rest in prefix_counts:
            if recv == m.group(2):
                return tp
        return None

    def scan_for(text):
        for nm, recv, pred in scans:
            if text.startswith("%s(%s," % (nm, recv)):
                return recv, pred
        return None
    bad, nexits, too_much = [], 0, []
    for pc in prefix_counts:
        if len(pc) == 3:
            too_much.append("take_while(..).count(): counts %s as blanks" % pc[2])
    for nm, recv, pred in scans:
        try:
            skipped = [v for v in range(256) if not pred(v)]
        except Unknown:
            continue
        if "as_bytes(" in recv or "bytes(" in recv:
            nb = [v for v in skipped if v > 0x20]
            if nb:
                too_much.append("%s(..): skips over %s" % (nm, ["U+%04X" % v for v in nb[:3]]))
    for where, tb in tables:
        for cons, res in tb.rows:
            if res.kind == "agg" and res.a and res.a[0] == "state":
                # goes on scanning (next iteration / next loop): what was consumed on the way must be blank — when the path is decided
                # by comparisons on a byte / character, every value that satisfies them lies in the blank set
                if where != "entry":
                    cm = {}
                    for c in cons:
                        m = re.match(r"^(Gt|Ge|Lt|Le|Eq|Ne)\((.+),(?:char:)?(\d+)\)$", str(c[1])) if c[0] == "cond" else None
                        if m:
                            cm.setdefault(m.group(2), []).append((str(c[1]), c[2]))
                    for x, cs in cm.items():
                        isbyte = "as_bytes(" in x or "bytes(" in x
                        cand = list(range(0, 256)) + ([] if isbyte else [0x2000, 0x2FFF, 0x3000, 0x3001, 0xFEFF, 0x1F600])
                        try:
                            sat = [v for v in cand if all(bool(eval_desc(d.replace(x, "X"), {"X": v})) == (t != 0) for d, t in cs)]
                        except Unknown:
                            continue
                        nonblank = [v for v in sat if not (v <= 0x20 or v == 0x3000)]
                        if nonblank:
                            too_much.append("%s: goes on scanning over %s" % (where, ["U+%04X" % v for v in nonblank[:3]]))
                continue
            nexits += 1
            r = render(res)
            if "count_unicode_whitespace(" in r:
                continue
            if any(c[0] == "is" and c[2] == "None" and str(c[1]).startswith("next(") for c in cons):
                continue
            if any(c[0] == "cond" and c[2] != 0 and re.match(r"^is_empty\(", str(c[1])) for c in cons):
                continue
            # `bytes.get(n)` is None for the returned n: the input is exhausted
            rv = r[5:] if r.startswith("call:") else r
            if any(c[0] == "is" and c[2] == "None" and re.match(r"^get\(.+,%s\)$" % re.escape(rv), str(c[1])) for c in cons):
                continue
            # a library scan that found nothing: every element fails P; fine when everything that fails P is blank and all of it is counted
            none_scan = [scan_for(str(c[1])) for c in cons if c[0] == "is" and c[2] == "None"]
            none_scan = [x for x in none_scan if x]
            if none_scan and "len(" in r:
                try:
                    if all(v <= 0x20 for v in range(256) if not none_scan[0][1](v)):
                        continue
                except Unknown:
                    pass
            cmps = {}
            for c in cons:
                m = re.match(r"^(Gt|Ge|Lt|Le|Eq|Ne)\((.+),(?:char:)?(\d+)\)$", str(c[1])) if c[0] == "cond" else None
                if m:
                    cmps.setdefault(m.group(2), []).append((str(c[1]), c[2]))
                    continue
                # character-class tests of the standard library (`b.is_ascii()`): modelled concretely by table.CHAR_MODELS
                m = re.match(r"^(!?)(is_ascii|is_ascii_whitespace|is_whitespace|is_control|is_ascii_control)\((.+)\)$", str(c[1])) if c[0] == "cond" else None
                if m:
                    cmps.setdefault(m.group(3), []).append((str(c[1]), c[2]))
            verdict = None
            for x, cs in cmps.items():
                isbyte = "as_bytes(" in x or "bytes(" in x
                cand = list(range(0, 256)) + ([] if isbyte else [0x2000, 0x2FFF, 0x3000, 0x3001, 0xFEFF, 0x1F600])
                # `S[position(iter(S), P)@Some.0]`: the element the scan stopped at satisfies P
                m2 = re.match(r"^(.+)\[((?:position|find)\(.+\))@Some\.0\]$", x)
                found_by = scan_for(m2.group(2)) if m2 else None
                fails = stopped_at(x) if x.endswith("@Some.0") else None
                try:
                    sat = [v for v in cand if all(bool(eval_desc(d.replace(x, "X"), {"X": v})) == (t != 0) for d, t in cs)]
                    if found_by and m2.group(1) in found_by[0]:
                        sat = [v for v in sat if found_by[1](v)]
                    if fails:
                        sat = [v for v in sat if not fails(v)]
                except Unknown:
                    continue
                blanks = [v for v in sat if v <= 0x20 or v == 0x3000 or (isbyte and v == 0xE3)]
                verdict = not blanks if verdict is None else (verdict or not blanks)
            if verdict:
                continue
            bad.append("%s: returns %s under %s" % (where, r[:60], [str(c[1])[:70] + ("" if c[2] != 0 else " = false") for c in cons if c[0] == "cond"] or [str(c[1:])[:70] for c in cons]))
    rep.check(not bad and nexits >= 1, R, "blank-scanner-stops-only-at-non-blank",
              "count_leading_whitespace can return at a position where the next character may still be a blank (neither the rest is handed to the complete scanner, nor is the input exhausted, "
              "nor do the comparisons on the path exclude {<= U+0020, U+3000}): %s" % bad[:2], where="%s:%d" % (b.file, b.line), instance={"exits": nexits, "loops": len(headers)})
    rep.check(not too_much, R, "blank-scanner-consumes-only-blanks",
              "count_leading_whitespace counts a character that is not blank as leading whitespace (whitespace is regenerated from counters, so the character is lost): %s" % too_much[:2],
              where="%s:%d" % (b.file, b.line), instance={"loops": len(headers)})


def blank_definition(prog, rep, R):
    """What the lexer drops as a token's leading whitespace is exactly the blank set {<= 0x20, U+3000} (the whitespace is
    regenerated from counters, so a non-blank character counted here is lost: shared by C13.b and C01.e)."""
    gen = prog.find(r"lexer::find_identifier_end_generic::\{closure#0\}$")
    gchars = sorted({v for k, v in consts_in(gen[0], ("char",))}) if len(gen) == 1 else []
    cl = prog.body(LX + "count_leading_whitespace")
    cuw = prog.body(LX + "count_unicode_whitespace")
    if not rep.check(cl is not None and cuw is not None, R, "anchor:blank-counters", "count_leading_whitespace / count_unicode_whitespace not found"):
        return

    def family(b):
        """the function, its closures and the lexer helpers it calls directly (a predicate may be a closure or an extracted fn)"""
        out = [b] + [x for x in prog.bodies.values() if x.npath.startswith(b.npath + "::")]
        for x in list(out):
            for c in x.calls():
                cands = [c.target or ""] + [norm(a["fn"]) for a in c.args if a["k"] == "const" and a.get("fn")]      # also a predicate handed over as a function item
                for t in cands:
                    cb = prog.body(t)
                    if cb is not None and cb.npath.startswith(LX) and cb not in out and cb.npath not in (LX + "count_unicode_whitespace", LX + "count_leading_whitespace"):
                        out.append(cb)
        return out
    # (which bytes the ASCII part accepts, and that it hands over to the complete scanner, is decided path-wise by
    #  blank_scanner_stops_only_at_non_blank — the constants 0x20 / 0x7F are no longer matched literally)
    # the per-character predicate of the unicode counter, wherever it lives: run it on probe characters
    from table import Table, TooComplex, run_concrete, eval_desc, vdesc, Unknown
    probes = [0x00, 0x09, 0x0A, 0x0D, 0x20, 0x21, 0x41, 0x7F, 0x80, 0x85, 0xA0, 0x1680, 0x2003, 0x2028, 0x2FFF, 0x3000, 0x3001, 0x303F, 0xFEFF, 0x1F600]
    preds = []
    for x in family(cuw):
        if x.locals[0]["ty"] != "bool" or x.loops():
            continue
        cparams = [i for i in range(1, x.arg_count + 1) if x.locals[i]["ty"].replace("&", "").strip() == "char"]
        if len(cparams) != 1:
            continue
        preds.append((x, cparams[0]))
    good = len(preds) >= 1
    verdicts = {}
    for x, pi in preds:
        try:
            tb = Table(prog, x, inline=1)
            for ch in probes:
                res, _ = run_concrete(tb, {"arg%d" % pi: ch})
                verdicts[ch] = bool(eval_desc(vdesc(res), {"arg%d" % pi: ch}))
                good &= verdicts[ch] == (ch <= 0x20 or ch == 0x3000)
        except (TooComplex, Unknown) as e:
            good = False
            verdicts["error"] = str(e)
    rep.check(good, R, "blank:unicode<=0x20|U+3000", "the per-character predicate of count_unicode_whitespace is not `c <= U+0020 || c == U+3000` on the probe characters: %s" % {hex(k) if isinstance(k, int) else k: v for k, v in verdicts.items() if isinstance(k, str) or v != (k <= 0x20 or k == 0x3000)},
              instance={"predicates": [short(x.npath) for x, _ in preds], "probes": len(probes)})
    rep.check(0x3000 in gchars, R, "AGREE:U+3000-excluded-from-identifiers", "U+3000 is blank but no longer excluded from identifier characters")



BLANK_PROBES = [0x00, 0x09, 0x0A, 0x0B, 0x0C, 0x0D, 0x1F, 0x20, 0x21, 0x41, 0x7B, 0x7F, 0x80, 0x85, 0xA0, 0x1680, 0x2003, 0x2028, 0x202F, 0x2FFF, 0x3000, 0x3001, 0x303F, 0xFEFF, 0x1F600]
UNICODE_WS_ROUTINES = ("trim", "trim_start", "trim_end", "trim_left", "trim_right", "split_whitespace", "is_whitespace")


def c13i(prog, rep):
    """C13.i — one blank set in the whole lexer.  Where a token ends against blanks (the leading-whitespace counters, the tail of an
    unterminated comment / directive that is left to the end-of-file token ..) is decided by per-character tests; every such test in
    the lexer module — a closure or function from one character to bool that behaves like a blank test on ASCII (true for every
    probe <= U+0020, false for `!`, `A`, `{`, DEL) — accepts exactly {<= U+0020, U+3000} on the non-ASCII probes too, and no lexer
    function cuts text with a library routine that has its own, wider notion (`str::trim*`, `split_whitespace`,
    `char::is_whitespace` handed over as a function).  Two tests that disagree (U+00A0, U+0085, U+2003 .. are White_Space for
    the standard library and not blank for Delphi) cut one character off a token on one side that the other side does not take:
    it becomes a token of its own kind."""
    R = "C13.i"
    from table import Table, TooComplex, run_concrete, eval_desc, vdesc, Unknown
    n = 0
    for b in prog.bodies.values():
        if not b.npath.startswith(LX) or "::tests::" in b.npath:
            continue
        # (a) library routines with the Unicode White_Space notion
        for c in b.calls():
            nm = (c.callee or "").split("::")[-1]
            if (c.callee or "").startswith("core::str::") and nm in UNICODE_WS_ROUTINES and not c.callee.endswith("_matches"):
                rep.fail(R, "library-whitespace:%s:%s" % (short(b.npath), nm), "%s cuts text with %s, whose notion of whitespace is Unicode White_Space and not the lexer's blank set {<= U+0020, U+3000}"
                         % (short(b.npath), c.callee), where=c.where())
        # (b) per-character tests
        if b.locals[0]["ty"] != "bool" or b.loops():
            continue
        cparams = [i for i in range(1, b.arg_count + 1) if b.locals[i]["ty"].replace("&", "").strip() == "char"]
        others = [i for i in range(1, b.arg_count + 1) if i not in cparams and "closure" not in b.locals[i]["ty"]]
        if len(cparams) != 1 or others:
            continue
        pi = cparams[0]
        verdicts = {}
        try:
            tb = Table(prog, b, inline=1)
            for ch in BLANK_PROBES:
                res, _ = run_concrete(tb, {"arg%d" % pi: ch})
                verdicts[ch] = bool(eval_desc(vdesc(res), {"arg%d" % pi: ch}))
        except (TooComplex, Unknown, KeyError, TypeError, ValueError) as e:
            rep.note("C13.i: %s is a character test that is not evaluated (%s)" % (short(b.npath), str(e)[:60]))
            continue
        ascii_like = all(verdicts[ch] == (ch <= 0x20) for ch in BLANK_PROBES if ch < 0x80)
        if not ascii_like:
            continue
        n += 1
        diff = {hex(ch): v for ch, v in verdicts.items() if ch >= 0x80 and v != (ch == 0x3000)}
        rep.check(not diff, R, "blank-test:%s" % short(b.npath),
                  "%s is a blank test (true for every character up to U+0020, false for `!`, `A`) that does not accept exactly {<= U+0020, U+3000}: %s — the lexer's blank tests "
                  "no longer agree, so a character that one of them skips and another does not is cut off its token" % (short(b.npath), diff),
                  where="%s:%d" % (b.file, b.line), instance={"test": short(b.npath), "probes": len(BLANK_PROBES), "accepts_above_ascii": ["U+3000"] if not diff else sorted(diff)})
    for c in prog.who_calls("core::char::methods::is_whitespace", mentions=True):
        if c.body.npath.startswith(LX) and c.callee != "core::char::methods::is_whitespace":
            rep.fail(R, "library-whitespace:%s:is_whitespace-as-fn" % short(c.body.npath), "%s hands char::is_whitespace to %s: Unicode White_Space, not the lexer's blank set"
                     % (short(c.body.npath), c.callee), where=c.where())
    rep.floor(R, "blank tests of the lexer evaluated on the probe characters", n, 1)


def c13e(prog, rep):
    """Closed inventory of the terminator searches of the lexer (library byte searches that decide where a token ends),
    and agreement of each block-comment kind with its own closing delimiter."""
    R = "C13.e"
    from progress import dominating_variant_facts
    rows = []
    for b in prog.bodies.values():
        if not b.npath.startswith(LX):
            continue
        for c in b.calls():
            if (c.callee or "").startswith("memchr::"):
                args = []
                for a in c.args:
                    x = canon(b, a)
                    if len(x) > 70:   # long start expressions are summarised by their range shape (names inside are not stable)
                        x = re.sub(r"\{.*\}", "{..}", x)
                    args.append(x)
                rows.append((b.npath[len(LX):], c.callee.split("::")[-1], tuple(args)))
    want = [
        ("_block_comment", "memchr", ("10", "index(as_bytes(arg1.input),Range{arg1.offset,arg3@Some.0})")),
        ("find_block_comment_end", "find", ("index(as_bytes(arg1.input),RangeFrom{arg1.offset})", "b'*)'")),
        ("find_block_comment_end", "memchr", ("125", "index(as_bytes(arg1.input),RangeFrom{arg1.offset})")),
        ("line_comment", "memchr2", ("10", "13", "index(as_bytes(arg1.input),RangeFrom{arg1.offset})")),
        ("text_literal", "find", ("index(as_bytes(arg1.input),RangeFrom{..})", "index(as_bytes(arg1.input),Range{..})")),
        ("text_literal::consume_pascal_str", "memchr3", ("39", "10", "13", "index(as_bytes(arg1),RangeFrom{arg2})")),
    ]
    extra = sorted(set(rows) - set(want))
    missing = sorted(set(want) - set(rows))
    # a search that moved into a nested helper of the reviewed function (same routine, same constant needles; the text searched is then a
    # parameter): the same search, re-anchored
    isconst = lambda a: a.isdigit() or a.startswith("b'")
    for m in list(missing):
        for e in list(extra):
            if e[0].startswith(m[0] + "::") and e[1] == m[1] and len(e[2]) == len(m[2]) and [a for a in e[2] if isconst(a)] == [a for a in m[2] if isconst(a)] \
                    and len([r for r in rows if r[0].startswith(m[0]) and r[1] == m[1]]) == len([w for w in want if w[0].startswith(m[0]) and w[1] == m[1]]):
                rep.note("C13.e: the %s search of %s is now in its nested helper %s" % (m[1], m[0], e[0]))
                missing.remove(m)
                extra.remove(e)
                break
    rep.check(not extra and not missing, R, "terminator-searches", "the lexer's byte searches changed: new/changed %s, gone %s (each decides where a token ends: needle set and the text searched are reviewed)" % (extra, missing),
              instance={"searches": ["%s: %s%s" % r for r in sorted(rows)]})
    fb = prog.body(LX + "find_block_comment_end")
    if rep.check(fb is not None, R, "anchor:find_block_comment_end", "find_block_comment_end not found"):
        pairs = {}
        for c in fb.calls():
            if not (c.callee or "").startswith("memchr::"):
                continue
            kinds = [f[2][0] for f in dominating_variant_facts(prog, fb, c.bb) if f[1] == "is"]
            needle = [a for a in c.args if a["k"] == "const" or canon(fb, a).startswith("b'")]
            ntxt = [canon(fb, a) for a in needle]
            nlen = len(eval(ntxt[0])) if ntxt and ntxt[0].startswith("b'") else 1
            # the closure mapped over the result adds offset + found + <needle length>
            added = None
            for m in fb.calls_to("core::option::Option::map"):
                o = Origins(fb).of_operand(m.args[0])
                if any(x[0] == "call" and x[1] == c.bb for x in o):
                    clos = fb.locals[m.args[1]["place"]["l"]].get("closure") if m.args[1]["k"] in ("copy", "move") else None
                    cb = prog.body(norm(clos)) if clos else None
                    if cb is not None:
                        added = sorted(v for k, v in consts_in(cb) if k == "int")
            pairs[tuple(kinds)] = (c.callee.split("::")[-1], ntxt, nlen, added)
        want2 = {("ParenStar",): ("find", ["b'*)'"], 2, [2]), ("Brace",): ("memchr", ["125"], 1, [1])}
        rep.check(pairs == want2, R, "AGREE:kind<->closing-delimiter", "block-comment kinds are closed by %s (expected ParenStar: first `*)` after the opener, +2; Brace: first `}`, +1)" % pairs,
                  instance={"pairs": {"/".join(k): str(v) for k, v in pairs.items()}})


def c13c(prog, rep):
    R = "C13.c"
    kw = prog.const_arrays.get(LX + "KEYWORDS")
    if not rep.check(kw is not None and kw.get("elems"), R, "anchor:KEYWORDS", "KEYWORDS table not found"):
        return
    rows = kw["elems"]
    rep.floor(R, "keyword table entries", len(rows), 122)
    strings = []
    variants = []
    for r in rows:
        s = r[0].get("str")
        tt, payload = hir_variant(r[1])
        kk, kpay = hir_variant(payload[0]) if payload else (None, None)
        strings.append(s)
        variants.append(kk)
        rep.check(s is not None and s == s.lower() and s.isascii() and s.isalpha(), R, "kw:lower-ascii:" + str(s), "keyword table string %r is not lower-case ASCII letters" % s, nontrivial=False) if False else None
        good = s is not None and s.isascii() and s.isalpha() and s == s.lower() and tt in ("Keyword", "IdentifierOrKeyword") and kk is not None and kk.lower() == s
        rep.check(good, R, "kw:%s" % s, "keyword table row %r -> %s(%s): the string must be the lower-cased variant name" % (s, tt, kk), instance={"keyword": s, "variant": kk, "class": tt})
    rep.check(len(set(strings)) == len(strings), R, "kw:strings-unique", "duplicate keyword strings")
    info = prog.adts.get(LANG + "KeywordKind")
    if rep.check(info is not None, R, "anchor:KeywordKind", "KeywordKind variants not found"):
        allv = sorted(v["name"] for v in info["variants"])
        rep.check(sorted(variants) == allv, R, "kw:bijection-with-KeywordKind", "keyword table and KeywordKind disagree: missing %s, extra/duplicate %s"
                  % (sorted(set(allv) - set(variants)), sorted(v for v in variants if variants.count(v) > 1 or v not in allv)), instance={"variants": len(allv)})
    gw = prog.body(LX + "get_word_token_type")
    if rep.check(gw is not None, R, "anchor:get_word_token_type", "get_word_token_type not found"):
        eq = gw.calls_to("core::str::eq_ignore_ascii_case")
        ok = len(eq) == 1 and canon(gw, eq[0].args[0]) == "arg1"
        if ok:
            # the keyword result is returned only under eq_ignore_ascii_case == true; otherwise Identifier
            from panic import dominating_conditions
            kw_ret = [bb for bb, i, s in gw.stmts() if s["k"] == "assign" and s["dst"]["l"] == 0 and s["rv"]["k"] == "use" and s["rv"]["op"]["k"] in ("copy", "move")]
            ok = len(kw_ret) >= 1 and all(any(c[0] == "call" and c[1].endswith("eq_ignore_ascii_case") and c[3] is True for c in dominating_conditions(gw, bb)) for bb in kw_ret)
            ident = [v for a, v in enum_variants_mentioned(gw) if a == LANG + "RawTokenType"]
            ok &= ident == ["Identifier"]
        rep.check(ok, R, "keyword-only-if-text-matches", "get_word_token_type can return a keyword type without a case-insensitive match of the whole word (or no longer falls back to Identifier)",
                  instance={"guard": "input.eq_ignore_ascii_case(candidate)", "fallback": "Identifier"})


def c13d(prog, rep):
    R = "C13.d"
    lc = prog.body(LX + "line_comment")
    if rep.check(lc is not None, R, "anchor:line_comment", "line_comment not found"):
        try:
            t = Table(prog, lc)
            good = len(t.rows) >= 2
            n_inline = 0
            for cons, res in t.rows:
                r = render(res)
                inline = "InlineLine" in r
                conds = {c[1]: c[2] for c in cons if c[0] == "cond"}
                nl = [v for k, v in conds.items() if k.startswith("contains(")]
                first = [v for k, v in conds.items() if k.endswith("is_first")]
                if inline:
                    n_inline += 1
                    good &= nl == [0] and first == [0]
                else:
                    good &= "IndividualLine" in r and (nl != [0] or first != [0])
            rep.check(good and n_inline == 1, R, "line_comment:inline-iff-no-newline-before-and-not-first",
                      "line_comment classifies a comment as InlineLine although a line break precedes it or it is the first token (or vice versa)", instance={"rows": len(t.rows)})
            # the contains() argument is the text before the comment and the pattern is '\n'
            ct = lc.calls_to("core::str::contains")
            rep.check(len(ct) == 1 and ct[0].args[1]["k"] == "const" and ct[0].args[1].get("char") == 10 and "RangeTo{arg1.offset}" in canon(lc, ct[0].args[0]), R,
                      "line_comment:looks-at-text-before", "line_comment does not look for '\\n' in input[..offset]")
        except TooComplex as e:
            rep.fail(R, "line_comment:table", "line_comment is no longer loop-free: %s" % e)
    bk = prog.body(LX + "block_comment_kind")
    if rep.check(bk is not None, R, "anchor:block_comment_kind", "block_comment_kind not found"):
        t = Table(prog, bk)
        got = sorted((tuple(sorted((c[1], c[2] != 0) for c in cons if c[0] == "cond")), render(res)) for cons, res in t.rows)
        want = sorted([((("arg1", False), ("arg2", False)), "InlineBlock"), ((("arg1", True), ("arg2", False)), "IndividualBlock"), ((("arg2", True),), "MultilineBlock")])
        rep.check(got == want, R, "block_comment_kind:table", "block_comment_kind(nl_before, nl_inside) table changed: %s" % got, instance={"table": [list(map(str, g)) for g in got]})
    bc = prog.body(LX + "_block_comment")
    if rep.check(bc is not None, R, "anchor:_block_comment", "_block_comment not found"):
        k = bc.calls_to(LX + "block_comment_kind")
        ok = len(k) == 1
        if ok:
            a0 = canon(bc, k[0].args[0])
            a1 = canon(bc, k[0].args[1])
            o0 = Origins(bc).of_operand(k[0].args[0])
            ok = "memchr(10," in a1 and "Range{arg1.offset," in a1
            cs = [c for c in bc.calls() if (c.callee or "") == "core::slice::contains"]
            ok &= len(cs) == 1 and "RangeTo{arg1.offset}" in canon(bc, cs[0].args[0])
            reads_first = any(a[3] == "read" for a in prog.field_accesses(LX + "LexState", "is_first", within={bc.npath}))
            ok &= reads_first
        rep.check(ok, R, "_block_comment:nl_before/nl_inside", "_block_comment does not derive nl_before from (text before ∋ '\\n' ∨ is_first) and nl_inside from the comment's own text")
    # is_first is cleared after the first token and set only at the start
    w = [(a[0].npath, a[3]) for a in prog.field_accesses(LX + "LexState", "is_first") if a[3].startswith("write")]
    from layout import helper_closure
    wn = {x[0] for x in w}
    part = helper_closure(prog, wn, {LX + "whitespace_and_token"})     # a private helper called only from whitespace_and_token is part of it
    rep.check(bool(wn) and all(x == LX + "whitespace_and_token" or x in part for x in wn), R, "who-writes:is_first", "LexState.is_first is written in %s" % sorted(short(x[0]) for x in w),
              instance={"writers": sorted(short(x) for x in wn)})


PROPERTIES = {
    "C13": (check_c13,
            "Structural clauses of C13: (a) prefix-split discipline — each token is the prefix of split_at(input, end) with end returned by the sub-lexer started after "
            "count_leading_whitespace(input), the remainder is the suffix of the same split and is the only thing fed back; tokens are pushed in order; exactly one Eof, "
            "constructed only in eof() and pushed after the loop; fields pass through to_final_token unchanged; (b) sibling tables agree: AVX2 ranges = scalar predicate's "
            "ASCII set = identifier start bytes of the dispatch map; non-ASCII defers to the scalar routine; blank = {<=0x20, U+3000} in all three places; the CPU dispatcher "
            "selects only the two siblings; (c) keyword table: 122 lower-case ASCII strings, each the lower-cased name of its KeywordKind variant, bijective with the enum; a "
            "keyword type is returned only under eq_ignore_ascii_case of the whole word; (d) Inline* comment kinds only when no line break precedes and the token is not first. "
            "(e) closed inventory of the lexer's library byte searches (needles, text searched) and agreement of each block-comment kind with its closing delimiter and the length added. "
            "Not decided: boundary positions computed by hand-written sub-lexer loops, the AVX2 chunk/tail arithmetic, non-empty-content clause. Added in round 6: (f) directive kinds that take an expression (If, Elseif) end where find_directive_expr_end says; (b) includes maximal munch of the blank scanner. Added in round 7: (g) the lexer's asm mode is switched on exactly on the paths that return the keyword asm.", []),
}
