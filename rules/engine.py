"""Rule-engine infrastructure: rule results, violations, known findings, evidence files."""
import json
import os
import time

VERIF = os.path.dirname(os.path.dirname(os.path.abspath(__file__)))
EVIDENCE_DIR = os.environ.get("VERIF_EVIDENCE_DIR") or os.path.join(VERIF, "evidence")
KNOWN = os.path.join(VERIF, "known_findings.json")


class Violation:
    def __init__(self, rule, key, message, where=None, detail=None):
        self.rule = rule          # e.g. "C04.a"
        self.key = key            # stable key without line numbers
        self.message = message
        self.where = where        # file:line (diagnostic only)
        self.detail = detail or {}

    def to_json(self):
        return {"rule": self.rule, "key": self.key, "message": self.message, "where": self.where, "detail": self.detail}


class Report:
    """Collects rule instances (obligations) and violations for one property/config."""

    def __init__(self, prop, config="default"):
        self.prop = prop
        self.config = config
        self.instances = []       # {rule, instance, verdict, nontrivial}
        self.violations = []
        self.notes = []
        self.analysed = {}
        self.exceptions_used = []

    def ok(self, rule, instance, nontrivial=True, **extra):
        d = {"rule": rule, "instance": instance, "verdict": "holds", "nontrivial": nontrivial}
        d.update(extra)
        self.instances.append(d)

    def fail(self, rule, key, message, where=None, instance=None, **detail):
        self.instances.append({"rule": rule, "instance": instance or key, "verdict": "VIOLATED", "nontrivial": True})
        self.violations.append(Violation(rule, key, message, where, detail))

    def check(self, cond, rule, key, message_if_fail, where=None, instance=None, **detail):
        if cond:
            self.ok(rule, instance or key)
        else:
            self.fail(rule, key, message_if_fail, where, instance, **detail)
        return cond

    def floor(self, rule, what, count, minimum):
        """Fail closed when fewer instances than counted by hand are found."""
        # `minimum` is the number counted by hand on the reviewed tree; the check tolerates clean-ups that merge or remove a few
        # instances (a loop turned into an iterator chain, two stores merged) but not the disappearance of the rule's basis
        threshold = minimum if minimum <= 2 else max(2, (minimum * 3 + 4) // 5)
        if count < threshold:
            self.fail(rule, "floor:%s" % what, "anchor/instance floor not met for %s: found %d, expected at least %d "
                      "(the structural basis of this rule is gone or moved)" % (what, count, threshold))
            return False
        self.ok(rule, "floor:%s>=%d (found %d)" % (what, minimum, count), nontrivial=False)
        return True

    def exception(self, rule, name, reason):
        self.exceptions_used.append({"rule": rule, "symbol": name, "reason": reason})

    def note(self, s):
        self.notes.append(s)


import re as _re


class AliasReport:
    """Forwards the results of selected rule instances of another property's check under a rule id of this property; everything
    else that check reports is dropped (it is reported by the property it belongs to)."""

    def __init__(self, rep, mapping):
        self._rep = rep
        self._map = mapping            # [(rule, key regex, new rule)]

    def _to(self, rule, key):
        for r, rx, new in self._map:
            if r == rule and _re.search(rx, str(key)):
                return new
        return None

    def ok(self, rule, instance, nontrivial=True, **extra):
        new = self._to(rule, instance if isinstance(instance, str) else "")
        if new:
            self._rep.ok(new, instance, nontrivial, **extra)

    def fail(self, rule, key, message, where=None, instance=None, **detail):
        new = self._to(rule, key)
        if new:
            self._rep.fail(new, key, message, where, instance, **detail)

    def check(self, cond, rule, key, message_if_fail, where=None, instance=None, **detail):
        new = self._to(rule, key)
        if new:
            self._rep.check(cond, new, key, message_if_fail, where, instance, **detail)
        return cond

    def floor(self, rule, what, count, minimum):
        new = self._to(rule, "floor:" + what)
        if new:
            return self._rep.floor(new, what, count, minimum)
        threshold = minimum if minimum <= 2 else max(2, (minimum * 3 + 4) // 5)
        return count >= threshold

    def exception(self, rule, name, reason):
        pass

    def note(self, s):
        pass

    def __getattr__(self, name):
        return getattr(self._rep, name)


def load_known():
    if not os.path.exists(KNOWN):
        return {"findings": [], "fixed": []}
    return json.load(open(KNOWN))


def finish(prop, tier, reports, t0, explanation, assumptions, trusted_base, checker_cmd, extra_cov=None, seed=0):
    """Merge per-config reports, apply known findings, print VIOLATION / KNOWN-FINDING lines, write evidence.
    Returns process exit code."""
    known = load_known()
    known_keys = {(k["property"], k["rule"], k["key"]): k for k in known.get("findings", [])}
    os.makedirs(os.path.join(EVIDENCE_DIR, "violations"), exist_ok=True)
    # clean old replay files of this property
    vdir = os.path.join(EVIDENCE_DIR, "violations")
    for f in os.listdir(vdir):
        if f.startswith(prop + "-"):
            os.remove(os.path.join(vdir, f))
    n_viol = 0
    printed_known = set()
    all_instances = []
    seen_v = set()
    for rep in reports:
        for inst in rep.instances:
            i2 = dict(inst)
            i2["config"] = rep.config
            all_instances.append(i2)
        for v in rep.violations:
            kk = (prop, v.rule, v.key)
            if kk in known_keys:
                if kk not in printed_known:
                    printed_known.add(kk)
                    print("KNOWN-FINDING: property=%s rule=%s %s" % (prop, v.rule, known_keys[kk].get("what", v.message)))
                continue
            if (v.rule, v.key) in seen_v:
                continue
            seen_v.add((v.rule, v.key))
            n_viol += 1
            path = os.path.join(vdir, "%s-%d.json" % (prop, n_viol))
            d = v.to_json()
            d["property"] = prop
            d["config"] = rep.config
            json.dump(d, open(path, "w"), indent=1)
            print("[%s %s] %s%s" % (v.rule, rep.config, v.message, (" @ " + v.where) if v.where else ""))
            print("VIOLATION property=%s replay=%s" % (prop, path))
    distinct = set()
    for i in all_instances:
        if i.get("nontrivial"):
            distinct.add((i["rule"], json.dumps(i["instance"], sort_keys=True, default=str)))
    obligations = len(set((i["rule"], json.dumps(i["instance"], sort_keys=True, default=str), i["config"]) for i in all_instances))
    discharged = len(set((i["rule"], json.dumps(i["instance"], sort_keys=True, default=str), i["config"]) for i in all_instances if i["verdict"] == "holds"))
    samples = []
    per_rule = {}
    for i in all_instances:
        per_rule.setdefault(i["rule"], []).append(i)
    for r, lst in sorted(per_rule.items()):
        for i in lst[:3]:
            samples.append({"rule": r, "instance": i["instance"], "verdict": i["verdict"], "config": i["config"]})
    cov = {
        "explanation": explanation,
        "obligations": obligations,
        "discharged": discharged,
        "evaluations": len(all_instances),
        "distinct_nontrivial": len(distinct),
        "rule": "one evaluation per (rule, instance, configuration); an instance is non-trivial when deciding it needed at "
                "least one resolved call site, CFG query or type fact (floor/bookkeeping entries are trivial); distinct = distinct (rule, instance) pairs",
        "samples": samples[:60],
        "checker_cmd": checker_cmd,
        "trusted_base": trusted_base,
        "rules": {r: {"instances": len(l), "violated": sum(1 for x in l if x["verdict"] != "holds")} for r, l in sorted(per_rule.items())},
        "configs": [r.config for r in reports],
        "analysed": reports[0].analysed if reports else {},
        "exceptions_used": [e for r in reports[:1] for e in r.exceptions_used],
        "known_findings_matched": [list(k) for k in sorted(printed_known)],
        "notes": [n for r in reports[:1] for n in r.notes],
        "exhaustive": False,
    }
    if extra_cov:
        cov.update(extra_cov)
    ev = {
        "property_id": prop,
        "tier": tier,
        "seed": seed,
        "level": "other",
        "coverage": cov,
        "assumptions": assumptions,
        "wall_s": round(time.time() - t0, 2),
        "violations": n_viol,
    }
    os.makedirs(EVIDENCE_DIR, exist_ok=True)
    json.dump(ev, open(os.path.join(EVIDENCE_DIR, prop + ".json"), "w"), indent=1)
    print("[%s] tier=%s configs=%s rules=%d instances=%d violations=%d known=%d wall=%.1fs" % (
        prop, tier, ",".join(cov["configs"]), len(per_rule), len(all_instances), n_viol, len(printed_known), ev["wall_s"]))
    return 1 if n_viol else 0
