"""Runs the rules of one property over one or more extraction configurations and writes evidence."""
import importlib
import os
import sys
import time

import engine
import extract
from facts import Program

TRUSTED = [
    "rustc 1.97.0-nightly front end, type checker and MIR construction (facts are read from optimized_mir at -Zmir-opt-level=0)",
    "facts-driver (this repository): faithful dump of MIR bodies, resolved callees (Instance::try_resolve), ADT/impl/static tables",
    "rules/*.py: CFG, dominator, loop, origin-set and table computations",
    "named-library-function semantics (String::push_str appends, Vec::clear empties, File::set_len truncates, Iterator::next consumes, ...)",
]

COMMON_ASSUMPTIONS = [
    "analysed: lib+bin targets of pasfmt-core, pasfmt-orchestrator, pasfmt for the host target (x86_64 linux); #[cfg(test)], #[cfg(windows)] code and the web crate are not compiled and not analysed",
    "dependencies (std, encoding_rs, config, rayon, clap, serde, memchr, itertools) are trusted by name, their bodies are not analysed",
    "the structural clauses named in `explanation` are decided; the behavioural property as a whole is not (see level_note in MANIFEST.json)",
]

ALL_CFGS = ["default", "release", "fromstr", "demo"]
# property id -> (module, configs for quick, configs for thorough)
PROPS = {
    "C02": ("c02", ["default"], ALL_CFGS),
    "C03": ("c03", ["default"], ALL_CFGS),
    "C04": ("c04", ["default"], ALL_CFGS),
    "C01": ("text", ["default"], ALL_CFGS),
    "C05": ("c05", ["default"], ALL_CFGS),
    "C06": ("layout", ["default"], ALL_CFGS),
    "C07": ("text", ["default"], ALL_CFGS),
    "C08": ("layout", ["default"], ALL_CFGS),
    "C09": ("layout", ["default"], ALL_CFGS),
    "C10": ("layout", ["default"], ALL_CFGS),
    "C11": ("layout", ["default"], ALL_CFGS),
    "C12": ("strings", ["default"], ALL_CFGS),
    "C13": ("lexer_rules", ["default"], ALL_CFGS),
    "C14": ("parse_cov", ["default"], ALL_CFGS),
    "C15": ("config", ["default"], ALL_CFGS),
    "C16": ("orch", ["default"], ALL_CFGS),
    "C17": ("orch", ["default"], ALL_CFGS),
    "C18": ("orch", ["default"], ALL_CFGS),
    "C19": ("config", ["default"], ALL_CFGS),
}


def _round8_note(prop):
    try:
        import notes_round8
        return notes_round8.NOTES.get(prop, "")
    except Exception:
        return ""


def run(prop, tier, seed, only_rule=None):
    t0 = time.time()
    if prop not in PROPS:
        print("unknown or unclaimed property %s" % prop)
        return 2
    modname, quick_cfgs, thorough_cfgs = PROPS[prop]
    cfgs = thorough_cfgs if tier == "thorough" else quick_cfgs
    mod = importlib.import_module(modname)
    if hasattr(mod, "PROPERTIES"):
        checkfn, explanation, extra_assumptions = mod.PROPERTIES[prop]
    else:
        checkfn, explanation, extra_assumptions = mod.check, mod.EXPLANATION, getattr(mod, "ASSUMPTIONS", [])
    reports = []
    for cfg in cfgs:
        rep = engine.Report(prop, cfg)
        try:
            d, info = extract.extract(cfg)
        except extract.ExtractError as e:
            rep.fail(prop + ".infra", "extract:" + cfg, "fact extraction failed for configuration %s — a check that cannot see the code must not pass:\n%s" % (cfg, str(e)[-1500:]))
            reports.append(rep)
            continue
        prog = Program(d)
        rep.prog = prog
        rep.analysed.update({
            "config": cfg,
            "facts_cached": info.get("cached"),
            "bodies": len(prog.bodies),
            "call_sites": sum(len(b.calls()) for b in prog.bodies.values()),
            "crates": sorted(prog.crates),
            "tree_hash": info.get("hash"),
        })
        try:
            checkfn(prog, rep, tier, cfg)
            if cfg == cfgs[0]:
                import canary
                canary.run(prop, rep)
                import witness
                witness.run(prop, rep, tier)
        except Exception as e:  # fail closed
            import traceback
            rep.fail(prop + ".infra", "exception:%s" % type(e).__name__, "rule engine crashed (%s) — failing closed:\n%s" % (e, traceback.format_exc()[-2000:]))
        reports.append(rep)
    return engine.finish(
        prop, tier, reports, t0,
        explanation=(explanation + " " + _round8_note(prop)).strip(),
        assumptions=COMMON_ASSUMPTIONS + list(extra_assumptions),
        trusted_base=TRUSTED,
        checker_cmd="./verif check %s --tier %s" % (prop, tier),
        seed=seed,
    )
