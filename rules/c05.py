"""C05 — block structure is rendered: structural necessary conditions only.

Which tokens form a statement and at which nesting level is computed by the parser's context state machine per input and is NOT
decided here.  Decided are the hand-over points the property is anchored in; each must hold or statements are joined / drift:

  C05.a  the wrapper starts every top-level logical line at `level` indentation units and 0 continuations, with a forced break
         before its first token unless that token is the first of the file (decision table of format_line);
  C05.b  a Break decision becomes >= 1 line break and the solution's own indentation, a Continue decision becomes none
         (stores of reconstruct_solution under the two Decision variants);
  C05.c  begin_style maps to break_before_begin exactly as Always_Wrap <-> true, and that flag is read only where the wrapper
         decides the break before the first child line (`begin` of a control-flow body);
  C05.d  every logical line the parser finishes gets the nesting level computed from the context stack at that moment
         (stores of LocalLogicalLine.level in finish_logical_line originate in get_context_level()).
"""
import re
from facts import norm, Origins
from progress import dominating_variant_facts
from table import Table, TooComplex, render
from util import canon, short, small_value_class, within

OLF = "pasfmt_core::rules::optimising_line_formatter::"
IOLF = OLF + "InternalOptimisingLineFormatter::"
FD = "pasfmt_core::lang::FormattingData"
P = "pasfmt_core::defaults::parser::"
LLP = P + "InternalDelphiLogicalLineParser::"


def c05a(prog, rep):
    R = "C05.a"
    b = prog.body(IOLF + "format_line")
    if not rep.check(b is not None, R, "anchor:format_line", "format_line not found"):
        return
    try:
        tb = Table(prog, b, inline=1, opaque=("find_optimal_solution", "get_level", "get_tokens", "get_line_type"))
    except TooComplex as e:
        rep.fail(R, "format_line-table", "format_line is no longer a loop-free classifier: %s" % e)
        return

    def first_token_is_0(cons):
        """the path condition says: the first token of the line is token 0 of the file (pattern `Some(0)` or `first() == Some(&0)`)"""
        for c in cons:
            if c[0] != "cond" or "first(" not in c[1]:
                continue
            if c[1].endswith("@Some.0") and c[2] == 0:
                return True
            if c[1].startswith("eq(") and c[1].endswith(",0)") and c[2] != 0:
                return True
            if c[1].startswith("ne(") and c[1].endswith(",0)") and c[2] == 0:
                return True
        return False
    seen = {"first-of-file": 0, "other": 0}
    bad = []
    for (cons, res), calls in zip(tb.rows, tb.calls):
        fos = [a for nm, a in calls if nm.endswith("find_optimal_solution")]
        if not fos:
            continue
        a = [x.replace("call:", "").replace("place:", "").replace(" ", "") for x in fos[0]]
        first_is_0 = first_token_is_0(cons)
        ws_ok = len(a) >= 4 and a[1] in ("LineWhitespace(get_level(arg2.1),0)",)
        if first_is_0:
            seen["first-of-file"] += 1
            ok = ws_ok and a[3].startswith("Continue(")
        else:
            seen["other"] += 1
            ok = ws_ok and a[3] == "Break"
        if not ok:
            bad.append({"first_token_of_file": first_is_0, "starting_whitespace": a[1] if len(a) > 1 else "?", "first_decision": a[3] if len(a) > 3 else "?"})
    rep.check(not bad and seen["other"] >= 1 and seen["first-of-file"] >= 1, R, "top-level-line-starts-on-its-own-line-at-its-level",
              "format_line does not start every top-level logical line with a break at (level indentations, 0 continuations) — except the line that begins the file: %s" % bad[:2],
              where="%s:%d" % (b.file, b.line), instance={"paths": seen, "starting_whitespace": "LineWhitespace{get_level(line), 0}", "first_decision": "Break (Continue for the first token of the file)"})


def c05b(prog, rep):
    R = "C05.b"
    import layout
    rs = prog.inlined(IOLF + "reconstruct_solution", keep=layout.RS_KEEP)
    if not rep.check(rs is not None, R, "anchor:reconstruct_solution", "reconstruct_solution not found"):
        return
    n = 0
    for f in ("newlines_before", "indentations_before", "continuations_before"):
        for a in prog.field_accesses(FD, f, bodies=[rs]):
            if not a[3].startswith("write"):
                continue
            facts = [x for x in dominating_variant_facts(prog, rs, a[1]) if x[0].endswith(".decision") and x[1] == "is"]
            arm = facts[0][2][0] if facts else None
            if not rep.check(arm in ("Break", "Continue"), R, "store-under-a-decision:%s" % f, "a store of %s in reconstruct_solution is not under one of the two Decision variants" % f):
                continue
            n += 1
            s = a[4]
            vs = small_value_class(prog, rs, s["rv"])
            if arm == "Continue":
                ok = vs == {0}
                want = "0"
            elif f == "newlines_before":
                ok = within(vs, 1, 2)
                want = "1 or clamp(_,1,2)"
            elif f == "indentations_before":
                ok = s["rv"]["k"] == "use" and canon(rs, s["rv"]["op"]) == "arg2.starting_ws.indentations"
                want = "solution.starting_ws.indentations"
            else:
                c = ("%s(%s,%s)" % (s["rv"]["op"].replace("WithOverflow", ""), canon(rs, s["rv"]["a"]), canon(rs, s["rv"]["b"]))) if s["rv"]["k"] == "binop" else (canon(rs, s["rv"]["op"]) if s["rv"]["k"] == "use" else "?")
                ok = "arg2.starting_ws.continuations" in c
                want = "solution.starting_ws.continuations + continuations of the decision"
            rep.check(ok, R, "decision-store:%s:%s" % (arm, f), "under Decision::%s reconstruct_solution stores %s into %s (expected %s): a Break must become a real line break at the solution's indentation, a Continue none"
                      % (arm, sorted(map(str, vs)), f, want), where="%s:%d" % (rs.file, abs(s.get("line", 0))), instance={"decision": arm, "field": f, "value": want})
    rep.floor(R, "counter stores under a Decision variant", n, 6)


def c05c(prog, rep):
    R = "C05.c"
    cv = [k for k in prog.bodies if k.startswith("pasfmt::<impl core::convert::From<&pasfmt::FormattingConfig> for " + OLF + "OptimisingLineFormatterSettings>::from")]
    if not rep.check(len(cv) == 1, R, "anchor:settings-conversion", "From<&FormattingConfig> for OptimisingLineFormatterSettings not found"):
        return
    b = prog.body(cv[0])
    agg = [s for _, _, s in b.stmts() if s["k"] == "assign" and s["rv"]["k"] == "aggregate" and norm(s["rv"].get("adt", "")).endswith("OptimisingLineFormatterSettings")]
    if not rep.check(len(agg) >= 1 and "break_before_begin" in agg[0]["rv"]["fields"], R, "anchor:settings-aggregate", "the settings value is not built in the conversion"):
        return
    idx = agg[0]["rv"]["fields"].index("break_before_begin")
    try:
        tb = Table(prog, b, inline=1)
    except TooComplex as e:
        rep.fail(R, "conversion-table", "the settings conversion is no longer a loop-free classifier: %s" % e)
        return
    got = {}
    for cons, res in tb.rows:
        style = [c[2] for c in cons if c[0] == "is" and c[1].endswith("begin_style")]
        if res.kind == "agg" and len(res.a[2]) > idx and style:
            v = res.a[2][idx]
            got[style[0]] = v.a if v.kind == "const" else render(v)
    rep.check(got == {"Always_Wrap": True, "Auto": False}, R, "begin_style->break_before_begin", "begin_style is converted to break_before_begin as %s (expected Always_Wrap -> true, Auto -> false)" % got,
              where="%s:%d" % (b.file, b.line), instance={"table": {k: str(v) for k, v in got.items()}})
    # "with always_wrap EVERY begin of a control-flow body starts its own line": where the flag is consulted it decides alone — once it is
    # read as true, no further question (kind of the parent token, ..) is asked before the break is chosen
    fb = prog.body(IOLF + "find_optimal_child_lines_solution")
    if fb is not None:
        rd = [a for a in prog.field_accesses(OLF + "OptimisingLineFormatterSettings", "break_before_begin", within={fb.npath}) if a[3] == "read"]
        nflag = 0
        for a in rd:
            t = fb.blocks[a[1]]["term"]
            if t["k"] != "switch":
                rep.fail(R, "flag-read-is-a-test:bb%d" % a[1], "break_before_begin is read in find_optimal_child_lines_solution without being tested directly (its effect cannot be followed)")
                continue
            nflag += 1
            tgt = t.get("otherwise")
            hops = 0
            while tgt is not None and fb.blocks[tgt]["term"]["k"] == "goto" and hops < 12:
                tgt = fb.blocks[tgt]["term"]["target"]
                hops += 1
            asked = tgt is not None and fb.blocks[tgt]["term"]["k"] == "switch"
            rep.check(not asked, R, "flag-decides-alone:bb%d" % a[1],
                      "after break_before_begin was read as true, find_optimal_child_lines_solution asks a further question before it breaks the line before `begin`: the setting then does not apply "
                      "to every control-flow body (e.g. not to the `begin` of a case arm, whose parent token is `:`)", where="%s:%d" % (fb.file, abs(a[4].get("line", 0)) if isinstance(a[4], dict) else fb.line),
                      instance={"read_at": "bb%d" % a[1], "true_edge": "straight to the break"})
        rep.floor(R, "tests of break_before_begin in find_optimal_child_lines_solution", nflag, 1)
    readers = sorted({a[0].npath for a in prog.field_accesses(OLF + "OptimisingLineFormatterSettings", "break_before_begin") if a[3] in ("read", "ref")})
    import layout
    layout.inventory(rep, R, "readers of OptimisingLineFormatterSettings.break_before_begin", readers, [IOLF + "find_optimal_child_lines_solution"],
                     "the flag decides only the break before the first child line of a control-flow body")


def c05d(prog, rep):
    R = "C05.d"
    b = prog.inlined(LLP + "finish_logical_line", keep=("get_context_level",))
    if not rep.check(b is not None, R, "anchor:finish_logical_line", "finish_logical_line not found"):
        return
    st = [a for a in prog.field_accesses(P + "LocalLogicalLine", "level", bodies=[b]) if a[3].startswith("write")]
    aggs = [(bb, s) for bb, i, s in b.stmts() if s["k"] == "assign" and s["rv"]["k"] == "aggregate" and norm(s["rv"].get("adt", "")) == P + "LocalLogicalLine"]
    n = 0
    for a in st:
        s = a[4]
        o = Origins(b).of_operand(s["rv"]["op"]) if s["rv"]["k"] == "use" else set()
        ok = bool(o) and all(x[0] == "call" and x[2] == LLP + "get_context_level" for x in o)
        n += 1
        rep.check(ok, R, "level-from-context-stack:bb%d" % a[1], "finish_logical_line stores a nesting level that is not the one computed by get_context_level(): %s" % sorted(map(str, o)),
                  where="%s:%d" % (b.file, abs(s.get("line", 0))), instance={"store": "line.level", "origin": "get_context_level().1"})
    for bb, s in aggs:
        f = dict(zip(s["rv"]["fields"], s["rv"]["ops"]))
        o = Origins(b).of_operand(f["level"]) if "level" in f else set()
        n += 1
        rep.check(bool(o) and all(x[0] == "call" and x[2] == LLP + "get_context_level" for x in o), R, "fresh-line-level:bb%d" % bb,
                  "the line started by finish_logical_line does not begin at the level computed by get_context_level()", instance={"new_line": "LocalLogicalLine{level: context_level, ..}"})
    rep.floor(R, "stores of a line's nesting level in finish_logical_line", n, 3)
    # the finished line's store lies on every path that pushes a new line (the non-empty exit)
    push = [c for c in b.calls() if (c.callee or "").endswith("NonEmptyVec::push")]
    fin = [a for a in st if push and b.dominates(a[1], push[0].bb)]
    rep.check(len(push) == 1 and len(fin) >= 1, R, "finished-line-gets-its-level-before-the-next-starts", "the finished line's level is not stored on every path that starts the next line",
              instance={"level_stores_dominating_the_push": len(fin)})


def c05e(prog, rep):
    """C05.e — `<` / `>` are classified as comparison or type-argument brackets only AFTER parsing (the generics consolidator is a
    post-parse consolidator), so while parsing, the chevron depth the parser keeps is not a bracket depth: inside parentheses it
    rises on every comparison and never comes back (`(A < B)`).  A skip over a parenthesised / bracketed group must therefore not
    wait for the chevron depth to return — it would run to the end of the file and join every following statement onto one line.
    Contradiction rule: (chevrons classified after the parser) => (skip_pair compares generic_level only when the skipped pair
    starts with `<`)."""
    R = "C05.e"
    mf = prog.body("pasfmt::make_formatter")
    post = False
    if mf is not None:
        seq = [(c.callee or "").split("::")[-2:] for c in mf.calls() if (c.callee or "").startswith("pasfmt_core::formatter::Add")]
        names = ["::".join(x) for x in seq]
        for c in mf.calls():
            args = " ".join(str(a) for a in (c.t.get("callee_args") or []))
            if "DistinguishGenericTypeParamsConsolidator" in args and (c.callee or "").startswith("pasfmt_core::formatter::AddPostParseConsolidator"):
                post = True
    sp = prog.body(LLP + "skip_pair")
    if not rep.check(sp is not None, R, "anchor:skip_pair", "skip_pair not found"):
        return
    reads = [a for a in prog.field_accesses(P + "InternalDelphiLogicalLineParser", "generic_level", within={sp.npath}) if a[3] == "read"]
    if not post or not reads:
        rep.ok(R, {"chevrons_classified_after_parsing": post, "skip_pair_reads_generic_level": len(reads)}, nontrivial=False)
        return
    from util import enum_variants_mentioned
    looks = any(v == "LessThan" for _, v in enum_variants_mentioned(sp))
    if not looks:
        # `matches!(.., Some(TT::Op(OK::LessThan(_))))` is a chain of discriminant switches: a block that is reached under `is LessThan`
        for bb in sorted(sp.reachable()):
            if any(f[1] == "is" and "LessThan" in f[2] for f in dominating_variant_facts(prog, sp, bb)):
                looks = True
                break
    rep.check(looks, R, "chevron-depth-only-for-chevron-pairs", "skip_pair waits for the chevron depth to return whatever it skips, although `<` / `>` are only classified after parsing: "
              "`raise EFoo.Create(A < B);` never gets back to its chevron depth and every following statement up to the end of the file is joined onto that line",
              where="%s:%d" % (sp.file, sp.line), instance={"chevrons_classified_after_parsing": True, "generic_level_reads": len(reads), "conditional_on_starting_at_<": looks})


def c05f(prog, rep):
    """C05.f — a line gets its level when it is finished (C05.d), from the contexts that are on the stack at that moment.  The members
    of a section are collected by parse_structures() under a context that adds a level; the last member need not end in `;`, so
    it is still open when parse_structures() returns.  It has to be finished before that context is popped: between every call of
    parse_structures() and the pop of the level-adding context it ran under (or the end of the closure handed to do_with_context),
    finish_logical_line() is called.  Contexts of Level(0) are exempt (finishing after the pop gives the same level)."""
    R = "C05.f"
    PAR = "pasfmt_core::defaults::parser::"
    P = PAR + "InternalDelphiLogicalLineParser::"
    PS, FIN, DWC = P + "parse_structures", P + "finish_logical_line", P + "do_with_context"
    POP, PUSH = PAR + "ParserContexts::pop", PAR + "ParserContexts::push"

    def tgt(c):
        return norm(c.t.get("resolved") or c.target or c.callee or "")

    def level_of_context(body, op, depth=0):
        """the constant n of `level: ParserContextLevel::Level(n)` of the context value in `op`, or None if it cannot be read off"""
        if op["k"] not in ("copy", "move"):
            return None
        vals = set()
        for o in Origins(body).of_operand(op):
            if o[0] == "call" and depth < 2:
                cb = prog.body(norm(o[2]))
                if cb is None:
                    return None
                for bb, i, st in cb.stmts():
                    if st["k"] == "assign" and st["dst"]["l"] == 0 and not st["dst"]["p"]:
                        v = level_of_context(cb, st["rv"].get("op", {"k": "?"}), depth + 1) if st["rv"]["k"] == "use" else _agg_level(cb, st["rv"])
                        vals.add(v)
                continue
            if o[0] != "agg":
                return None
            st = body.blocks[o[1]]["stmts"][o[2]] if isinstance(o[2], int) else None
            if st is None:
                return None
            vals.add(_agg_level(body, st["rv"]))
        return vals.pop() if len(vals) == 1 else None

    def _agg_level(body, rv):
        if rv.get("k") != "aggregate" or not norm(rv.get("adt", "")).endswith("ParserContext") or "level" not in rv.get("fields", []):
            return None
        lop = rv["ops"][rv["fields"].index("level")]
        if lop["k"] == "const":
            return None
        for o in Origins(body).of_operand(lop):
            if o[0] == "agg" and isinstance(o[2], int):
                lr = body.blocks[o[1]]["stmts"][o[2]]["rv"]
                if lr.get("variant") == "Level" and len(lr["ops"]) == 1 and lr["ops"][0]["k"] == "const" and "int" in lr["ops"][0]:
                    return lr["ops"][0]["int"]
        return None
    n = 0
    for c in prog.who_calls(PS):
        b = c.body
        if not b.crate.startswith("pasfmt"):
            continue
        fins = {x.bb for x in b.calls() if tgt(x) == FIN}
        pops = [x for x in b.calls() if tgt(x) == POP]
        pushes = [x for x in b.calls() if tgt(x) == PUSH]
        first = [p for p in pops if p.bb in b.reach_from(c.bb) and b.can_reach_avoiding(c.bb, {p.bb}, {q.bb for q in pops if q is not p})]
        for p in first:
            # the push this pop undoes: stack discipline over the pushes / pops that dominate it
            ev = sorted([x for x in pushes + pops if x is not p and b.dominates(x.bb, p.bb)], key=lambda x: len(b.dom.get(x.bb, ())))
            st = []
            for x in ev:
                if tgt(x) == PUSH:
                    st.append(x)
                elif st:
                    st.pop()
            lvl = level_of_context(b, st[-1].args[1]) if st else None
            n += 1
            if lvl == 0:
                rep.ok(R, {"site": short(b.npath), "pop_of_level": 0})
                continue
            ok = not b.can_reach_avoiding(c.bb, {p.bb}, fins)
            rep.check(ok, R, "members-finished-before-their-context-is-popped:%s" % short(b.npath),
                      "%s pops the context (level %s) under which parse_structures() collected members without finishing the line first: a last member without `;` is finished later, under the "
                      "enclosing contexts only, and is printed one level too shallow" % (short(b.npath), "+%s" % lvl if lvl is not None else "unknown"), where=p.where(),
                      instance={"site": short(b.npath), "level": lvl})
        if b.kind == "Closure" and not first:
            # the action of do_with_context(context, action): the context is popped when the closure returns
            parent = prog.body(b.npath.rsplit("::{closure", 1)[0])
            lvl = None
            for d in (parent.calls() if parent is not None else []):
                # do_with_context(context, action), or any other parser method of that shape (`with_pushed_context(context, action)`):
                # (self, a ParserContext, this closure)
                if tgt(d).startswith(P) and len(d.args) == 3 and d.args[2]["k"] in ("copy", "move") and not d.args[2]["place"]["p"] \
                        and norm(parent.locals[d.args[2]["place"]["l"]].get("closure") or "") == b.npath:
                    lvl = level_of_context(parent, d.args[1])
            n += 1
            if lvl == 0:
                rep.ok(R, {"site": short(b.npath), "pop_of_level": 0})
                continue
            ok = not b.can_reach_avoiding(c.bb, set(b.return_blocks()), fins)
            rep.check(ok, R, "members-finished-before-their-context-is-popped:%s" % short(b.npath),
                      "%s (the action of do_with_context, level %s) returns after parse_structures() without finishing the line: the context is popped with the last member still open"
                      % (short(b.npath), lvl if lvl is not None else "given by the caller"), where=c.where(), instance={"site": short(b.npath), "level": lvl})
    rep.floor(R, "parse_structures() calls followed by the pop of their context", n, 3)


# tokens after which a type is written in a declaration (Delphi grammar: `Name = <type>` in a type block, `Name: <type>`,
# `reference to <procedural type>`, `array / set / file / class of <type>`); a `procedure` / `function` keyword that follows one of
# them starts a procedural TYPE, which is part of the declaration's line
TYPE_INTRODUCERS = ("Colon", "Equal", "To", "Of")


def c05g(prog, rep):
    """C05.g — sibling agreement in parse_statement: after every token that introduces a type, `procedure` / `function` is handed to
    parse_routine_header (the declaration goes on), not left to the arm that starts an anonymous routine or a routine declaration
    (which ends the declaration's line: the rest is printed as a line of its own at column 0, the next declaration drifts)."""
    R = "C05.g"
    P = "pasfmt_core::defaults::parser::InternalDelphiLogicalLineParser::"
    b = prog.body(P + "parse_statement")
    if not rep.check(b is not None, R, "anchor:parse_statement", "parse_statement not found"):
        return
    def routine_test(body, bb):
        """the leaf facts on get_current_token_type() that dominate bb in body"""
        facts = [f for f in dominating_variant_facts(prog, body, bb) if f[0].startswith("get_current_token_type(")]
        return [f for f in facts if f[0].count("@") == 2]
    # the hand-over may be wrapped in small parser methods (`try_parse_procedural_type() -> bool` calling `parse_procedural_type()`
    # calling parse_routine_header): a method hands over if it calls parse_routine_header or a method that does; it is *tested* if the
    # `procedure | function` test dominates that call somewhere along the chain
    def is_routine_fact(lf):
        return bool(lf) and set(lf[-1][2]) <= {"Function", "Procedure"}
    handover = {P + "parse_routine_header": False}       # method -> tested inside?
    for _ in range(3):
        for k, hb in prog.bodies.items():
            if not k.startswith(P) or k == b.npath or "{closure" in k or k in handover or hb.loops() or len(hb.blocks) > 80:
                continue
            for c in hb.calls():
                t = norm(c.t.get("resolved") or c.target or c.callee or "")
                if t in handover:
                    tested = handover[t] or is_routine_fact(routine_test(hb, c.bb))
                    if not tested:
                        # path-wise (a `matches!` stored in a bool first): on every path that makes the call the token is known to be one of the two
                        try:
                            tb = Table(prog, hb)
                            with_call = [cons for (cons, _r), calls in zip(tb.rows, tb.calls) if any(norm(n) == t for n, _a in calls)]
                            tested = bool(with_call) and all(any(x[0] in ("is", "in") and str(x[1]).startswith("get_current_token_type(") and str(x[1]).count("@") == 2
                                                                 and set(x[2] if isinstance(x[2], tuple) else (x[2],)) <= {"Function", "Procedure"} for x in cons) for cons in with_call)
                        except TooComplex:
                            tested = False
                    handover[k] = tested
                    break
    arms = {}
    for c in b.calls():
        t = norm(c.t.get("resolved") or c.target or c.callee or "")
        if t not in handover:
            continue
        leaf = routine_test(b, c.bb)
        if not leaf or leaf[0][1] != "is":
            continue
        tested_here = len(leaf) >= 2 and is_routine_fact(leaf)
        if tested_here or handover[t]:
            arms.setdefault(leaf[0][2][0], []).append(c)
    missing = [t for t in TYPE_INTRODUCERS if t not in arms]
    rep.check(not missing, R, "procedural-type-after-every-type-introducer",
              "after %s parse_statement does not hand `procedure` / `function` to parse_routine_header (its siblings %s do): a procedural type written there (`array of procedure(X: Integer);`) "
              "is taken for the start of a routine, the declaration is cut in two and what follows drifts to another level" % (missing, sorted(arms)),
              where="%s:%d" % (b.file, b.line), instance={"arms": sorted(arms), "required": list(TYPE_INTRODUCERS)})


# member parsers that go on after the `;` which ends the member and take a following word for one of the member's directives
POST_SEMICOLON_DIRECTIVE_SITES = ("parse_routine_header", "parse_property_declaration")


def c05h(prog, rep):
    """C05.h — sibling agreement between the member parsers that look past the `;` of a member for its directives (`procedure P;
    virtual;`, `property Items[..]..; default;`): the words they accept are contextual keywords, i.e. legal member names, so each of
    them decides only after looking at the token BEHIND the word (`Default: Integer;` / `Default, Other: string;` is the next
    member).  Every consolidate_current_keyword() at those sites is dominated by a get_token_type::<1>() lookahead."""
    R = "C05.h"
    P = "pasfmt_core::defaults::parser::InternalDelphiLogicalLineParser::"
    n = 0
    sites = []
    for root in POST_SEMICOLON_DIRECTIVE_SITES:
        fam = [x for k, x in prog.bodies.items() if k == P + root or k.startswith(P + root + "::{closure")]
        rep.check(bool(fam), R, "anchor:" + root, "%s not found" % root)
        for x in fam:
            # the per-token closure of the property parser works in front of the `;` only (read / write / index ..): no ambiguity there
            if root == "parse_property_declaration" and x.npath != P + root:
                continue
            if any(norm(c.t.get("resolved") or c.target or c.callee or "") == P + "consolidate_current_keyword" for c in x.calls()):
                sites.append((root, x))
    for site, b in sites:
        def is_lookahead(c, depth=0):
            t = norm(c.t.get("resolved") or c.target or c.callee or "")
            if t == P + "get_token_type" and (c.t.get("callee_args") or [None])[-1] == "1":
                return True
            hb = prog.body(t)
            # .. or a small parser method / closure that performs it (`fn next_is_member_name(&self) -> bool`)
            return depth < 1 and hb is not None and hb.npath.startswith(P) and not hb.loops() and len(hb.blocks) < 40 and any(is_lookahead(x, depth + 1) for x in hb.calls())
        looks = [c for c in b.calls() if is_lookahead(c)]
        # which tokens behind the word make it a name: `Name: T` and `A, Name: T` everywhere; after a routine header or a procedural
        # type also `Name = ..` (the next declaration of a type / const block)
        need = {"Colon", "Comma"} | ({"Equal"} if site == "parse_routine_header" else set())
        tested = set()
        for l in looks:
            for hb in [b] + [prog.body(norm(x.t.get("resolved") or x.target or x.callee or "")) for x in [l]]:
                if hb is None:
                    continue
                for bb2 in sorted(hb.reachable()):
                    for f in dominating_variant_facts(prog, hb, bb2):
                        if f[0].startswith("get_token_type(") and f[0].endswith("@Op.0") and f[1] in ("is", "in"):
                            tested |= set(f[2])
        if looks:
            rep.check(need <= tested, R, "lookahead-covers-every-name-context:" + site,
                      "%s looks behind a directive word only for %s; a declaration that follows as `Name %s ..` is still taken for the directive and joined onto this line"
                      % (site, sorted(tested), "/".join({"Colon": ":", "Comma": ",", "Equal": "="}[t] for t in sorted(need - tested))), where=looks[0].where(),
                      instance={"site": site, "tested": sorted(tested), "required": sorted(need)})
        for c in b.calls():
            if norm(c.t.get("resolved") or c.target or c.callee or "") != P + "consolidate_current_keyword":
                continue
            n += 1
            ok = any(b.dominates(l.bb, c.bb) for l in looks)
            rep.check(ok, R, "directive-after-semicolon-needs-lookahead:" + site,
                      "%s takes the word after the member's `;` for a directive without looking at the token behind it: a following member that is NAMED like the directive (`Default: Integer;`) "
                      "is glued to this member's line and its `: Type;` is printed as a line of its own" % site, where=c.where(), instance={"site": site, "lookahead": "get_token_type::<1>()"})
    rep.floor(R, "post-semicolon directive sites", n, 2)


# places where a parenthesised group is skipped blindly (brackets balanced, nothing looked at), with the reason why no statement can be inside
BLIND_PAREN_SKIPS = {
    "parser::parse_exports": "the parameter list of an exported routine's signature (`exports Foo(A: Integer) name 'x'`): declarations only",
}


def c05i(prog, rep):
    """C05.i — an anonymous routine can be written wherever an expression in parentheses can, and its statements get their own lines
    only if the parser walks into the group (parse_parens -> parse_anonymous_routine).  skip_pair only balances brackets: it is
    applied to `[` and `<` groups, and to a `(` only at reviewed sites where no expression can stand.  [defect: `raise Foo(procedure
    begin X; Y; end);` kept `X; Y;` on the raise line]"""
    R = "C05.i"
    P = "pasfmt_core::defaults::parser::InternalDelphiLogicalLineParser::"
    sites = [c for c in prog.who_calls(P + "skip_pair") if c.body.crate.startswith("pasfmt")]
    n = 0
    for c in sites:
        b = c.body
        leaf = [f for f in dominating_variant_facts(prog, b, c.bb) if f[0].startswith("get_current_token_type(") and f[0].count("@") == 2]
        kinds = set(leaf[-1][2]) if leaf and leaf[-1][1] in ("is", "in") else {"?"}
        n += 1
        if kinds <= {"LBrack", "LessThan"}:
            rep.ok(R, {"site": short(b.npath), "skips": sorted(kinds)})
            continue
        rep.check(short(b.npath) in BLIND_PAREN_SKIPS, R, "blind-skip-of-parentheses:%s" % short(b.npath),
                  "%s skips a group that can start with `(` (%s) with skip_pair, which only balances brackets: an anonymous routine written inside gets no lines of its own, its statements stay "
                  "joined on the line of the enclosing statement" % (short(b.npath), sorted(kinds)), where=c.where(), instance={"site": short(b.npath), "skips": sorted(kinds), "reason": BLIND_PAREN_SKIPS.get(short(b.npath), "UNREVIEWED")})
    rep.floor(R, "skip_pair call sites", n, 4)


CONTEXT_QUERIES = ("is_in_type_decl", "get_last_context_type", "get_token_type", "is_at_start_of_line", "is_in_statement", "get_current_logical_line",
                   "get_current_logical_line_token_types", "is_directive_before_next_token", "is_directive_after_prev_token", "get_context_level")
CONSUMERS = ("next_token", "simple_op_until", "op_until", "take_until", "skip_pair", "skip_token")


def c05j(prog, rep):
    """C05.j — a contextual keyword (`package`, `requires`, `on`, `strict`, `private` ..: lexed as IdentifierOrKeyword) is a legal name.
    In parse_structures, on every path from `the current token is an IdentifierOrKeyword` to a call that consumes tokens for a
    keyword construct there is a branch on a question about the token's surroundings (previous / next token, enclosing context,
    start of line ..) that can also avoid that call.  Without it a variable called Package at the start of a statement is parsed
    like a package header up to the next `;` (its anonymous routines get no lines, what follows drifts).  The catch-all arm
    (parse_statement: the token is taken as a name) is not a keyword construct."""
    R = "C05.j"
    from config import _dep_closure
    P = "pasfmt_core::defaults::parser::InternalDelphiLogicalLineParser::"
    b = prog.body(P + "parse_structures")
    if not rep.check(b is not None, R, "anchor:parse_structures", "parse_structures not found"):
        return
    loops = b.loops()
    heads = set(loops)
    # where the token is known to be a contextual keyword: the IdentifierOrKeyword edges of the switches on the current token's kind
    starts = set()
    for bb in sorted(b.reachable()):
        t = b.blocks[bb]["term"]
        if t["k"] != "switch":
            continue
        for tgt in [x for _, x in t["targets"]] + [t["otherwise"]]:
            if tgt is None:
                continue
            fs = dominating_variant_facts(prog, b, tgt)
            if any(re.match(r"^get_current_token_type\([^()]*\)@Some\.0$", f[0]) and f[1] == "is" and f[2] == ("IdentifierOrKeyword",) for f in fs) \
                    and not any(re.match(r"^get_current_token_type\([^()]*\)@Some\.0$", f[0]) and f[1] == "is" and f[2] == ("IdentifierOrKeyword",) for f in dominating_variant_facts(prog, b, bb)):
                starts.add(tgt)
    if not rep.check(bool(starts), R, "anchor:contextual-keyword-edges", "parse_structures has no arm for IdentifierOrKeyword tokens any more"):
        return
    # branches on a question about the surroundings
    def asks_context(t, depth=0):
        """a context query, or a bool method of the parser (`&self`) that asks one (the guard of an arm extracted into a helper)"""
        nm = t.split("::")[-1]
        if nm in CONTEXT_QUERIES:
            return True
        hb = prog.body(t)
        if hb is None or not t.startswith(P) or depth > 1 or hb.locals[0]["ty"] != "bool" or hb.loops() or (hb.arg_count and hb.locals[1]["ty"].startswith("&mut")):
            return False
        return any(asks_context(norm(c2.t.get("resolved") or c2.target or c2.callee or ""), depth + 1) for x in [hb] + list(prog.closures_of(hb.npath)) for c2 in x.calls())
    qdst = {c.t["dst"]["l"] for c in b.calls() if asks_context(norm(c.t.get("resolved") or c.target or c.callee or ""))
            and not (norm(c.t.get("resolved") or c.target or c.callee or "").endswith("::get_token_type") and (c.t.get("callee_args") or ["0"])[-1] == "0")}
    gbranches = set()
    for bb in sorted(b.reachable()):
        t = b.blocks[bb]["term"]
        if t["k"] == "switch" and t["discr"]["k"] in ("copy", "move") and _dep_closure(b, t["discr"]["place"]["l"]) & qdst:
            gbranches.add(bb)
    from table import canon_place

    def feasible_succ(x):
        """successors of x; a re-test of the current token's kind (`matches!(token_type, Keyword(_))` in a guard) can only go the way of IdentifierOrKeyword"""
        t = b.blocks[x]["term"]
        if t["k"] == "switch" and t["discr"]["k"] in ("copy", "move"):
            d = t["discr"]["place"]["l"]
            for st0 in b.blocks[x]["stmts"]:
                if st0["k"] == "assign" and st0["dst"]["l"] == d and not st0["dst"]["p"] and st0["rv"]["k"] == "discr" \
                        and re.match(r"^get_current_token_type\([^()]*\)@Some\.0$", canon_place(b, st0["rv"]["place"], {})):
                    adt = norm(st0["rv"].get("adt", ""))
                    hit = [tb for v, tb in t["targets"] if prog.variant_of(adt, v) == "IdentifierOrKeyword"]
                    return hit if hit else [t["otherwise"]]
        return list(b.succ[x])
    n = 0
    for c in b.calls():
        t = norm(c.t.get("resolved") or c.target or c.callee or "")
        nm = t.split("::")[-1]
        # (taking the token itself with next_token() and going on is what the catch-all does too; a keyword CONSTRUCT is what consumes
        #  further tokens, finishes the line or parses a block)
        # (since defect #36: also a bare `next_token()` — taking the word in the structure loop keeps it away from parse_statement, which is
        #  where a label or a case arm `Strict:` is recognised)
        if not t.startswith(P) or nm in ("parse_statement",) or not (nm in CONSUMERS or nm.startswith("parse_") or nm == "finish_logical_line"):
            continue
        G = {g for g in gbranches if not b.postdominates(c.bb, g)}

        def open_from(s0):
            """is c.bb reachable from s0 without a context branch, following only edges that are possible for an IdentifierOrKeyword token"""
            seen, st = {s0}, [s0]
            while st:
                x = st.pop()
                if x == c.bb:
                    return True
                if x in G or (x in heads and x != s0):
                    continue
                for y in feasible_succ(x):
                    if y not in seen:
                        seen.add(y)
                        st.append(y)
            return False
        if not any(c.bb in b.reach_from(s0, avoid=heads, include_start=True) for s0 in starts):
            continue
        n += 1
        open_path = any(open_from(s0) for s0 in starts)
        rep.check(not open_path, R, "contextual-keyword-needs-context:%s@%s" % (nm, abs(c.line or 0) and nm),
                  "parse_structures can reach `%s` for a contextual keyword (a legal name) without a branch on the token's surroundings: a name spelled like the keyword at the start of a statement is "
                  "parsed as the keyword's construct, the statement's own structure (anonymous routines, child lines) is lost and what follows drifts" % nm, where=c.where(), instance={"call": nm})
    rep.floor(R, "token-consuming calls reachable for contextual keywords", n, 4)


CONSTRUCT_CALLS = ("simple_op_until", "op_until", "take_until", "skip_pair", "skip_token", "finish_logical_line")


def c05m(prog, rep):
    """C05.m — the parser walks the token list once per combination of conditional-directive branches, and a contextual keyword that an
    earlier pass has resolved (`consolidate_current_keyword`) arrives as `Keyword(K)` in the later ones.  So in the dispatch on the
    current token's type (parse_structures, parse_statement), every kind K whose `IdentifierOrKeyword(K)` arm builds a construct —
    reaches a call that consumes further tokens, finishes the line or parses a block, which the arm for an ordinary contextual word
    does not reach — has a `Keyword(K)` arm that reaches the same calls.  Otherwise the construct is parsed in the first pass only:
    in a file with an `{$IFDEF}..{$ELSE}` anywhere, the later passes flatten `on E: T do Body;` into one line, the extra lines survive
    the consolidation and overwrite the first pass' layout."""
    R = "C05.m"
    from table import canon_place
    P = "pasfmt_core::defaults::parser::InternalDelphiLogicalLineParser::"
    n = shared = 0
    for fn in ("parse_structures", "parse_statement"):
        b = prog.body(P + fn)
        if not rep.check(b is not None, R, "anchor:" + fn, "%s not found" % fn):
            continue
        heads = set(b.loops())

        def discr_switch(bb):
            if bb is None:
                return None
            t = b.blocks[bb]["term"]
            if t["k"] != "switch" or t["discr"]["k"] not in ("copy", "move"):
                return None
            d = t["discr"]["place"]["l"]
            for st in b.blocks[bb]["stmts"]:
                if st["k"] == "assign" and st["dst"]["l"] == d and not st["dst"]["p"] and st["rv"]["k"] == "discr":
                    adt = norm(st["rv"].get("adt", ""))
                    return canon_place(b, st["rv"]["place"], {}), adt, {prog.variant_of(adt, v): tb for v, tb in t["targets"]}, t["otherwise"]
            return None

        def follow(bb):
            seen = set()
            while bb is not None and bb not in seen:
                seen.add(bb)
                if discr_switch(bb):
                    return bb
                t = b.blocks[bb]["term"]
                bb = t["target"] if t["k"] == "goto" else None
            return None

        def construct_calls(start):
            if start is None:
                return set()
            reach = b.reach_from(start, avoid=heads, include_start=True)
            out = set()
            for c in b.calls():
                if c.bb in reach:
                    t = norm(c.t.get("resolved") or c.target or c.callee or "")
                    nm = t.split("::")[-1]
                    if t.startswith(P) and (nm in CONSTRUCT_CALLS or nm.startswith("parse_")) and nm != "parse_statement":
                        out.add((c.bb, nm))
            return out
        for bb in sorted(b.reachable()):
            ds = discr_switch(bb)
            if not ds or "IdentifierOrKeyword" not in ds[2] or not re.match(r"^get_current_token_type\([^()]*\)@Some\.0$", ds[0]):
                continue
            # arms shared by both forms of a keyword (`Keyword(k) | IdentifierOrKeyword(k) if is_contextual(k) => construct(k)`): construct
            # call sites reached from both and not from the other token kinds
            both = construct_calls(ds[2]["IdentifierOrKeyword"]) & construct_calls(ds[2].get("Keyword"))
            for v, tb in ds[2].items():
                if v not in ("IdentifierOrKeyword", "Keyword"):
                    both -= construct_calls(tb)
            both -= construct_calls(ds[3])
            shared += len({nm for _, nm in both})
            ib, kb = follow(ds[2]["IdentifierOrKeyword"]), follow(ds[2].get("Keyword"))
            ids, kds = discr_switch(ib), discr_switch(kb)
            if ids is None:
                continue
            base = construct_calls(ids[3])
            for kind, arm in sorted(ids[2].items()):
                cc = construct_calls(arm) - base
                if not cc:
                    continue                     # the arm only resolves the word and takes it, like the catch-all
                n += 1
                arm2 = kds[2].get(kind) if kds else None
                # (compared by callee: the two arms may be written separately and call the same helper from two places)
                have = {nm for _, nm in construct_calls(arm2)} if arm2 is not None else set()
                missing = sorted({nm for _, nm in cc} - have)
                rep.check(not missing, R, "resolved-keyword-takes-the-same-arm:%s:%s" % (fn, kind),
                          "%s builds a construct for the contextual keyword `%s` (%s) only while it is still an IdentifierOrKeyword: once a pass has resolved it to Keyword(%s), the later "
                          "passes over the same tokens (one per conditional-directive branch) do not — the construct's lines exist in the first pass only"
                          % (fn, kind.lower(), missing[:3], kind), where="%s:%d" % (b.file, b.line),
                          instance={"fn": fn, "kind": kind, "construct_calls": sorted({nm for _, nm in cc})[:6], "keyword_arm": "same calls" if not missing else "missing"})
    rep.floor(R, "contextual keywords whose arm builds a construct (per kind, or in an arm shared by the Keyword and IdentifierOrKeyword forms)", n + shared, 2)


CLASS_IN_A_TYPE_AFTER = {"Equal", "Packed", "Of"}


def c05n(prog, rep):
    """C05.n — "a member never drifts to another nesting level": inside a const / type / var section the keyword `class` ends the section
    (`class var`, `class function` ..) unless it is part of a type: after `=` (`T = class`), after `packed`, and after `of`
    (`array of class of T`, a class reference as element type).  The decision table of the section-ending predicate answers `false`
    for `class` after each of these; with one missing, the declaration is cut in two and every later member of the section drops to
    the outer level. [defect #39]"""
    R = "C05.n"
    b = prog.body("pasfmt_core::defaults::parser::declaration_section")
    if not rep.check(b is not None, R, "anchor:declaration_section", "the section-ending predicate declaration_section was not found"):
        return
    ACCESSORS = ("get_token_type", "get_current_token_type", "is_in_type_decl", "get_current_keyword_kind", "get_keyword_kind", "is_decl_section", "get_last_context_type")
    tables = []
    try:
        tables.append(Table(prog, b, inline=0))
        # the exception may be a helper (`class_is_part_of_a_type(prev)`): expanded, with the parser's accessors kept as atoms
        tables.append(Table(prog, b, inline=1, opaque=ACCESSORS, max_paths=8000))
    except TooComplex as e:
        if not tables:
            rep.fail(R, "declaration_section:table", "declaration_section is not a loop-free decision any more: %s" % e)
            return
    exempt, ends = set(), 0
    for cons, res in [row for tb in tables for row in tb.rows]:
        cur_class = any(c[0] == "is" and str(c[1]).endswith("}.1@Some.0@Keyword.0") and c[2] == "Class" for c in cons) or \
            any(c[0] == "is" and re.search(r"get_current_token_type\([^()]*\)@Some\.0@Keyword\.0$", str(c[1])) and c[2] == "Class" for c in cons)
        if not cur_class:
            continue
        if render(res) == "False":
            for c in cons:
                if c[0] == "is" and (re.search(r"\}\.0@Some\.0@(Op|Keyword)\.0$", str(c[1])) or re.search(r"get_token_type\([^()]*\)@Some\.0@(Op|Keyword)\.0$", str(c[1]))):
                    exempt.add(c[2])
        elif render(res) == "True":
            ends += 1
    missing = sorted(CLASS_IN_A_TYPE_AFTER - exempt)
    rep.check(not missing and ends >= 1, R, "class-inside-a-type-does-not-end-the-section",
              "the section-ending predicate takes `class` after %s for the start of a `class var` / `class function` member although it is part of a type (`T = class`, `packed class`, "
              "`array of class of T`): the declaration is cut in two and the members after it drop to the outer level" % (missing or "nothing (it never ends a section on `class`)"),
              where="%s:%d" % (b.file, b.line), instance={"class_is_part_of_a_type_after": sorted(exempt), "paths_on_which_class_ends_the_section": ends})


def c05o(prog, rep):
    """C05.o — the lexer types a contextual keyword (`operator`, `helper`, `sealed`, `reference` .. — the rows of its keyword table that say
    IdentifierOrKeyword) as `IdentifierOrKeyword(K)`; it becomes `Keyword(K)` only where the parser resolves it, which happens when
    the parser *reaches* the token.  A test of another token's type (`get_token_type::<N>()`) that names `Keyword(K)` for such a K and
    does not accept `IdentifierOrKeyword(K)` as well can never be true for a token the parser has not reached yet: a look-ahead
    `class` + `Keyword(Operator)` treats `class operator` as if no member followed, and the member drifts into the section before it."""
    R = "C05.o"
    from table import canon_place
    kw = prog.const_arrays.get("pasfmt_core::defaults::lexer::KEYWORDS")
    if not rep.check(kw is not None and kw.get("elems"), R, "anchor:KEYWORDS", "the lexer's keyword table was not found"):
        return
    contextual = set()
    for e in kw["elems"]:
        try:
            if e[1].get("call", {}).get("path", "").endswith("IdentifierOrKeyword"):
                contextual.add(e[1]["args"][0]["path"].split("::")[-1])
        except (KeyError, IndexError, TypeError, AttributeError):
            pass
    rep.floor(R, "contextual keywords in the lexer's table", len(contextual), 30)
    PM = "pasfmt_core::defaults::parser::"
    n, bad = 0, []
    for k, b in prog.bodies.items():
        if not k.startswith(PM) or "::tests::" in k:
            continue
        sw = {}
        for bb in sorted(b.reachable()):
            t = b.blocks[bb]["term"]
            if t["k"] != "switch" or t["discr"]["k"] not in ("copy", "move"):
                continue
            d = t["discr"]["place"]["l"]
            for st in b.blocks[bb]["stmts"]:
                if st["k"] == "assign" and st["dst"]["l"] == d and not st["dst"]["p"] and st["rv"]["k"] == "discr":
                    adt = norm(st["rv"].get("adt", ""))
                    sw.setdefault(canon_place(b, st["rv"]["place"], {}), []).append({prog.variant_of(adt, v) for v, _ in t["targets"]})
        for key, lst in sw.items():
            m = re.match(r"^(get_token_type\([^()]*\))@Some\.0@Keyword\.0$", key)
            if not m:
                continue
            n += 1
            named = set().union(*lst)
            also = set().union(*sw.get(m.group(1) + "@Some.0@IdentifierOrKeyword.0", [set()]))
            dead = sorted((named & contextual) - also)
            if dead:
                bad.append("%s tests another token for Keyword(%s)" % (short(k), " | ".join(dead)))
    rep.check(not bad, R, "look-ahead-accepts-the-unresolved-form",
              "%s without accepting IdentifierOrKeyword of the same kind: the lexer never produces that keyword form, and the parser resolves a contextual keyword only when it reaches it, so the "
              "test is false for every token that lies ahead" % (bad[:2]), instance={"kind_tests_on_other_tokens": n, "dead": bad[:3]})


# adapters that answer "is there an element with property P" when P is their own predicate
EXISTENTIAL_ADAPTERS = ("any", "find", "position", "rposition", "find_map", "filter")
BODYLESS_DIRECTIVES = {"Forward", "External"}


def c05l(prog, rep):
    """C05.l — "a statement never drifts to another nesting level": a routine that has no body (`forward`, `external 'lib' name 'x'`,
    `external; cdecl;`) must not open a local-declarations block — everything that follows would be parsed one level deeper, as
    its nested routines.  Whether a header is body-less is asked of every token of the header line: in parse_routine the test for
    the keywords `forward` / `external` is itself the predicate of a search over the line's token types (`any(kind test)`), not a test
    applied to one token picked by position (the last significant token): the directives take arguments and are followed by others."""
    R = "C05.l"
    b = prog.body(LLP + "parse_routine")
    if not rep.check(b is not None, R, "anchor:parse_routine", "parse_routine not found"):
        return
    pb = b.calls_to(LLP + "parse_block")
    if not rep.check(len(pb) >= 1, R, "anchor:parse_block", "parse_routine no longer opens the block of local declarations through parse_block"):
        return
    searches = []
    for c in b.calls():
        nm = (c.callee or "").split("::")[-1]
        if not (c.callee or "").startswith("core::iter::") or nm not in EXISTENTIAL_ADAPTERS or len(c.args) != 2:
            continue
        if "get_current_logical_line_token_types(" not in canon(b, c.args[0]):
            continue
        clos = b.locals[c.args[1]["place"]["l"]].get("closure") if c.args[1]["k"] in ("copy", "move") else None
        cb = prog.body(norm(clos)) if clos else None
        if cb is None:
            continue
        try:
            tc = Table(prog, cb, inline=1)
        except TooComplex:
            continue
        true_kinds = set()
        exact = True
        for cons, res in tc.rows:
            if render(res) == "True":
                kw = [c2[2] for c2 in cons if c2[0] == "is" and "@Keyword.0" in str(c2[1])]
                other = [c2 for c2 in cons if not (c2[0] in ("is", "not") and ("Keyword" in str(c2[2]) or "@Keyword.0" in str(c2[1])))]
                if len(kw) == 1 and not other:
                    true_kinds.add(kw[0])
                else:
                    exact = False
            elif render(res) != "False":
                exact = False
        searches.append((c, nm, true_kinds, exact))
    # the same search written as a loop with an early `return true`, in parse_routine or in a helper it calls (`is_bodyless_routine`)
    from util import family_bodies
    for body, anchor, chain in family_bodies(prog, b):
        if body.kind == "Closure":
            continue
        for h, L in body.loops().items():
            nx = [c for c in body.calls() if c.bb == h and (c.callee or "").endswith("Iterator::next") and "get_current_logical_line_token_types(" in canon(body, c.args[0])]
            if len(nx) != 1:
                continue
            tt = body.blocks[nx[0].t["target"]]["term"]
            some = ([t_ for v, t_ in tt.get("targets", []) if v == 1] or [tt.get("otherwise")])[0]
            try:
                tl = Table(prog, body, start=some, stop={h}, inline=1)
            except TooComplex:
                continue
            true_kinds, exact = set(), True
            for (cons, res), end in zip(tl.rows, tl.ends):
                kw = [c2[2] for c2 in cons if c2[0] == "is" and "@Keyword.0" in str(c2[1])]
                other = [c2 for c2 in cons if not (c2[0] in ("is", "not") and ("Keyword" in str(c2[2]) or "@Keyword.0" in str(c2[1])))]
                if end is None:                    # leaves the loop by returning
                    if render(res) == "True" and len(kw) == 1 and not other:
                        true_kinds.add(kw[0])
                    else:
                        exact = False
                elif kw and kw[0] in BODYLESS_DIRECTIVES:
                    exact = False                  # goes on although the directive was found
            # where the answer is available in parse_routine: the loop itself, or the call of the helper that contains it
            site = nx[0] if body is b else (chain[0][1] if chain else None)
            if site is not None:
                searches.append((site, "loop", true_kinds, exact))
    good = [s_ for s_ in searches if s_[3] and s_[2] == BODYLESS_DIRECTIVES]
    reach = False
    for c, nm, kinds, exact in good:
        # the answer of the search decides whether parse_block is reached
        reach = reach or any(b.dominates(c.bb, p.bb) for p in pb)
    rep.check(bool(good) and reach, R, "bodyless-test-asks-every-token-of-the-header",
              "parse_routine does not decide `this routine has no body` by searching the whole header line for the keywords forward / external (searches over the line's token types: %s): "
              "a header on which the directive is not the token looked at (`external 'lib' name 'x'`, `forward; overload;`) opens a declaration block, and every following routine is parsed "
              "as nested in it, one level too deep" % [(nm, sorted(k)) for _, nm, k, _ in searches],
              where="%s:%d" % (b.file, b.line), instance={"searches": [(nm, sorted(k), ex) for _, nm, k, ex in searches]})


def c05q(prog, rep, R="C05.q"):
    """C05.q — which statement an `else` (or any other continuation keyword) belongs to is decided from the state the context stack keeps
    itself: a context is marked ended by `update_statuses` when its terminator is consumed, and the statement parsers ask that mark.  The
    stack of enclosing contexts is scanned only by the context type's own methods and by the reviewed questions `is_in_statement`,
    `is_in_type_decl`, `get_last_context*`, `get_context_level`, `parse_structures`, `parse_routine`.  A statement parser that looks through the
    stack for one particular enclosing kind (`any(|c| c.context_type == Statement(Case))`) answers for that kind only: the `else` section
    of try/except after `on E: T do if A then while B do C;` is then attached to the `if`, and its lines are rendered one level deep inside
    the handler."""
    import layout
    rd = sorted({a[0].npath.split("::{closure")[0] for a in prog.field_accesses(P + "ParserContexts", "contexts") if "core::fmt::Debug" not in a[0].npath and "::tests::" not in a[0].npath})
    LLP = P + "InternalDelphiLogicalLineParser::"
    reviewed = [P + "ParserContexts::" + m for m in ("update_statuses", "push", "pop", "get_ending_context_idx")] + \
               [LLP + m for m in ("parse_structures", "is_in_statement", "parse_routine", "get_last_context", "get_last_context_type", "get_context_level", "is_in_type_decl")]
    # a `&self` question all of whose DIRECT callers are reviewed readers is a piece of that reviewed code moved into a helper (the transitive form
    # of this acceptance is useless here: every parser function is called, some levels down, from parse_structures)
    part_of = {}

    def is_question(n):
        xb = prog.body(n)
        return xb is not None and xb.arg_count >= 1 and xb.locals[1]["ty"].startswith("&") and not xb.locals[1]["ty"].startswith("&mut")   # `&self`: asks, does not parse

    def only_from_reviewed(n, depth=0):
        """every direct caller of n is a reviewed reader, or a `&self` question that is itself called only from such (a chain of small
        accessors: `get_last_context -> contexts_innermost_first`)"""
        callers = {c.body.npath.split("::{closure")[0] for c in prog.who_calls(n) if c.body.crate.startswith("pasfmt")} - {n}
        return bool(callers) and all(c in reviewed or (depth < 3 and is_question(c) and only_from_reviewed(c, depth + 1)) for c in callers)
    for x in rd:
        if x in reviewed:
            continue
        if any(x.startswith(r + "::") for r in reviewed) or (is_question(x) and only_from_reviewed(x)):
            part_of[x] = sorted(short(c.body.npath) for c in prog.who_calls(x) if c.body.crate.startswith("pasfmt"))
    layout.inventory(rep, R, "functions that scan the stack of parser contexts", [x for x in rd if x not in part_of], reviewed,
                     "whether an enclosing statement has ended is the `is_ended` mark of its context; a scan for one enclosing kind misses the other kinds with the same shape (case / try-except both have an `else` section after `;`)",
                     helpers=False)
    for x, cs in part_of.items():
        rep.ok(R, {"reader": short(x), "accepted_as_helper_called_only_from": cs})
    rep.floor(R, "readers of ParserContexts.contexts", len(rd), 8)


def check_c05(prog, rep, tier, cfg):
    c05e(prog, rep)
    c05a(prog, rep)
    c05b(prog, rep)
    c05c(prog, rep)
    c05d(prog, rep)
    c05f(prog, rep)
    c05g(prog, rep)
    c05h(prog, rep)
    c05i(prog, rep)
    c05j(prog, rep)
    c05l(prog, rep)
    c05m(prog, rep)
    c05n(prog, rep)
    c05o(prog, rep)
    c05q(prog, rep)
    # C05.p — a line that is wrapped again after its strings were rewritten is wrapped from the line the first pass wrapped it from, at
    # any nesting depth: from an intermediate child line it would be laid out as a top-level line, one or more levels too far left
    # (shared with C03.i / C10.d)
    import layout as _layout5
    _layout5.reflow_root_is_first_pass_root(prog, rep, "C05.p")
    # C05.k — "indented exactly one level deeper": what is written for a line start is `indentations` copies of the indentation string and
    # `continuations` copies of the continuation string, whatever the depth (shared with C08.a counter <-> string pairing and C10.c: the
    # width strings reach the output only through push / repeat, not through a cache that can be too short)
    import layout as _layout
    from engine import AliasReport as _AR
    _layout.check_c08(prog, _AR(rep, [("C08.a", r".", "C05.k")]), tier, cfg)
    _layout.check_c10(prog, _AR(rep, [("C10.c", r".", "C05.k")]), tier, cfg)


PROPERTIES = {
    "C05": (check_c05,
            "Structural necessary conditions of block rendering, one per hand-over point the property is anchored in: (a) format_line starts every top-level logical line with a forced break at "
            "(level indentations, 0 continuations), except the first line of the file; (b) Decision::Break becomes >= 1 line break at the solution's indentation, Decision::Continue none; "
            "(c) begin_style=Always_Wrap <-> break_before_begin=true, read only where the break before the first child line is decided; (d) every finished logical line gets the level "
            "computed by get_context_level() and the next line starts at it; (e) a skip over a parenthesised group does not wait for the (not yet classified) chevrons to balance. Which tokens form a statement and the level arithmetic of the context stack are NOT decided. Added in round 6: (f) between parse_structures() and the pop of the level-adding context it ran under, finish_logical_line() is called; (g) after every type-introducing token (=, :, to, of) procedure/function goes to parse_routine_header; (h) every post-semicolon directive site looks at the token behind the word first. Added in round 7: (i) skip_pair is applied to a `(` only at reviewed sites; (j) a keyword construct is reached for a contextual keyword only through a branch on the token's surroundings.", []),
}
