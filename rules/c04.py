"""C04 — formatting always terminates without aborting.

C04.a loop progress (progress.py) + reviewed exceptions whose structural footprint is re-verified
C04.b panic-site audit (panic.py)
C04.c search cut-off
C04.d recursion inventory
C04.e lexer totality
"""
from facts import norm, Origins, place_str
from progress import (Progress, LLP, bfs_path, describe_path, FN_CALLS, is_impure_call, dominating_variant_facts,
                      guard_facts_at, guarded_nonadvancing_path, forced_target, GUARD_TOKEN, GUARD_CTX)
from table import Table, TooComplex, render

SCOPE_FILES = [
    "core/src/defaults/parser.rs",
    "core/src/defaults/parser/directive_tree.rs",
    "core/src/defaults/lexer.rs",
    "core/src/rules/generics_consolidator.rs",
    "core/src/rules/conditional_directive_consolidator.rs",
]

P = "pasfmt_core::defaults::parser::"
CTX_POP = P + "ParserContexts::pop"
CTX_PUSH = P + "ParserContexts::push"
TAKE_UNTIL = LLP + "::take_until"
SEMI_CHAIN = ["Some", "Op", "Semicolon"]


def short(n):
    return n.replace("pasfmt_core::defaults::", "").replace("pasfmt_core::rules::", "").replace("pasfmt_core::", "")


# --------------------------------------------------------------------------- helpers

def has_chain(facts, root_substr, chain):
    got = [f[2][0] for f in facts if f[1] == "is" and root_substr in f[0]]
    it = iter(got)
    return all(any(x == c for x in it) for c in chain)


def predicate_table(prog, name):
    b = prog.body(name)
    if b is None:
        return None
    try:
        return Table(prog, b)
    except TooComplex:
        return None


def table_true_implies_chain(tbl, root_substr, chain):
    """Every row whose result is not the constant False carries the variant chain on root."""
    for cons, res in tbl.rows:
        if res.kind == "const" and res.a is False:
            continue
        got = [c[2] for c in cons if c[0] == "is" and root_substr in c[1]]
        if got[:len(chain)] != chain:
            return False
    return True


def table_false_iff_chain(tbl, root_substr, chain):
    """Result is False exactly on the rows carrying the chain, True on all others."""
    seen_false = False
    for cons, res in tbl.rows:
        got = [c[2] for c in cons if c[0] == "is" and root_substr in c[1]]
        on_chain = got[:len(chain)] == chain
        if res.kind != "const":
            return False
        if on_chain != (res.a is False):
            return False
        seen_false |= on_chain
    return seen_false


# --------------------------------------------------------------------------- C04.a

def scope_files(prog):
    """The parser family (where the cursor-advance argument lives) plus every other source file of the three crates: each loop anywhere
    on the formatting path needs a progress witness (trace-only debug printing excluded)."""
    rest = sorted({b.file for b in prog.bodies.values() if b.crate.startswith("pasfmt") and b.file and not b.file.endswith("/debug.rs")
                   and "/tests/" not in b.file and not b.file.startswith("core/benches") and b.file not in SCOPE_FILES})
    return SCOPE_FILES + rest


def check_a(prog, rep):
    R = "C04.a"
    files = scope_files(prog)
    PG = Progress(prog, files)
    rep.analysed["progress_scope_files"] = len(files)
    rep.analysed["progress_fixpoint_rounds"] = PG.rounds
    # anchors: the two cursor-advancing primitives
    for nm in ("next_token", "skip_token"):
        full = LLP + "::" + nm
        b = prog.body(full)
        if not rep.check(b is not None and PG.is_ma(full), R, "base:" + nm,
                         "anchor %s missing or not must-advance: every path must store pass_index" % full):
            return PG
    ma_names = sorted(short(k) for k, v in PG.ma.items() if frozenset() in v and k.startswith(P))
    rep.analysed["must_advance_bodies"] = ma_names
    rep.floor(R, "must-advance parser bodies", len(ma_names), 25)

    # op_until: the loop continues only when the operation returned Continue
    ou = prog.body(LLP + "::op_until")
    if rep.check(ou is not None, R, "anchor:op_until", "op_until not found"):
        ok = False
        for h, L in ou.loops().items():
            for bb, ref in PG.callrefs[ou.npath].items():
                if bb in L:
                    cv = PG.continuing_variants(ou, bb, h, L)
                    if cv == frozenset({"Continue"}):
                        ok = True
        rep.check(ok, R, "op_until:continue-only", "op_until's loop no longer continues exactly on OpResult::Continue "
                  "(the variant-conditioned obligation on operation closures is unsound)", where="%s:%d" % (ou.file, ou.line))

    # ---- loops
    nloops = 0
    reqs = {}
    pending_exceptions = []
    for k, b in sorted(PG.bodies.items()):
        if b.file not in files or b.j.get("const_fn") or "core::fmt::Debug" in k or "::tests::" in k:
            continue
        loops = b.loops()
        if not loops:
            continue
        S, bad = PG.loop_requirements(b)
        if S:
            reqs[k] = set(S)
        for h, L in sorted(loops.items()):
            nloops += 1
            inst = {"body": short(k), "loop_header": "bb%d" % h, "line": loop_line(b, L)}
            if h in bad:
                cyc, W = bad[h]
                pending_exceptions.append((b, h, L, cyc, W))
            else:
                W = PG.loop_witnesses(b, h, L, S or frozenset())
                inst["witnesses"] = sorted(set(W.values()))
                if S:
                    inst["delegated_to_params"] = sorted(map(str, S))
                rep.ok(R, inst)
    rep.floor(R, "loops in scope (non-const, non-test bodies of the three crates)", nloops, 90)
    rep.analysed["loops_in_scope"] = nloops

    for (b, h, L, cyc, W) in pending_exceptions:
        handled = False
        if b.npath == LLP + "::parse_structures":
            handled = exception_guarded_parse_statement(prog, PG, rep, b, h, L)
        elif b.npath == LLP + "::parse_statement_list_with_type_and_predicate":
            handled = exception_statement_list_driver(prog, PG, rep, b, h, L)
        if not handled:
            calls, lines = describe_path(b, cyc)
            sig = ">".join(calls)
            rep.fail(R, "loop:%s:%s" % (short(b.npath), sig),
                     "loop in %s can cycle without progress: path through lines %s calling [%s]; witnesses known on other paths: %s"
                     % (short(b.npath), sorted(set(lines)), ", ".join(calls), sorted(set(W.values()))),
                     where="%s:%d" % (b.file, min(lines) if lines else b.line),
                     instance={"body": short(b.npath), "loop_header": "bb%d" % h},
                     cycle_blocks=cyc, calls=calls, lines=lines)

    # ---- requirements at call sites (operations handed to combinators)
    # propagate requirements to callers through pass-through parameters
    changed = True
    site_viol = []
    while changed:
        changed = False
        for k, b in PG.bodies.items():
            for c in b.calls():
                for tname in prog.callees_of_site(c):
                    if tname not in reqs:
                        continue
                    for q in sorted(reqs[tname]):
                        if q[0] != "param":
                            continue
                        idx = q[1] - 1
                        if idx >= len(c.args):
                            continue
                        S = frozenset(reqs.get(k, set()))
                        if PG.satisfied(b, S, c.args[idx]):
                            continue
                        # try to discharge by assuming one of the body's own callable refs
                        own = [("param", i) for i in range(1, b.arg_count + 1)] + \
                              [("upvar", i) for i in range(len(b.j.get("upvars", [])))]
                        added = False
                        for r in own:
                            if PG.satisfied(b, S | {r}, c.args[idx]):
                                reqs.setdefault(k, set()).add(r)
                                changed = True
                                added = True
                                break
                        if not added:
                            site_viol.append((k, c, tname, q))
    seen = set()
    nsites = 0
    op_bodies = set()
    for k, b in sorted(PG.bodies.items()):
        for c in b.calls():
            for tname in prog.callees_of_site(c):
                if tname not in reqs:
                    continue
                for q in sorted(reqs[tname]):
                    if q[0] != "param" or q[1] - 1 >= len(c.args):
                        continue
                    nsites += 1
                    bound = PG.bind(b, c.args[q[1] - 1])
                    if bound and bound[0] == "body":
                        op_bodies.add(bound[1])
                    key = (k, c.bb, tname, q)
                    if key in seen:
                        continue
                    seen.add(key)
                    bad = [v for v in site_viol if v[0] == k and v[1].bb == c.bb and v[2] == tname and v[3] == q]
                    inst = {"site": "%s -> %s" % (short(k), short(tname)), "param": q[1], "bound": short(bound[1]) if bound and bound[0] == "body" else str(bound), "line": c.line}
                    if not bad:
                        rep.ok(R, inst)
                    else:
                        detail = ""
                        calls = []
                        if bound and bound[0] == "body" and bound[1] in PG.bodies:
                            ob = PG.bodies[bound[1]]
                            path = PG.nonadvancing_path(ob, frozenset())
                            if path:
                                calls, lines = describe_path(ob, path)
                                detail = " — a path returning Continue without consuming a token goes through lines %s calling [%s]" % (sorted(set(lines)), ", ".join(calls))
                        rep.fail(R, "op:%s:%s:%s" % (short(k), short(tname).split("::")[-1], ">".join(calls)),
                                 "operation passed to %s (parameter %d) in %s does not advance the token cursor on every path on which the loop continues%s"
                                 % (short(tname), q[1], short(k), detail), where=c.where(), instance=inst)
    rep.floor(R, "operation-passing call sites checked", nsites, 9)
    rep.floor(R, "distinct operation bodies", len(op_bodies), 7)
    rep.analysed["combinator_requirements"] = {short(k): sorted(map(str, v)) for k, v in reqs.items()}
    return PG


def loop_line(b, L):
    lines = []
    for x in L:
        t = b.blocks[x]["term"]
        if t.get("line"):
            lines.append(abs(t["line"]))
    return min(lines) if lines else b.line


def exception_guarded_parse_statement(prog, PG, rep, b, h, L):
    """Exception (i)+(ii)+(iii): parse_structures' `_ => self.parse_statement()` arm."""
    R = "C04.a"
    name = "guarded-call parse_structures->parse_statement"
    callee = prog.body(LLP + "::parse_statement")
    if callee is None:
        return False
    W = PG.loop_witnesses(b, h, L, frozenset())
    from progress import bfs_cycle
    outside = set(range(len(b.blocks))) - L
    sites = [c for c in b.calls() if c.bb in L and c.target == callee.npath and c.bb not in W
             and b.can_reach_avoiding(h, {c.bb}, set(W) | outside) and b.can_reach_avoiding(c.bb, {h}, set(W) | outside)]
    if len(sites) != 1:
        return False
    site = sites[0]
    # (a) with that call block as witness no unwitnessed cycle remains; otherwise report the *other* cycle
    other = bfs_cycle(b, h, L, set(W) | {site.bb})
    if other is not None:
        calls, lines = describe_path(b, other)
        rep.fail(R, "loop:%s:%s" % (short(b.npath), ">".join(calls)),
                 "loop in %s can cycle without progress: path through lines %s calling [%s] (no token consumed, no context ended)"
                 % (short(b.npath), sorted(set(lines)), ", ".join(calls)),
                 where="%s:%d" % (b.file, max(lines) if lines else b.line), instance={"body": short(b.npath), "loop_header": "bb%d" % h},
                 cycle_blocks=other, calls=calls, lines=lines)
        return True
    # (b) guards dominate the site, nothing impure in between
    gf = guard_facts_at(prog, b, site.bb)
    if gf.get("token") != "Some" or gf.get("ctx") != "None":
        rep.fail(R, "exception(i):guards", "the call of parse_statement in parse_structures is no longer dominated by "
                 "`current token = Some` and `no ending context` (found %s)" % gf, where=site.where())
        return True
    guard_blocks = [c.bb for c in b.calls() if c.bb in L and c.target in (GUARD_TOKEN, GUARD_CTX) and b.dominates(c.bb, site.bb)]
    between = set()
    for g in guard_blocks:
        between |= (b.reach_from(g) & b.reach_to(site.bb) & L)
    between.discard(site.bb)
    impure = [x for x in between if b.blocks[x]["term"]["k"] == "call" and is_impure_call(b, b.blocks[x]["term"]) and x not in guard_blocks]
    # blocks between that lie on a path guard -> site only matter if they do not pass the loop header again
    impure = [x for x in impure if b.can_reach_avoiding(x, {site.bb}, {h})]
    if impure:
        t = b.blocks[impure[0]]["term"]
        rep.fail(R, "exception(i):impure-between", "a state-mutating call (%s) now sits between the loop guards of parse_structures "
                 "and the parse_statement arm" % norm(t.get("resolved") or t.get("callee")), where="%s:%d" % (b.file, abs(t.get("line", 0))))
        return True
    # (c) callee: non-advancing paths under the entry facts all pass an accepted secondary witness
    adv = PG.advance_blocks(callee, frozenset())
    accepted = {}
    for c in callee.calls():
        if c.target == CTX_POP:
            accepted[c.bb] = "P4 context pop"
        if c.target == TAKE_UNTIL:
            facts = dominating_variant_facts(prog, callee, c.bb)
            bound = PG.bind(callee, c.args[1]) if len(c.args) > 1 else None
            tbl = predicate_table(prog, bound[1]) if bound and bound[0] == "body" else None
            if has_chain(facts, "get_current_token_type(", ["Op", "Semicolon"]) and tbl is not None \
                    and table_false_iff_chain(tbl, "get_current_token_type(", SEMI_CHAIN):
                accepted[c.bb] = "take_until(!`;`) entered on `;`"
    path = guarded_nonadvancing_path(prog, callee, adv | set(accepted), {GUARD_TOKEN: "Some", GUARD_CTX: "None"})
    if path is not None:
        calls, lines = describe_path(callee, path)
        rep.fail(R, "exception(i):callee-path:%s" % ">".join(calls),
                 "parse_statement can return to parse_structures' loop without consuming a token, ending a context or "
                 "taking a separator: path through lines %s calling [%s]" % (sorted(set(lines)), ", ".join(calls)),
                 where="%s:%d" % (callee.file, min(lines) if lines else callee.line), cycle_blocks=path)
        return True
    rep.exception(R, "parse_structures::<loop> via parse_statement",
                  "guards (token present, no ending context) dominate the call and are re-evaluated first by the callee with no "
                  "mutation in between; the callee's remaining non-advancing exits are take_until on `;` (>=1 iteration) and a context pop")
    rep.ok(R, {"exception": name, "site_line": site.line, "accepted_secondary": sorted(set(accepted.values())),
               "guards": gf})
    return True


def exception_statement_list_driver(prog, PG, rep, b, h, L):
    """Exception (iv): `loop { do_with_context(parse_structures); finish_logical_line; take_separators_on_last_line; exit-test }`."""
    R = "C04.a"
    local_calls = [c for c in b.calls() if c.bb in L and c.target and c.target.startswith(P)]
    names = [c.target for c in local_calls]
    expect = {LLP + "::do_with_context", LLP + "::finish_logical_line", LLP + "::take_separators_on_last_line", GUARD_CTX, GUARD_TOKEN}
    if set(names) != expect:
        rep.fail(R, "exception(iv):shape", "statement-list driver loop changed shape: local callees in the loop are %s, reviewed shape is %s"
                 % (sorted(short(n) for n in set(names)), sorted(short(n) for n in expect)), where="%s:%d" % (b.file, b.line))
        return True
    ok = True
    # exits depend on both guards
    exit_deps = set()
    for x in L:
        if any(s not in L for s in b.succ[x]):
            t = b.blocks[x]["term"]
            if t["k"] == "switch" and t["discr"]["k"] in ("copy", "move"):
                for l in PG.dep_closure(b, t["discr"]["place"]["l"]):
                    for d in b.defs.get(l, []):
                        if d[0] == "call":
                            exit_deps.add(norm(d[2].get("resolved") or d[2].get("callee")))
    ok &= rep.check(GUARD_CTX in exit_deps and GUARD_TOKEN in exit_deps, R, "exception(iv):exits",
                    "driver loop exits no longer test both `ending context` and `no current token`", where="%s:%d" % (b.file, b.line))
    # the closure handed to do_with_context only runs parse_structures
    dw = [c for c in local_calls if c.target == LLP + "::do_with_context"][0]
    bound = PG.bind(b, dw.args[2]) if len(dw.args) > 2 else None
    cl = prog.body(bound[1]) if bound and bound[0] == "body" else None
    cl_calls = sorted(c.target for c in cl.calls()) if cl else None
    ok &= rep.check(cl_calls == [LLP + "::parse_structures"], R, "exception(iv):closure",
                    "closure run inside the statement context is no longer exactly parse_structures (calls: %s)" % cl_calls, where=dw.where())
    # every predicate ever passed implies "current token is `;`"
    sites = prog.who_calls(b.npath)
    npred = 0
    for c in sites:
        og = Origins(c.body)
        o = og.of_operand(c.args[2]) if len(c.args) > 2 else set()
        preds = set()
        for x in o:
            if x[0] == "agg":
                # find the aggregate's operand origin (fn pointer cast of closure / fn item)
                st = c.body.blocks[x[1]]["stmts"][x[2]]
                for op in st["rv"]["ops"]:
                    for y in og.of_operand(op):
                        if y[0] == "agg" and y[3].startswith("closure:"):
                            preds.add(y[3][8:])
                        elif y[0] == "const" and y[1] in ("fn", "closure"):
                            preds.add(norm(y[2]))
                    if op["k"] in ("copy", "move"):
                        lc = c.body.locals[op["place"]["l"]]
                        if "closure" in lc:
                            preds.add(norm(lc["closure"]))
        # zero-sized closures: the cast operand is a local of closure type
        if not preds:
            for _, _, st in c.body.stmts():
                if st["k"] == "assign" and st["rv"]["k"] == "cast" and st["rv"]["op"]["k"] in ("copy", "move"):
                    lc = c.body.locals[st["rv"]["op"]["place"]["l"]]
                    if "closure" in lc:
                        preds.add(norm(lc["closure"]))
        for pn in sorted(preds):
            tbl = predicate_table(prog, pn)
            good = tbl is not None and table_true_implies_chain(tbl, "get_current_token_type(", SEMI_CHAIN)
            npred += 1
            ok &= rep.check(good, R, "exception(iv):predicate:%s" % short(pn),
                            "context-ending predicate %s passed to the statement-list driver can be true on a token other than `;` "
                            "(then take_separators_on_last_line consumes nothing and the driver spins)" % short(pn), where=c.where(),
                            instance={"predicate": short(pn), "implies": "current token is `;`"})
        if not preds:
            ok &= rep.check(False, R, "exception(iv):predicate-unresolved:%s" % short(c.body.npath),
                            "could not resolve the context-ending predicate passed at this call site", where=c.where())
    ok &= rep.floor(R, "statement-list driver predicates", npred, 2)
    # take_separators_on_last_line: on `;` it must reach take_until(no_more_separators) under an opaque never-ending context
    ts = prog.body(LLP + "::take_separators_on_last_line")
    good = False
    msg = "take_separators_on_last_line missing"
    if ts is not None:
        tus = [c for c in ts.calls() if c.target == TAKE_UNTIL]
        msg = "take_separators_on_last_line no longer calls take_until exactly once"
        if len(tus) == 1:
            tu = tus[0]
            facts = dominating_variant_facts(prog, ts, tu.bb)
            bound = PG.bind(ts, tu.args[1])
            tbl = predicate_table(prog, bound[1]) if bound and bound[0] == "body" else None
            c1 = has_chain(facts, "get_current_token_type(", SEMI_CHAIN)
            c2 = tbl is not None and table_false_iff_chain(tbl, "get_current_token_type(", SEMI_CHAIN)
            # every return that avoids take_until lies off the `;` chain: from the first block where the chain holds, take_until is unavoidable
            chain_blocks = [x for x in ts.reachable() if has_chain(dominating_variant_facts(prog, ts, x), "get_current_token_type(", SEMI_CHAIN)]
            c3 = bool(chain_blocks) and all(x == tu.bb or ts.dominates(tu.bb, x) or bfs_path(ts, x, set(ts.return_blocks()), {tu.bb}) is None for x in chain_blocks)
            # a push of Opaque(never_ending) dominates take_until with no pop in between
            pushes = [c for c in ts.calls() if c.target == CTX_PUSH and ts.dominates(c.bb, tu.bb)]
            c4 = False
            for pc in pushes:
                og = Origins(ts)
                for x in og.of_operand(pc.args[1]):
                    if x[0] == "agg" and x[3].endswith("ParserContext::ParserContext"):
                        st = ts.blocks[x[1]]["stmts"][x[2]]
                        for op in st["rv"]["ops"]:
                            for y in og.of_operand(op):
                                if y[0] == "agg" and y[3].endswith("ContextEndingPredicate::Opaque"):
                                    st2 = ts.blocks[y[1]]["stmts"][y[2]]
                                    for op2 in st2["rv"]["ops"]:
                                        for z in og.of_operand(op2):
                                            if z[0] == "const" and z[1] == "fn":
                                                t2 = predicate_table(prog, norm(z[2]))
                                                if t2 and all(r.kind == "const" and r.a is False for _, r in t2.rows):
                                                    c4 = True
            pops_between = [c for c in ts.calls() if c.target == CTX_POP and any(ts.dominates(pc.bb, c.bb) for pc in pushes) and ts.dominates(c.bb, tu.bb)]
            good = c1 and c2 and c3 and c4 and not pops_between
            msg = ("take_separators_on_last_line footprint changed: on-`;`-chain=%s predicate-is-!`;`=%s unavoidable=%s opaque-never-ending-context=%s pops-between=%d"
                   % (c1, c2, c3, c4, len(pops_between)))
    ok &= rep.check(good, R, "exception(iv):take_separators", msg, where="%s:%d" % (ts.file, ts.line) if ts else None)
    if ok:
        rep.exception(R, "parse_statement_list_with_type_and_predicate::<loop>",
                      "parse_structures returns without advancing only when a context ended; an outer one exits the loop, the own one "
                      "ends only on `;` (all predicates checked), which take_separators_on_last_line then consumes under an opaque context")
        rep.ok(R, {"exception": "statement-list driver", "predicates_checked": npred})
    return True


EXPLANATION = (
    "Structural clauses of C04 decided on the type-checked MIR of the whole workspace: (a) every loop of the parser, directive "
    "tree, lexer and the two consolidators has a progress witness on every cycle path — token-cursor advance through "
    "inter-procedural must-advance summaries with closures and combinator parameters resolved, consuming iterator/collection "
    "calls, stores to loop-carried state an exit depends on; operations handed to op_until/simple_op_until/take_until must "
    "advance on every path that returns Continue; the reviewed exceptions are re-verified structurally; "
    "(b) every panic-capable site between 'bytes read' and 'bytes written' is in a reviewed inventory whose guard is re-derived; "
    "(c) the wrapping search is cut by iteration_max; (d) recursive call-graph cycles are inventoried; (e) lexer dispatch totality; "
    "(f) the wrapper's recursion into child lines is memoised (lookup miss dominates the recursive call, same key stored on every successful path, a hit does not solve again) — "
    "a necessary condition of the polynomial-time clause. "
    "Not decided: polynomial running time as such, number of conditional-directive passes, well-foundedness of the P3 measures."
)
ASSUMPTIONS = [
    "a progress witness is a necessary condition for termination (no cycle without a progress step), not a proof that the measure is well-founded",
]


OLF = "pasfmt_core::rules::optimising_line_formatter::"
OLF_SETTINGS = OLF + "OptimisingLineFormatterSettings"
FOS = OLF + "InternalOptimisingLineFormatter::find_optimal_solution"


def check_c(prog, rep):
    """C04.c — the wrapping search is cut off by iteration_max and the caller falls back."""
    R = "C04.c"
    from progress import bfs_cycle
    reads = [a for a in prog.field_accesses(OLF_SETTINGS, "iteration_max")
             if a[3] in ("read", "ref", "refmut") and "core::fmt::Debug" not in a[0].npath and "core::clone::Clone" not in a[0].npath]
    bodies = sorted({a[0].npath for a in reads})
    rep.check(bodies == [FOS], R, "who-reads:iteration_max", "iteration_max must be read exactly in find_optimal_solution, found readers: %s"
              % [short(b) for b in bodies], instance={"readers": [short(b) for b in bodies]})
    b = prog.body(FOS)
    if not rep.check(b is not None and len(reads) >= 1, R, "anchor:find_optimal_solution", "find_optimal_solution / iteration_max read not found"):
        return
    ok_any = False
    for (_, bb, i, kind, s) in reads:
        if kind != "read" or i == "term":
            continue
        lim = s["dst"]["l"]
        # the compare using the limit as right operand
        for bb2, i2, s2 in b.stmts():
            if s2["k"] == "assign" and s2["rv"]["k"] == "binop" and s2["rv"]["op"] == "Gt" \
                    and s2["rv"]["b"]["k"] in ("copy", "move") and s2["rv"]["b"]["place"]["l"] == lim:
                cnt_op = s2["rv"]["a"]
                from panic import source_place
                cnt_pl = source_place(b, cnt_op)
                cnt = cnt_pl["l"] if cnt_pl and not cnt_pl["p"] else None
                flag = s2["dst"]["l"]
                # switch on the flag in this block
                t = b.blocks[bb2]["term"]
                if t["k"] != "switch" or t["discr"]["place"]["l"] != flag:
                    continue
                true_tgt = t["otherwise"] if [v for v, _ in t["targets"]] == [0] else None
                if cnt is None or true_tgt is None:
                    continue
                # the loop containing the compare; counter incremented by const 1 on every cycle
                loops = [(h, L) for h, L in b.loops().items() if bb2 in L]
                if not loops:
                    continue
                h, L = min(loops, key=lambda x: len(x[1]))
                inc_blocks = set()
                for bb3, i3, s3 in b.stmts():
                    if s3["k"] == "assign" and s3["dst"]["l"] == cnt and not s3["dst"]["p"] and bb3 in L:
                        rv = s3["rv"]
                        if rv["k"] == "use" and rv["op"]["k"] in ("copy", "move"):
                            src = rv["op"]["place"]["l"]
                            for d in b.defs.get(src, []):
                                if d[0] == "assign" and d[3]["rv"]["k"] == "binop" and d[3]["rv"]["op"] in ("AddWithOverflow", "Add") \
                                        and d[3]["rv"]["b"]["k"] == "const" and d[3]["rv"]["b"].get("int") == 1 \
                                        and d[3]["rv"]["a"]["k"] in ("copy", "move") and d[3]["rv"]["a"]["place"]["l"] == cnt:
                                    inc_blocks.add(bb3)
                        elif rv["k"] == "binop" and rv["op"] == "Add" and rv["b"]["k"] == "const" and rv["b"].get("int") == 1:
                            inc_blocks.add(bb3)
                cyc = bfs_cycle(b, h, L, inc_blocks | {true_tgt})
                c1 = rep.check(bool(inc_blocks) and cyc is None, R, "counter-on-every-cycle",
                               "the heap loop of find_optimal_solution has a cycle that neither increments the iteration counter nor takes the cut-off exit",
                               where="%s:%d" % (b.file, abs(s2.get("line", 0))), instance={"loop_header": "bb%d" % h, "increment_blocks": len(inc_blocks)})
                # true edge leaves the loop and returns Err(IterationLimitReached)
                leaves = true_tgt not in L or not b.can_reach_avoiding(true_tgt, {h}, set())
                err = False
                for x in b.reach_from(true_tgt, include_start=True):
                    for st in b.blocks[x]["stmts"]:
                        if st["k"] == "assign" and st["rv"]["k"] == "aggregate" and st["rv"].get("variant") == "IterationLimitReached":
                            err = True
                c2 = rep.check(leaves and err, R, "cutoff-returns-error", "the `iteration_count > iteration_max` edge no longer leaves the loop with Err(IterationLimitReached)",
                               where="%s:%d" % (b.file, abs(s2.get("line", 0))))
                ok_any = ok_any or (c1 and c2)
    rep.check(ok_any, R, "cutoff-shape", "no `counter > iteration_max` comparison with the reviewed shape found in find_optimal_solution")
    # format_line: Err -> None, and the driver skips None
    fl = prog.body(OLF + "InternalOptimisingLineFormatter::format_line")
    if rep.check(fl is not None, R, "anchor:format_line", "format_line not found"):
        og = Origins(fl, identity=())
        o = og.of_place({"l": 0, "p": []})
        calls = {x[2] for x in o if x[0] == "call"}
        rep.check("core::result::Result::ok" in calls and all(x[0] in ("call", "agg", "return-slot") for x in o), R, "format_line:err-to-none",
                  "format_line no longer maps the search result through Result::ok (Err => None): origins %s" % sorted(map(str, o)),
                  instance={"return_origins": sorted(calls)})
    fm = [x for x in prog.find(r"OptimisingLineFormatter as pasfmt_core::traits::LogicalLineFileFormatter>::format$")]
    if rep.check(len(fm) == 1, R, "anchor:OLF::format", "OptimisingLineFormatter::format not found"):
        fm = fm[0]
        from progress import dominating_variant_facts
        sites = fm.calls_to(OLF + "InternalOptimisingLineFormatter::reconstruct_solution")
        good = 0
        for c in sites:
            facts = dominating_variant_facts(prog, fm, c.bb)
            if any(f[0].startswith("format_line(") and f[1] == "is" and f[2] == ("Some",) for f in facts):
                good += 1
            else:
                rep.fail(R, "format:reconstruct-unguarded", "reconstruct_solution is called without a `Some` solution from format_line", where=c.where())
        rep.floor(R, "reconstruct_solution call sites under Some(solution)", good, 2)


RECURSION_ANCHORS = {
    # anchor body -> (label, kind)
    LLP + "::parse_structures": ("parser statement/structure recursion", "input-depth"),
    P + "directive_tree::DirectiveTree::parse_next": ("directive tree construction", "input-depth"),
    P + "directive_tree::DirectiveTree::explored": ("directive tree exploration flags", "input-depth"),
    P + "directive_tree::DirectiveTree::pass": ("directive tree pass", "input-depth"),
    "pasfmt_core::defaults::lexer::find_directive_expr_end": ("nested directives inside {$IF ...}", "input-depth"),
    FOS: ("wrapping search over child lines", "input-depth"),
    OLF + "InternalOptimisingLineFormatter::reconstruct_solution": ("applying child-line solutions", "input-depth"),
    "<pasfmt_core::rules::optimising_line_formatter::debug::InternalDebugPrintableLine as core::fmt::Debug>::fmt": ("trace output of child lines", "trace-only"),
    "<pasfmt_core::formatter::PostParseConsolidatorKind as pasfmt_core::traits::LogicalLinesConsolidator>::consolidate": ("dyn wrapper (class-hierarchy artefact: the boxed consolidator is never the wrapper itself)", "artefact"),
    "<pasfmt_core::formatter_selector::FormatterSelector as pasfmt_core::traits::LogicalLineFormatter>::format": ("dyn wrapper (class-hierarchy artefact)", "artefact"),
    "<pasfmt_core::lang::FormatterKind as pasfmt_core::traits::LogicalLineFileFormatter>::format": ("dyn wrapper (class-hierarchy artefact)", "artefact"),
    "<pasfmt_core::rules::optimising_line_formatter::parent_pointer_tree::Node as core::clone::Clone>::clone": ("derive(Clone) on a generic node (unresolved T::clone, class-hierarchy artefact)", "artefact"),
}


def check_d(prog, rep):
    """C04.d — recursion inventory: every cycle of the resolved call graph is a reviewed one."""
    R = "C04.d"
    scope = {k for k, b in prog.bodies.items() if b.crate in ("pasfmt_core.lib", "pasfmt_orchestrator.lib", "pasfmt.lib")}
    sccs = prog.call_sccs(scope)
    seen_anchors = set()
    for comp in sccs:
        anchors = [a for a in RECURSION_ANCHORS if a in comp]
        if not anchors:
            rep.fail(R, "scc:new:" + "+".join(sorted(short(x) for x in comp))[:300],
                     "new recursive cycle in the call graph (not in the reviewed inventory): %s" % sorted(short(x) for x in comp)[:12],
                     where="%s:%d" % (prog.bodies[sorted(comp)[0]].file, prog.bodies[sorted(comp)[0]].line))
            continue
        for a in anchors:
            seen_anchors.add(a)
            label, kind = RECURSION_ANCHORS[a]
            if kind == "input-depth":
                # recorded as known finding: unbounded recursion on nesting depth => stack exhaustion
                rep.fail(R, "scc:" + short(a), "unbounded recursion on input nesting depth (%s, %d bodies in the cycle): stack exhaustion on deeply nested input" % (label, len(comp)),
                         where="%s:%d" % (prog.bodies[a].file, prog.bodies[a].line), instance={"scc_anchor": short(a), "size": len(comp)})
            else:
                rep.ok(R, {"scc_anchor": short(a), "size": len(comp), "review": label})
    rep.analysed["call_graph_sccs"] = len(sccs)
    rep.floor(R, "recursive cycles found (call-graph SCC engine sees the reviewed recursion)", len(sccs), 7)


def check_e(prog, rep):
    """C04.e — lexer dispatch totality."""
    R = "C04.e"
    b = prog.body("pasfmt_core::defaults::lexer::lex_token_with_map")
    if not rep.check(b is not None, R, "anchor:lex_token_with_map", "lex_token_with_map not found"):
        return
    ty = b.locals[1]["ty"]
    rep.check(ty.startswith("[") and ty.endswith("; 256]") and "Option" not in ty and "fn(" in ty, R, "map-type-total",
              "dispatch table parameter of lex_token_with_map is no longer a total [fn; 256] table (type: %s)" % ty,
              instance={"table_type": ty})
    og = Origins(b, identity=())
    o = og.of_place({"l": 0, "p": []})
    rep.check({x[2] for x in o if x[0] == "call"} == {"core::option::Option::map"} and len(o) == 1, R, "none-only-at-end",
              "lex_token_with_map can now return None for reasons other than `no byte at offset`: %s" % sorted(map(str, o)))
    gets = b.calls_to("core::slice::get")
    rep.check(len(gets) == 1, R, "byte-read-by-get", "lex_token_with_map no longer reads the dispatch byte through slice::get")
    for nm in ("lex_token", "lex_asm_token"):
        lb = prog.body("pasfmt_core::defaults::lexer::" + nm)
        ok = lb is not None and len(lb.calls_to("pasfmt_core::defaults::lexer::lex_token_with_map")) == 1
        rep.check(ok, R, "dispatcher:" + nm, "%s no longer dispatches through lex_token_with_map" % nm)
    # lex(): loop leaves only on None; eof() consumes the remainder (split at count_leading_whitespace)
    eof = prog.body("pasfmt_core::defaults::lexer::eof")
    if rep.check(eof is not None, R, "anchor:eof", "lexer::eof not found"):
        sp = eof.calls_to("core::str::split_at")
        cw = eof.calls_to("pasfmt_core::defaults::lexer::count_leading_whitespace")
        ok = len(sp) == 1 and len(cw) == 1
        if ok:
            o2 = Origins(eof, identity=()).of_operand(sp[0].args[1])
            ok = {x[2] for x in o2 if x[0] == "call"} == {"pasfmt_core::defaults::lexer::count_leading_whitespace"}
        rep.check(ok, R, "eof-splits-at-blank-count", "eof() no longer splits the remainder at count_leading_whitespace of the same input")


def check_f(prog, rep):
    """C04.f — the recursion of the wrapper into child lines is memoised: every recursive call of find_optimal_solution from inside its
    own call-graph cycle happens only after a cache lookup with the same key missed, and the result is stored under that key afterwards.
    Without it the same child lines are solved once per explored parent node at every nesting level (work doubles per level)."""
    R = "C04.f"
    from util import canon
    FOS = OLF + "InternalOptimisingLineFormatter::find_optimal_solution"
    fos = prog.body(FOS)
    if not rep.check(fos is not None, R, "anchor:find_optimal_solution", "find_optimal_solution not found"):
        return
    scc = None
    for comp in prog.call_sccs():
        if FOS in comp:
            scc = comp
    if not rep.check(scc is not None and len(scc) > 1, R, "anchor:recursion", "find_optimal_solution is no longer part of a call-graph cycle (the rule's structural basis is gone)"):
        return
    sites = [c for c in prog.who_calls(FOS) if c.body.npath in scc]
    rep.floor(R, "recursive calls of find_optimal_solution", len(sites), 1)
    for r in sites:
        b = r.body
        gets = [c for c in b.calls() if c.callee == "std::collections::hash::map::HashMap::get" and "child_line_cache" in canon(b, c.args[0])]
        ins = [c for c in b.calls() if c.callee == "std::collections::hash::map::HashMap::insert" and "child_line_cache" in canon(b, c.args[0])]
        ok = len(gets) == 1 and len(ins) == 1
        why = "lookups %d, stores %d on child_line_cache" % (len(gets), len(ins))
        if ok:
            g, i = gets[0], ins[0]
            missed = any(f[1] == "is" and f[2] == ("None",) and f[0].startswith("get(") and "child_line_cache" in f[0] for f in dominating_variant_facts(prog, b, r.bb))
            same_key = canon(b, g.args[1]) == canon(b, i.args[1])
            loops = [L for L in b.loops().values() if r.bb in L]
            after = bool(loops) and all(i.bb not in L for L in loops) and i.bb in b.reach_from(r.bb) and not (g.bb in b.reach_from(r.bb))
            # the hit arm returns the cached value without solving again
            hit_returns = not any(r.bb in b.reach_from(t, include_start=True) for v, t in _switch_after(b, g) if v == "Some")
            # every way from the recursive call to a `Some(..)` result passes the store
            some_blocks = {bb for bb, _, st in b.stmts() if st["k"] == "assign" and st["dst"]["l"] == 0 and st["rv"]["k"] == "aggregate" and st["rv"].get("variant") == "Some"}
            some_blocks = {x for x in some_blocks if x in b.reach_from(r.bb)}
            always_stored = bool(some_blocks) and not b.can_reach_avoiding(r.bb, some_blocks, {i.bb})
            ok = missed and same_key and after and hit_returns and always_stored
            why = "lookup-miss dominates the call: %s; same key stored: %s; stored after the loop over the child lines: %s; a hit does not solve again: %s; every successful result is stored: %s" % (missed, same_key, after, hit_returns, always_stored)
        rep.check(ok, R, "memoised:%s" % short(b.npath), "the recursive solve of child lines in %s is not memoised (%s)" % (short(b.npath), why), where=r.where(),
                  instance={"body": short(b.npath), "cache": "child_line_cache", "protocol": "get(key) miss -> solve children -> insert(key)"})


def _switch_after(b, site):
    """(variant name, target) pairs of the discriminant switch that tests the result of call `site` (followed through straight-line blocks)"""
    from progress import discr_source
    cur = site.t.get("target")
    hops = 0
    while cur is not None and hops < 6:
        t = b.blocks[cur]["term"]
        if t["k"] == "switch" and discr_source(b, cur):
            out = []
            for v, tgt in t["targets"]:
                out.append(("Some" if v == 1 else "None", tgt))
            out.append(("Some" if all(v == 0 for v, _ in t["targets"]) else "None", t["otherwise"]))
            return out
        if t["k"] in ("goto", "call", "drop") and b.succ[cur]:
            cur = b.succ[cur][0]
            hops += 1
        else:
            break
    return []


def check(prog, rep, tier, cfg):
    import panic
    check_a(prog, rep)
    panic.check_b(prog, rep, cfg)
    check_c(prog, rep)
    check_d(prog, rep)
    check_e(prog, rep)
    check_f(prog, rep)
    panic.check_g(prog, rep)
    panic.check_h(prog, rep)
    panic.check_i(prog, rep)
