"""C12 — multi-line string literals keep their value (structural clauses)."""
import re
from facts import norm, Origins
from progress import dominating_variant_facts, bfs_path, bfs_cycle
from table import canon_place
from util import canon, short, origins, enum_variants_mentioned

OLF = "pasfmt_core::rules::optimising_line_formatter::"
MS = OLF + "multiline_strings::"
SF = MS + "StringFormatter::"
LANG = "pasfmt_core::lang::"
RS = LANG + "ReconstructionSettings::"


def _is_indent_builder(prog, name):
    """a loop-free workspace function returning a String assembled only from `repeat`ed / pushed indentation and continuation strings"""
    b = prog.body(name or "")
    if b is None or not b.crate.startswith("pasfmt") or b.loops() or "String" not in b.locals[0]["ty"]:
        return False
    ok_calls = {"get_indentation_str", "get_continuation_str", "repeat", "push_str", "from", "into", "deref", "with_capacity", "new", "as_str", "borrow"}
    names = [(c.callee or "?").split("::")[-1] for c in b.calls()]
    if not names or any(n not in ok_calls for n in names) or "repeat" not in names:
        return False
    og = Origins(b)
    for c in b.calls():
        n = (c.callee or "").split("::")[-1]
        if n in ("repeat", "push_str"):
            src = og.of_operand(c.args[0] if n == "repeat" else c.args[1])
            if not src or not all(x[0] == "call" and x[2].split("::")[-1] in ("get_indentation_str", "get_continuation_str", "repeat") for x in src):
                return False
    return True


def skip_discipline(prog, rep, R):
    """In try_rewrite_string's per-line loop an interior line may be left out of the result only when it
    is blank: (a) it is a prefix of the closing quotes' indentation, or (b) nothing remains after that
    indentation was stripped.  Every other cycle pushes the stripped line."""
    b = prog.body(SF + "try_rewrite_string")
    if not rep.check(b is not None, R, "anchor:try_rewrite_string", "try_rewrite_string not found"):
        return
    loops = b.loops()
    if not rep.check(len(loops) == 1, R, "one-line-loop", "try_rewrite_string must have exactly one loop over the interior lines (found %d)" % len(loops)):
        return
    h, L = next(iter(loops.items()))
    from panic import dominating_conditions
    def pushed_texts(c):
        """what an append hands over: the argument, or the elements of an array literal (`extend([prefix, line])`)"""
        t = canon(b, c.args[1])
        m = re.match(r"^array\{(.*)\}$", t)
        if not m:
            return [t]
        parts, depth, cur = [], 0, ""
        for ch in m.group(1):
            if ch in "({[":
                depth += 1
            elif ch in ")}]":
                depth -= 1
            if ch == "," and depth == 0:
                parts.append(cur)
                cur = ""
            else:
                cur += ch
        return parts + [cur]
    pushes = [c for c in b.calls() if (c.callee in ("alloc::string::String::push_str",) or (c.callee or "").endswith("Extend::extend")) and c.bb in L and len(c.args) == 2]
    data = [c for c in pushes if any("strip_prefix(" in t for t in pushed_texts(c))]
    if not rep.check(len(data) == 1, R, "one-data-push", "the loop must push the stripped interior line exactly once (found %d)" % len(data)):
        return
    dp = data[0]
    ca = [t for t in pushed_texts(dp) if "strip_prefix(" in t][0]
    rep.check(ca.startswith("strip_prefix(") and ",arg4)@Some.0" in ca, R, "pushed=line-minus-base-indentation", "the pushed text is not `line.strip_prefix(base_indentation)`: %s" % ca,
              instance={"pushed": ca})
    # allowed skip edges
    allowed = set()
    descr = []
    for x in sorted(L):
        t = b.blocks[x]["term"]
        if t["k"] != "switch":
            continue
        for c in dominating_conditions(b, t["otherwise"]):
            pass
    for c in b.calls():
        if c.bb not in L:
            continue
        nm = c.callee or ""
        tgt = c.t["target"]
        if tgt is None:
            continue
        t = b.blocks[tgt]["term"]
        if t["k"] != "switch" or [v for v, _ in t["targets"]] != [0]:
            continue
        true_tgt = t["otherwise"]
        if nm == "core::str::starts_with":
            a0, a1 = canon(b, c.args[0]), canon(b, c.args[1])
            if a0 == "arg4" and "next(" in a1 and "strip_prefix" not in a1:
                allowed.add(true_tgt)
                descr.append("base_indentation.starts_with(line)")
        if nm == "core::str::is_empty":
            a0 = canon(b, c.args[0])
            if a0.startswith("strip_prefix(") and ",arg4)@Some.0" in a0:
                allowed.add(true_tgt)
                descr.append("stripped_line.is_empty()")
        if nm in ("core::cmp::PartialEq::eq",) or nm.endswith("PartialEq>::eq"):
            # `stripped_line == ""` (also what a `Some("")` pattern compiles to)
            a0, a1 = canon(b, c.args[0]), canon(b, c.args[1])
            if ((a0.startswith("strip_prefix(") and ",arg4)@Some.0" in a0 and a1 == "''") or (a1.startswith("strip_prefix(") and ",arg4)@Some.0" in a1 and a0 == "''")):
                allowed.add(true_tgt)
                descr.append("stripped_line.is_empty()")
    cyc = bfs_cycle(b, h, L, {dp.bb} | allowed)
    rep.check(cyc is None and len(allowed) == 2, R, "line-skipped-only-if-blank",
              "an interior line of a multi-line string can be left out of the rewritten literal under a condition other than "
              "`base_indentation.starts_with(line)` / `stripped_line.is_empty()` (its characters would be lost)",
              where="%s:%d" % (b.file, b.line), instance={"skip_conditions": sorted(descr), "data_push": "contents.push_str(stripped_line)"})
    # the None arm of strip_prefix never pushes
    sp = [c for c in b.calls() if c.callee == "core::str::strip_prefix" and c.bb in L]
    if rep.check(len(sp) == 1, R, "one-strip_prefix", "expected one strip_prefix(base_indentation) in the loop"):
        rep.check(canon(b, sp[0].args[1]) == "arg4", R, "strip=base_indentation", "the stripped prefix is not the base indentation parameter")
        facts_dp = dominating_variant_facts(prog, b, dp.bb)
        rep.check(any("strip_prefix(" in f[0] and f[2] == ("Some",) for f in facts_dp), R, "push-only-on-Some", "the data push is not confined to the Some arm of strip_prefix")
    # first line is taken as is
    # (appends into the literal under construction: the string the data push goes into)
    result = canon(b, dp.args[0])
    ext = [c for c in b.calls() if ((c.callee or "").endswith("Extend::extend") or c.callee == "alloc::string::String::push_str") and c.bb not in L and len(c.args) == 2 and canon(b, c.args[0]) == result]
    rep.check(len(ext) == 1 and "next(" in canon(b, ext[0].args[1]), R, "first-line-kept", "the first line (opening quotes) is no longer copied as is")


def per_literal_body(prog):
    """The body that decides about one token of the line and replaces its text: format_multiline_strings with its single-use helpers spliced
    in, or — when the per-token step was extracted and is driven through a closure (`fold`, `for_each`) — that step."""
    keep = ("try_rewrite_string", "lines_custom", "get_token_mut", "get_token", "set_content", "get_content")
    b = prog.inlined(SF + "format_multiline_strings", keep=keep)
    if b is None or b.calls_to(LANG + "Token::set_content"):
        return b
    from util import family_bodies
    root = prog.body(SF + "format_multiline_strings")
    for body, _a, _c in family_bodies(prog, root):
        if body is not root and body.calls_to(LANG + "Token::set_content"):
            return prog.inlined(body.npath, keep=keep) or body
    return b


def _text_origins(bd, op, depth=0):
    """origins of a text handed to push_str / extend, looking through views of a string (as_str, deref ..), array literals (`extend([a, b])`:
    the origins of every element) and repetitions (`repeat_n(s, n)`, `repeat(s).take(n)`: the origins of s)"""
    og = Origins(bd, extra_identity={"alloc::string::String::as_str", "core::ops::deref::Deref::deref", "core::convert::AsRef::as_ref", "core::borrow::Borrow::borrow",
                                     "core::iter::traits::iterator::Iterator::take", "core::iter::traits::collect::IntoIterator::into_iter"})
    out = set()
    for x in og.of_operand(op):
        if x[0] == "agg" and x[3] in ("array", "tuple") and depth < 3:
            for e in bd.blocks[x[1]]["stmts"][x[2]]["rv"]["ops"]:
                out |= _text_origins(bd, e, depth + 1)
        elif x[0] == "call" and x[2].split("::")[-1] in ("repeat_n", "repeat") and x[2].startswith("core::iter::") and depth < 3:
            t = bd.blocks[x[1]]["term"]
            out |= _text_origins(bd, t["args"][0], depth + 1)
        else:
            out.add(x)
    return out


def check_c12(prog, rep, tier, cfg):
    # C12.g — "a break is always forced before a multi-line literal" (so that its lines can be indented like the opening quotes'
    # line): the hard-break table and `the invariant is asked before any other answer is given` (shared with C02.a / C02.b)
    if not getattr(rep, "_c12_alias_running", False):
        import c02 as _c02
        from engine import AliasReport as _AR
        ar = _AR(rep, [("C02.a", r".", "C12.g"), ("C02.b", r".", "C12.g")])
        ar._c12_alias_running = True
        _c02.check_c02(prog, ar, tier, cfg)
    # ---------------------------------------------------------------- C12.a
    R = "C12.a"
    fm = [c for c in prog.who_calls(SF + "format_multiline_strings") if c.body.crate.startswith("pasfmt")]
    olf_fmt = "<pasfmt_core::rules::optimising_line_formatter::OptimisingLineFormatter as pasfmt_core::traits::LogicalLineFileFormatter>::format"
    # from OptimisingLineFormatter::format itself or from a closure of it (`lines.filter_map(|line| .. format_multiline_strings(line) ..)`)
    rep.check({c.body.npath.split("::{closure")[0] for c in fm} == {olf_fmt} and len(fm) == 1, R, "who-calls:format_multiline_strings", "format_multiline_strings is called from %s" % sorted({short(c.body.npath) for c in fm}),
              instance={"callers": sorted({short(c.body.npath) for c in fm})})
    acc = [a for a in prog.field_accesses(OLF + "OptimisingLineFormatterSettings", "format_multiline_strings") if a[3] in ("read", "ref") and "core::fmt::Debug" not in a[0].npath and "core::clone::Clone" not in a[0].npath]
    rep.check({a[0].npath for a in acc} == {olf_fmt}, R, "who-reads:format_multiline_strings", "the setting is read in %s" % sorted({short(a[0].npath) for a in acc}), instance={"readers": sorted({short(a[0].npath) for a in acc})})
    if fm:
        from panic import dominating_conditions, source_place
        from util import family_calls
        ok = False
        # where the call happens in OptimisingLineFormatter::format: its own block, or the block that hands over the closure it is made in
        ofb = prog.body(olf_fmt)
        ev = family_calls(prog, ofb, lambda c: (c.callee or "") == SF + "format_multiline_strings") if ofb is not None else []
        call_bb = ev[0][0] if ev else fm[0].bb
        # the call must be unreachable when the setting is false: find the switch on the (negated) setting
        for (bd, bb, i, kind, s) in acc:
            if kind != "read" or i == "term":
                continue
            val = s["dst"]["l"]
            for bb2 in sorted(bd.reachable()):
                t = bd.blocks[bb2]["term"]
                if t["k"] == "switch" and t["discr"]["k"] in ("copy", "move"):
                    d = t["discr"]["place"]["l"]
                    # d = Not(val) or d == val
                    neg = None
                    for df in bd.defs.get(d, []):
                        if df[0] == "assign" and df[3]["rv"]["k"] == "unop" and df[3]["rv"]["op"] == "Not" and df[3]["rv"]["a"]["place"]["l"] == val:
                            neg = True
                    if d == val:
                        neg = False
                    if neg is None:
                        continue
                    zero_tgt = [x for v, x in t["targets"] if v == 0]
                    other = t["otherwise"]
                    # setting false  <=> Not(val) true  <=> `otherwise` edge when neg
                    false_setting_tgt = other if neg else (zero_tgt[0] if zero_tgt else None)
                    if false_setting_tgt is not None and call_bb not in bd.reach_from(false_setting_tgt, include_start=True):
                        ok = True
        rep.check(ok, R, "rewrite-only-if-enabled", "format_multiline_strings is reachable when format_multiline_strings=false", where=fm[0].where(),
                  instance={"guard": "olf_settings.format_multiline_strings"})
    # ---------------------------------------------------------------- C12.b
    R = "C12.b"
    b = per_literal_body(prog)
    if rep.check(b is not None, R, "anchor:format_multiline_strings", "format_multiline_strings not found"):
        sc = b.calls_to(LANG + "Token::set_content")
        if rep.check(len(sc) == 1, R, "one-set_content", "format_multiline_strings must call set_content exactly once"):
            facts = dominating_variant_facts(prog, b, sc[0].bb)
            vs = [(f[0], f[2]) for f in facts if f[1] == "is"]
            has = lambda sub, var: any(sub in k and v == (var,) for k, v in vs)
            from panic import dominating_conditions as _dc
            # the kind test may also be written `tok.get_token_type() == TokenType::TextLiteral(MultiLine)`
            eq_kind = False
            for c in _dc(b, sc[0].bb):
                if c[0] == "call" and "TokenType as core::cmp::PartialEq" in c[1] and ((c[1].endswith("::eq") and c[3] is True) or (c[1].endswith("::ne") and c[3] is False)):
                    oo = [Origins(b).of_operand(a) for a in c[2]]
                    if any(any(x[0] == "const" and x[1] == "enum_variant" and str(x[2]).endswith("MultiLine") for x in o2) for o2 in oo) and \
                            any(any(x[0] == "call" and x[2].endswith("get_token_type") for x in o2) for o2 in oo):
                        eq_kind = True
            not_ignored = has("map(", "Ok") or has("get_token_mut(", "Ok")
            # the per-literal step may receive the token as a parameter (`fn step(&self, tok: &mut Token, fmt: &FormattingData)`): a `&mut Token`
            # exists only behind the Ok of get_token_mut (C07.a), and that is what every call site hands over
            recv = canon(b, sc[0].args[0])
            mp = re.match(r"^(?:deref\()*arg(\d+)\)*$", recv)
            step_sites = [c for c in prog.who_calls(b.npath) if c.body.crate.startswith("pasfmt")] if mp else []
            if mp and step_sites and "Token" in b.locals[int(mp.group(1))]["ty"] and b.locals[int(mp.group(1))]["ty"].startswith("&mut"):
                not_ignored = not_ignored or all(re.search(r"get_token_mut\(.*\)\)?\.0@Ok", canon(c.body, c.args[int(mp.group(1)) - 1])) for c in step_sites)
            rep.check(not_ignored and ((has("", "TextLiteral") and has("", "MultiLine")) or eq_kind), R, "only-unignored-MultiLine-literals",
                      "set_content is not confined to tokens that are not ignored (Ok) and of kind TextLiteral(MultiLine): %s" % vs, where=sc[0].where(),
                      instance={"guards": ["Ok(tok)", "TextLiteral", "MultiLine"]})
            rep.check(has("try_rewrite_string(", "Some"), R, "only-if-rewrite-succeeded", "set_content is reachable when try_rewrite_string returned None (indentation rule violated => literal must stay)")
            from panic import dominating_conditions
            conds = dominating_conditions(b, sc[0].bb)
            rep.check(any(c[0] == "call" and c[1].endswith("::ne") and c[3] is True for c in conds), R, "only-if-changed", "set_content is not guarded by new != old")
            o = Origins(b).of_operand(sc[0].args[1])
            rep.check({x[2] for x in o if x[0] == "call"} == {SF + "try_rewrite_string"}, R, "new-content=rewrite-result", "the new content is not the result of try_rewrite_string: %s" % sorted(map(str, o)))
        tr = b.calls_to(SF + "try_rewrite_string")
        if rep.check(len(tr) == 1, R, "one-rewrite-call", "expected one try_rewrite_string call"):
            a = [canon(b, x) for x in tr[0].args]
            same_token = "get_content(" in a[1] and "get_token_mut(" in a[1] and "get_token_mut(" in a[2] and a[2].endswith(".1")
            mt, mf = re.match(r"^get_content\((?:deref\()*arg(\d+)\)*$", a[1]), re.match(r"^arg(\d+)$", a[2])
            if not same_token and mt and mf:
                # token and formatting data are parameters of the step: at every call site they are the two halves of one get_token_mut(..)
                sites = [c for c in prog.who_calls(b.npath) if c.body.crate.startswith("pasfmt")]

                def halves(c):
                    t0, f0 = canon(c.body, c.args[int(mt.group(1)) - 1]), canon(c.body, c.args[int(mf.group(1)) - 1])
                    m0, m1 = re.search(r"(get_token_mut\(.*?\)\)?)\.0", t0), re.search(r"(get_token_mut\(.*?\)\)?)\.1$", f0)
                    return bool(m0 and m1 and m0.group(1) == m1.group(1))
                same_token = bool(sites) and all(halves(c) for c in sites)
            rep.check(same_token, R, "rewrite(this-token-content,this-token-fmt)",
                      "try_rewrite_string is not called with this token's content and this token's formatting data: %s" % a[1:3], instance={"content": "tok.get_content()", "indent": "fmt of the same token"})
            # base indentation = leading blanks of the last line of this literal
            rep.check("count_leading_whitespace(" in a[3] and re.search(r"last\((lines|lines_custom)\(get_content\(", a[3]) is not None, R, "base=leading-blanks-of-last-line",
                      "base indentation is not last_line[0..count_leading_whitespace(last_line)]: %s" % a[3])
    # C12.k — "otherwise the literal is reproduced byte for byte": the output step writes every token's text as it is, once (shared with
    # C01.a) — only the string formatter, under its own tests, replaces the text of a literal
    import text as _text12
    from engine import AliasReport as _AR12
    _text12.check_c01(prog, _AR12(rep, [("C01.a", r".", "C12.k")]), tier, cfg)
    # C12.j — the literal the string formatter is handed ends with its closing quotes (shared with C13.j)
    import lexer_rules as _lxr
    _lxr.c13j(prog, rep, "C12.j")
    # ---------------------------------------------------------------- C12.c
    skip_discipline(prog, rep, "C12.c")
    # ---------------------------------------------------------------- C12.d provenance of everything appended
    R = "C12.d"
    tb = prog.body(SF + "try_rewrite_string")
    if tb is not None:
        srcs = []
        bodies = [tb] + [x for x in prog.bodies.values() if x.kind == "Closure" and x.npath.startswith(tb.npath + "::")]
        for bd in bodies:
            og = Origins(bd)
            for c in bd.calls():
                import layout as _layout2
                if c.callee in ("alloc::string::String::push_str", "alloc::string::String::push") or (c.callee or "").endswith("Extend::extend") or _layout2.is_repeat_push_helper(prog, c.target):
                    if "String" not in bd.locals[c.args[0]["place"]["l"]]["ty"]:
                        continue
                    ao = _text_origins(bd, c.args[1])
                    names = sorted({x[2].split("::")[-1] for x in ao if x[0] == "call"})
                    # a helper of the same impl that assembles nothing but repetitions of the two indent strings counts as those strings
                    built = {x[2] for x in ao if x[0] == "call" and _is_indent_builder(prog, x[2])}
                    # (a String made here — `String::new()` — is text of this function: what is appended to it is judged at its own appends)
                    fresh = {x[2].split("::")[-1] for x in ao if x[0] == "call" and x[2] in ("alloc::string::String::new", "alloc::string::String::with_capacity")}
                    ok = bool(names) and all((n in ("get_newline_str", "get_indentation_str", "get_continuation_str", "next", "strip_prefix")) or n in fresh or any(b2.split("::")[-1] == n for b2 in built) for n in names) and all(x[0] == "call" for x in ao)
                    srcs.append(names)
                    rep.check(ok, R, "append:%s:%s" % (short(bd.npath).split("::")[-1], names), "try_rewrite_string appends text of foreign origin: %s" % sorted(map(str, ao)), where=c.where(),
                              instance={"append": c.callee.split("::")[-1], "origin": names})
        rep.floor(R, "appends into the rewritten literal", len(srcs), 5)
        # closed set of operations that take the literal under construction mutably
        allowed_mut = {"alloc::string::String::push_str", "alloc::string::String::push"}
        nm = 0
        for bd in bodies:
            for c in bd.calls():
                for a in c.args:
                    if a["k"] in ("copy", "move") and not a["place"]["p"] and bd.locals[a["place"]["l"]]["ty"].replace("std::string::", "").replace("alloc::string::", "") in ("&mut String",):
                        nm += 1
                        import layout as _layout
                        okm = c.callee in allowed_mut or (c.callee or "").endswith("Extend::extend") or (c.callee or "").endswith("Extend<&'a str>>::extend") or "as core::iter::traits::collect::Extend" in (c.callee or "") \
                            or _layout.is_repeat_push_helper(prog, c.target)
                        rep.check(okm, R, "mutator:%s" % (c.callee or "?").split("::")[-1], "the literal under construction is handed mutably to %s in %s — only push/push_str/extend of reviewed origin may build it" % (c.callee, short(bd.npath)), where=c.where(),
                                  instance={"mutator": (c.callee or "?").split("::")[-1], "in": short(bd.npath).split("::")[-1]})
        rep.floor(R, "mutable uses of the literal under construction", nm, 5)
        made = [c for c in tb.calls() if (c.callee or "") == "alloc::string::String::with_capacity"]
        rep.check(len(made) == 1, R, "fresh-string", "the rewritten literal is not built in a fresh String")
        # counters used are this literal's own (parameter `indent`)
        helpers = {c.target for c in tb.calls() if c.target and _is_indent_builder(prog, c.target)}
        for f in ("indentations_before", "continuations_before"):
            rd = prog.field_accesses(LANG + "FormattingData", f, within={tb.npath} | helpers)
            rep.check(len(rd) == 1 and rd[0][3] == "read", R, "uses-own-" + f, "try_rewrite_string (with its indentation helper) does not read %s of its `indent` parameter exactly once" % f)
        for hname in helpers:
            # the helper is handed this literal's own counters
            for c in tb.calls():
                if c.target == hname:
                    rep.check(any(canon(tb, a) == "arg3" for a in c.args), R, "helper-gets-own-counters", "the indentation helper is not called with this literal's own formatting data", where=c.where())
    # ---------------------------------------------------------------- C12.f the re-indenter writes with the settings the reconstructor emits with
    import layout
    layout.same_settings_rule(prog, rep, "C12.f")
    layout.string_pass_visits_every_line(prog, rep, "C12.h")
    layout.no_effect_behind_a_short_circuit(prog, rep, "C12.i")
    # the StringFormatter's settings are the wrapper's own (no second settings value inside core)
    mk = [s for b2 in prog.bodies.values() if b2.crate.startswith("pasfmt") for _, _, s in b2.stmts()
          if s["k"] == "assign" and s["rv"]["k"] == "aggregate" and norm(s["rv"].get("adt", "")).endswith("multiline_strings::StringFormatter")]
    okm = len(mk) == 1
    if okm:
        # field recon_settings <- self.recon_settings of the OptimisingLineFormatter
        fields = dict(zip(mk[0]["rv"]["fields"], mk[0]["rv"]["ops"]))
        okm = "recon_settings" in fields
    rep.check(okm, "C12.f", "one-StringFormatter", "StringFormatter is constructed %d times" % len(mk), instance={"constructed": len(mk)})
    # ---------------------------------------------------------------- C12.e terminator sets agree
    R = "C12.e"
    # every place of the string pass that cuts the literal into lines uses the splitter that knows all three terminators: std's
    # `str::lines` / `split('\n')` do not end a line at a lone CR, so a CR-only literal would have no `last line` (its closing quotes are
    # never found at the start of one) and is left as it is
    STD_SPLITTERS = ("core::str::lines", "core::str::split", "core::str::rsplit", "core::str::split_terminator", "core::str::split_inclusive", "core::str::rsplit_once", "core::str::split_once")
    sfam = [x for x in prog.bodies.values() if x.npath.startswith(SF) and "lines_custom" not in x.npath]
    cutters = {}
    for x in sfam:
        for c in x.calls():
            cal = c.callee or ""
            if cal in STD_SPLITTERS or norm(c.t.get("resolved") or cal) == MS + "lines_custom":
                cutters.setdefault(cal.split("::")[-1], []).append(c)
    stdc = sorted(k for k in cutters if k != "lines_custom")
    rep.check("lines_custom" in cutters and not stdc, R, "one-line-splitter", "the multi-line string pass cuts the literal into lines with %s besides lines_custom: a literal whose lines end in a lone CR is "
              "not seen as lines there (its closing quotes' indentation is never found and it is not re-indented)" % stdc,
              where=(cutters[stdc[0]][0].where() if stdc else None), instance={"splitters": {k: len(v) for k, v in sorted(cutters.items())}})
    from lexer_rules import consts_in
    lcs = [x for x in prog.bodies.values() if x.npath.startswith(MS + "lines_custom::{closure#0}")]
    tl = prog.body("pasfmt_core::defaults::lexer::text_literal")
    if rep.check(len(lcs) == 1 and tl is not None, R, "anchor:lines_custom/text_literal", "lines_custom closure / lexer::text_literal not found"):
        a = sorted({v for k, v in consts_in(lcs[0], ("char",))})
        bset = set()
        # (the test may sit in a nested helper of text_literal, e.g. `multiline_contents_start`; the single-line segment scanners are not it)
        for tlx in [tl] + [x for x in prog.bodies.values() if x.npath.startswith(tl.npath + "::") and "::consume_" not in x.npath]:
            for bb in sorted(tlx.reachable()):
                t = tlx.blocks[bb]["term"]
                if t["k"] == "switch":
                    vals = [v for v, _ in t["targets"]]
                    if set(vals) == {10, 13}:
                        bset = set(vals)
        rep.check(a == [10, 13] and bset == {10, 13}, R, "AGREE:interior-line-terminators", "lines_custom splits on %s but the lexer accepts %s after the opening quotes" % (a, sorted(bset)),
                  instance={"lines_custom": a, "lexer": sorted(bset)})
        # the splitter closure is a two-state automaton over {CR, LF, other}: run its decision table on all six (state, class) inputs
        from table import Table, TooComplex, vdesc, render, run_concrete, eval_desc, Unknown
        try:
            tb = Table(prog, lcs[0], inline=2)
            trans = {}
            okp = True
            why = ""
            for st in (False, True):
                for cname, ch in (("CR", 13), ("LF", 10), ("other", 65)):
                    env = {"arg1.0": st, "arg2": ch}
                    try:
                        res, eff = run_concrete(tb, env)
                        out = eval_desc(vdesc(res), env)
                        new = st
                        for k, v in eff:
                            if k == "arg1.0":
                                new = bool(eval_desc(vdesc(v), env))
                        trans[(st, cname)] = {(bool(out), new)}
                    except Unknown as e:
                        okp = False
                        why = "cannot evaluate: %s" % e
            want = {(False, "CR"): {(True, True)}, (False, "LF"): {(True, False)}, (False, "other"): {(False, False)},
                    (True, "CR"): {(True, True)}, (True, "LF"): {(False, False)}, (True, "other"): {(False, False)}}
            rep.check(okp and trans == want, R, "line-splitter-automaton",
                      "the interior-line splitter (state: `previous char was CR`) has transition table %s %s; required: CR ends a line and arms the flag, LF ends a line unless the flag is armed, "
                      "and the flag is cleared by every character other than CR (otherwise a bare LF after a CRLF is swallowed and a blank interior line disappears)"
                      % ({str(k): sorted(v) for k, v in sorted(trans.items(), key=str)}, why),
                      where="%s:%d" % (lcs[0].file, lcs[0].line), instance={"transitions": {"%s,%s" % k: sorted(map(str, v)) for k, v in trans.items()}})
        except TooComplex as e:
            rep.fail(R, "line-splitter-automaton", "the line splitter closure is no longer loop-free: %s" % e)
        lcb = prog.body(MS + "lines_custom")
        tm = [c for c in prog.bodies.values() if c.npath.startswith(MS + "lines_custom::{closure#1}")]
        rep.check(lcb is not None and len(tm) == 1 and any(c.callee == "core::str::trim_matches" for c in tm[0].calls()), R, "terminators-trimmed", "lines_custom no longer trims the terminators off each line")


PROPERTIES = {
    "C12": (check_c12,
            "Structural clauses of C12: (a) multi-line strings are rewritten only from OptimisingLineFormatter::format and only when format_multiline_strings is set; "
            "(b) set_content is confined to un-ignored TextLiteral(MultiLine) tokens, to a successful rewrite (Some) that differs from the old text, and the rewrite is "
            "computed from this token's content and this token's own indentation counters with base = leading blanks of its last line; (c) an interior line is left out "
            "only if it is a prefix of the base indentation or nothing remains after stripping it; a mismatch returns None; (d) everything appended is the literal's own "
            "lines, the configured newline or the two indent strings; (e) the interior-line terminator set {CR, LF} agrees with the lexer. "
            "(f) the re-indenter writes with the same ReconstructionSettings value the reconstructor emits with (one StringFormatter, built from the wrapper's own settings); (d) also closes the set of operations that take the literal under construction mutably. "
            "Not decided: that each pushed line is intact and in order (loop invariant over strings). Added in round 7: (g) the hard-break table and `no answer before the invariant` (shared with C02.a/b); (e) includes `one line splitter`.", []),
}
